"""
C03 — no datagram can make the receive path fail or over-read.

Link to the code
  * translator tools/gen_c03.py regenerates lean/Ipv8/C03/GenTables.lean on every run (packer registry, every
    Serializable class' format list, overlay handler tables, the guard constants / try-except shapes of the anchored
    receive functions);
  * correspondence (driver drv_c03):
      A. decoding   — Serializer.unpack_serializable / unpack_serializable_list on every shipped + synthetic class over
                      byte strings derived from valid encodings (all truncations, inflated/deflated length fields, flips,
                      garbage, non-zero start offsets); model predicts ok/err, end offset and every decoded value;
      B. receive    — real overlays of every shipped class (+ a synthetic one whose handlers raise many exception types)
                      on mock endpoints, alone and multiplexed, prefix- and globally registered, with random
                      add/remove/close operations; Endpoint.notify_listeners on generated datagrams; model predicts
                      the exact sequence of listener invocations and handler entries (public and circuit-only) and
                      "no exception";  a sample also goes through a really opened UDPEndpoint.datagram_received;
      C. snapshot   — Network.load_snapshot on mutated snapshots; model predicts the loaded addresses;
  * oracle (independent of the model), evaluated for every case on the implementation:
      - nothing raises out of notify_listeners / datagram_received / load_snapshot (and load_snapshot terminates);
      - every listener registered for the datagram's prefix (or globally) had its on_packet invoked;
      - a handler (public or circuit-only) is entered only if the first 22 bytes of the datagram are its overlay's prefix;
      - a successful decode ends inside the buffer, and every length-prefixed part recorded by packer-level proxies has
        exactly its declared length; consume_all leaves no remainder.
"""
from __future__ import annotations

import asyncio
import logging
import signal
import socket
import struct
import sys
import traceback

import gen_c03
from vlib import Ctx, InfraError

PROPERTY = "C03"
LEAN_TARGETS = ["Ipv8.C03.Props"]
PROPS_FILE = "Ipv8/C03/Props.lean"
DRIVER = "drv_c03"
RULE = ("every key, address and choice derives from VERIF_SEED (one PRNG per section: decode / snapshot / receive); "
        "decode: (class, start offset, bytes) with bytes = valid encoding generated from the class' format list, then "
        "every truncation / each length field +-1,+big / byte flips / garbage tail; receive: (registry history, datagram) "
        "with datagrams = prefix truncations, every msg id, exhaustive short cell headers, signed and unsigned structured "
        "bodies, all prefixes of valid datagrams, prefix bit flips, random strings to 1500 bytes; snapshot: mutated "
        "address lists. distinct = distinct (world, history position, source, datagram) resp. (class, offset, bytes); "
        "counted as non-trivial: every case except the generators `random` and `garbage` (i.e. also the exhaustive "
        "msgid-only / prefix-truncation / single-field truncation families: they are boundary cases by construction)")
TRUSTED_BASE = [
    "tools/gen_c03.py: live introspection of packers/payload classes/overlays and AST extraction of the guards of "
    "Community.on_packet, on_packet_from_circuit, PythonCryptoEndpoint.on_packet, CellPayload.from_bin",
    "hand-written Lean model of the packers' unpack side, the listener registry, both demultiplexers, the cell "
    "pre-processor and load_snapshot (Ipv8/C03/Model.lean, Recv.lean), tied by the correspondence run",
    "handler bodies, relay_cell, key parsing (Peer/Node construction) and the AEAD are outside the model: handlers and "
    "relaying may raise anything (universally quantified Env), decryption is an oracle computed with the real keys",
]
ASSUMPTIONS = [
    "exceptions derived from Exception only (a handler raising BaseException, e.g. KeyboardInterrupt, is not caught by the code)",
    "listeners outside the package (the harness' recorders) are assumed not to raise (Listener.inert); the shipped kinds "
    "Community, PythonCryptoEndpoint, StatisticsEndpoint are modelled and the translator fails on any other shipped EndpointListener",
    "source addresses handed to listeners are 2-field tuples / namedtuples (UDPv4Address, UDPv6Address, DomainAddress, plain tuple); "
    "negative start offsets (Python reads from the end) are outside the decode model",
    "start offsets handed to unpack_serializable are non-negative",
]

_TABLES = None
SRC_ADDR = ("1.2.3.4", 5)


def _sources():
    from ipv8.messaging.interfaces.udp.endpoint import DomainAddress, UDPv4Address, UDPv6Address
    return [lambda: UDPv4Address("1.2.3.4", 5), lambda: ("1.2.3.4", 5), lambda: UDPv6Address("::1", 7),
            lambda: DomainAddress("relay.example", 80), lambda: ("2001:db8::1", 9, 0, 0), lambda: UDPv4Address("9.9.9.9", 0)]




def tables():
    global _TABLES
    if _TABLES is None:
        _TABLES = gen_c03.tables()
    return _TABLES


def generate(ctx: Ctx):
    t = tables()
    ctx.extra["generated_tables"] = {"packers": len(t["packers"] or []), "payload_classes": len(t["payloads"] or []),
                                     "overlays": [o[0] for o in (t["overlays"] or [])], "ast": t["ast"],
                                     "live": t["live"], "errors": t["errors"]}
    return [("Ipv8/C03/GenTables.lean", gen_c03.translate(t))]


def hx(b: bytes) -> str:
    return b.hex() if b else "-"


_CELL_HDR_END = None


def cell_header_end() -> int:
    """length of prefix + msg id + cell header, taken from the ENCODER (CellPayload.to_bin), not from from_bin"""
    global _CELL_HDR_END
    if _CELL_HDR_END is None:
        from ipv8.messaging.anonymization.payload import CellPayload
        _CELL_HDR_END = len(CellPayload(0, b"").to_bin(b"\x00" * 22))
    return _CELL_HDR_END


class Hang(BaseException):
    pass


def fail(ctx: Ctx, signature: str, what: str, replay: dict):
    """forward at most 3 failures per signature (the shared list is capped), count all of them"""
    ctx.count("oracle-failure:" + signature)
    if ctx.counts["oracle-failure:" + signature] <= 3:
        ctx.oracle_fail(signature, what, replay)


class watchdog:
    """raise Hang (a BaseException, so no `except Exception` swallows it) if the block runs longer than `secs`"""

    def __init__(self, secs: float):
        self.secs = secs

    def _fire(self, *_):
        raise Hang

    def __enter__(self):
        self.old = signal.signal(signal.SIGALRM, self._fire)
        signal.setitimer(signal.ITIMER_REAL, self.secs)

    def __exit__(self, *exc):
        signal.setitimer(signal.ITIMER_REAL, 0)
        signal.signal(signal.SIGALRM, self.old)
        return False


def site_of(exc: BaseException) -> str:
    """innermost ipv8 frame (function name) the exception passed through — stable part of a signature"""
    tb = traceback.extract_tb(exc.__traceback__)
    names = [f for f in tb if "/ipv8/" in f.filename and "/test/" not in f.filename]
    if not names:
        return "unknown"
    f = names[-1]
    return f"{f.filename.split('/ipv8/')[-1]}:{f.name}"


# =================================================================================================== A. decoding
_KEYS = None


_KEYRNG = None


def det_key(rng):
    """a curve25519 key pair derived from the seeded PRNG (the library's own generator uses OS randomness)"""
    from ipv8.keyvault.crypto import default_eccrypto
    return default_eccrypto.key_from_private_bin(b"LibNaCLSK:" + bytes(rng.getrandbits(8) for _ in range(64)))


def reset_keys(seed):
    global _KEYS, _SKEYS, _KEYRNG
    import random as _random
    _KEYRNG = _random.Random(f"{seed}:keys")
    _KEYS = [det_key(_KEYRNG) for _ in range(3)]
    _SKEYS = [det_key(_KEYRNG) for _ in range(4)]


def key_pool():
    if _KEYS is None:
        reset_keys(0)
    return _KEYS


_SKEYS = None


def sender_keys():
    if _SKEYS is None:
        reset_keys(0)
    return _SKEYS


TEXT = ["", "a", "host.example", "é", "日本", "\U0001f600x", "tribler.org", "x" * 30]


def rbytes(rng, n):
    m = rng.random()
    if m < 0.1:
        return b"\x00" * n
    if m < 0.2:
        return b"\xff" * n
    return bytes(rng.getrandbits(8) for _ in range(n))


def gen_bytes(rng, d, marks, pos):
    """a valid encoding of format descriptor d; marks collects (absolute position, width, big-endian) of length fields"""
    k = d[0]
    if k == "struct":
        return rbytes(rng, sum(n for _, n in d[1]))
    if k == "bits":
        return rbytes(rng, 1)
    if k == "raw":
        # "the rest": also whole and cut-off records of the sizes hand-written from_unpack_list bodies step through (20, 24)
        return rbytes(rng, rng.choice([0, 0, 1, 5, 17, 20, 24, 48, 23, 25, 47]))
    if k == "varlen":
        lw, base = d[1], d[2]
        n = rng.choice([0, 1, 1, 2, 3, rng.randrange(0, 12)])
        marks.append((pos, lw, True))
        return n.to_bytes(lw, "big") + rbytes(rng, n * base)
    if k == "utf8":
        s = "".join(rng.choice(TEXT) for _ in range(rng.choice([0, 1, 1, 2]))).encode()
        marks.append((pos, d[1], True))
        return (len(s) // d[2]).to_bytes(d[1], "big") + s[:len(s) // d[2] * d[2]]
    if k == "ipv4":
        return rbytes(rng, 6)
    if k == "address":
        t = rng.choice([1, 1, 3] + ([2, 2] if not d[1] else []))
        if t == 1:
            return b"\x01" + rbytes(rng, 6)
        if t == 3:
            return b"\x03" + rbytes(rng, 18)
        h = rng.choice(TEXT[1:]).encode()
        marks.append((pos + 1, 2, True))
        return b"\x02" + len(h).to_bytes(2, "big") + h + rbytes(rng, 2)
    if k == "list":
        n = rng.choice([0, 1, 2, 3])
        marks.append((pos, d[1], True))
        out = n.to_bytes(d[1], "big")
        for _ in range(n):
            out += gen_bytes(rng, d[2], marks, pos + len(out))
        return out
    if k == "array":
        n = rng.choice([0, 1, 2, 4])
        marks.append((pos, d[1], d[2]))
        return n.to_bytes(d[1], "big" if d[2] else "little") + rbytes(rng, n * d[4])
    if k == "nested":
        inner_marks: list = []
        body = b""
        for x in d[1]:
            body += gen_bytes(rng, x, inner_marks, pos + 2 + len(body))
        body += rbytes(rng, rng.choice([0, 0, 0, 2]))   # slack inside the declared size is legal
        marks.append((pos, 2, True))
        marks.extend(inner_marks)
        return len(body).to_bytes(2, "big") + body
    if k == "tuple":
        out = b""
        for i, x in enumerate(d[1]):
            if i == 1 and x == ("varlen", 2, 1) and rng.random() < 0.75:    # dht node entry: mostly a parsable key
                kb = rng.choice(key_pool()).pub().key_to_bin()
                marks.append((pos + len(out), 2, True))
                out += len(kb).to_bytes(2, "big") + kb
            else:
                out += gen_bytes(rng, x, marks, pos + len(out))
        return out
    if k == "flags":
        return rbytes(rng, d[1])
    raise InfraError(f"no generator for {d!r}")


def gen_class_bytes(rng, descs, pos=0):
    marks: list = []
    out = b""
    for d in descs:
        out += gen_bytes(rng, d, marks, pos + len(out))
    return out, marks


def mutations(rng, enc: bytes, marks, full: bool):
    """(label, bytes) derived from a valid encoding"""
    yield "valid", enc
    n = len(enc)
    ks = range(n) if (full or n <= 40) else sorted(set(rng.sample(range(n), 24)) | {0, n - 1})
    for k in ks:
        yield "trunc", enc[:k]
    for pos, w, be in marks:
        if pos + w > n:
            continue
        v = int.from_bytes(enc[pos:pos + w], "big" if be else "little")
        for nv, lab in ((v + 1, "len+1"), (v - 1, "len-1"), (v + 200, "len+200"), (256 ** w - 1, "lenmax")):
            if 0 <= nv < 256 ** w and nv != v:
                yield lab, enc[:pos] + nv.to_bytes(w, "big" if be else "little") + enc[pos + w:]
    for _ in range(3 if not full else 8):
        if n:
            i = rng.randrange(n)
            yield "flip", enc[:i] + bytes([enc[i] ^ (1 << rng.randrange(8))]) + enc[i + 1:]
    yield "tail", enc + rbytes(rng, rng.choice([1, 2, 9]))
    yield "garbage", rbytes(rng, rng.choice([0, 1, 2, 3, 7, 20, 60]))


class RawList(tuple):
    """what a probe class' from_unpack_list returns: the raw unpack list"""


_PROBES: dict = {}


def probe_class(cls):
    """subclass whose from_unpack_list returns the raw unpack list (nested classes replaced likewise)"""
    if cls in _PROBES:
        return _PROBES[cls]
    from ipv8.messaging.serialization import Serializable
    fl = []
    for f in cls.format_list:
        if isinstance(f, list):
            fl.append([probe_class(f[0])])
        elif isinstance(f, type) and issubclass(f, Serializable):
            fl.append(probe_class(f))
        else:
            fl.append(f)

    class _Probe(Serializable):   # carrier: unpack_serializable only reads .format_list and calls .from_unpack_list
        format_list = fl
        origin = cls

        def to_pack_list(self):
            return []

        @classmethod
        def from_unpack_list(c, *args, **kwargs):
            return RawList(args)
    _Probe.__name__ = "Probe" + cls.__name__
    _PROBES[cls] = _Probe
    return _Probe


class RecPacker:
    """recording proxy around a live packer"""

    def __init__(self, name, inner, log):
        self.name, self.inner, self.log = name, inner, log

    def pack(self, *a):
        return self.inner.pack(*a)

    def unpack(self, data, offset, unpack_list, *args):
        n0 = len(unpack_list)
        end = self.inner.unpack(data, offset, unpack_list, *args)
        self.log.append((self.name, self.inner, data, offset, end, list(unpack_list[n0:])))
        return end


def probe_serializer(log):
    ser = gen_c03.make_serializer()
    for k in list(ser._packers):
        ser._packers[k] = RecPacker(k, ser._packers[k], log)
    return ser


def render_field(t, v):
    if t == "u":
        return f"n{v}"
    if t == "i":
        return f"i{v}"
    if t == "bool":
        return "T" if v else "F"
    if t in ("char", "bytes"):
        return "x" + hx(v)
    if t == "float":
        return "f"
    raise InfraError(t)


def render_addr(v):
    from ipv8.messaging.interfaces.udp.endpoint import DomainAddress, UDPv4Address, UDPv6Address
    if isinstance(v, UDPv4Address):
        return f"a1:{hx(socket.inet_pton(socket.AF_INET, v.ip))}:{v.port}"
    if isinstance(v, UDPv6Address):
        return f"a3:{hx(socket.inet_pton(socket.AF_INET6, v.ip))}:{v.port}"
    if isinstance(v, DomainAddress):
        return f"a2:{hx(v.host.encode())}:{v.port}"
    raise InfraError(f"address value {v!r}")


def render(d, v) -> str:
    k = d[0]
    if k == "struct":
        if len(d[1]) == 1:
            return render_field(d[1][0][0], v)
        return "(" + "".join(render_field(t, x) + ";" for (t, _), x in zip(d[1], v)) + ")"
    if k in ("raw", "varlen"):
        return "x" + hx(v)
    if k == "utf8":
        return "s" + hx(v.encode())
    if k in ("ipv4", "address"):
        return render_addr(v)
    if k == "list":
        return "[" + "".join(render(d[2], x) + ";" for x in v) + "]"
    if k == "array":
        return "<" + "".join(("T" if x else "F") + ";" if d[3] == "bool" else (f"i{x};" if d[3] == "q" else "f;")
                             for x in v) + ">"
    if k == "nested":
        return "{" + render_list(d[1], list(v)) + "}"
    if k == "tuple":    # dht Node
        return "(" + render_addr(v.address) + ";x" + hx(v.public_key.key_to_bin()) + ";)"
    if k == "flags":
        return "F" + ",".join(str(x) for x in v)
    raise InfraError(f"no rendering for {d!r}")


def render_list(descs, vals) -> str:
    out, i = "", 0
    for d in descs:
        if d[0] == "bits":
            out += ";".join(f"n{x}" for x in vals[i:i + 8]) + ";"
            i += 8
        else:
            out += render(d, vals[i]) + ";"
            i += 1
    if i != len(vals):
        raise InfraError("unpack list length does not match the format list")
    return out


def hand_written_unpack(cls) -> bool:
    """the class defines its own from_unpack_list (old-style Payload), not the generated VariablePayload one"""
    from ipv8.messaging.lazy_payload import VariablePayload
    if issubclass(cls, VariablePayload):
        return False
    f = cls.__dict__.get("from_unpack_list")
    return f is not None


def check_records(ctx: Ctx, log, replay):
    """the property on the implementation: declared lengths hold, end positions inside the buffer"""
    from ipv8.messaging import serialization as S
    for name, p, data, off, end, vals in log:
        if not (0 <= end <= len(data)):
            fail(ctx, f"{type(p).__name__}.unpack:end-beyond-buffer",
                            f"packer {name!r} returned end offset {end} for a {len(data)}-byte buffer (start {off})", replay)
            continue
        declared = None
        if isinstance(p, S.VarLen):
            declared = struct.unpack_from(p.length_format, data, off)[0] * p.base
            v = vals[0]
            got = len(v.encode()) if isinstance(v, str) else len(v)
        elif isinstance(p, (S.DefaultArray, S.ListOf)):
            declared = struct.unpack_from(p.length_format, data, off)[0]
            got = len(vals[0])
        elif isinstance(p, S.NestedPayload):
            declared = struct.unpack_from(">H", data, off)[0]
            got = end - off - 2
        if declared is not None and declared != got:
            fail(ctx, f"{type(p).__name__}.unpack:declared-length",
                            f"packer {name!r} at offset {off}: length prefix declares {declared} but the decoded part has "
                            f"{got} (buffer {len(data)} bytes): truncated input accepted", replay)


def run_decode(ctx: Ctx, n_rounds: int, use_model: bool, full: bool):
    from ipv8.messaging.serialization import PackError
    rng = ctx.rng
    t = tables()
    if t["payloads"] is None:
        ctx.count("decode:skipped(payload table outside the translator subset)")
        return
    classes = dict(gen_c03.payload_classes())
    descs = dict(t["payloads"])
    real_ser = gen_c03.make_serializer()
    log: list = []
    pser = probe_serializer(log)
    lines, expect = [], []

    def one(name, data, off, label):
        cls = classes[name]
        replay = {"kind": "decode", "class": name, "data": data.hex(), "offset": off}
        ctx.count(f"decode:mut:{label}")
        # the production call
        try:
            obj, end = real_ser.unpack_serializable(cls, data, off)
            real = ("ok", end)
        except Exception as e:
            real = ("err", type(e).__name__, str(e)[:200])
        # the same call through recording proxies, raw unpack list
        del log[:]
        try:
            raw, pend = pser.unpack_serializable(probe_class(cls), data, off)
            probe = ("ok", pend, render_list(descs[name], list(raw)))
        except Exception as e:
            probe = ("err", type(e).__name__, str(e)[:200])
        ctx.count(f"decode:result:{real[0]}" + (":" + real[1] if real[0] == "err" else ""))
        # oracle
        if real[0] == "ok":
            if off <= len(data) and not (0 <= real[1] <= len(data)):
                fail(ctx, "Serializer.unpack_serializable:end-beyond-buffer",
                                f"{name}: reported end {real[1]} in a {len(data)}-byte buffer", replay)
            if probe[0] != "ok" or probe[1] != real[1]:
                ctx.disagree(f"probe run differs from the production call on {name}: {probe[:2]} vs {real}", replay)
        check_records(ctx, list(log), replay)
        if real[0] == "ok" and probe[0] == "ok":
            # the value the handler receives: for payload classes that store the unpack list under `names` without
            # conversion hooks, every field must be the corresponding item of the raw unpack list
            names = getattr(cls, "names", None)
            if names and len(names) == len(raw) and not any(hasattr(cls, "fix_unpack_" + n) for n in names) \
                    and not any(isinstance(f, (list, type)) for f in cls.format_list):
                for nme, rv in zip(names, raw):
                    ov = getattr(obj, nme, None)
                    if not (ov == rv or repr(ov) == repr(rv)):       # repr: NaN items compare unequal to themselves
                        fail(ctx, "Serializer.unpack_serializable:value-differs-from-unpack-list",
                             f"{name}.{nme} is {ov!r:.80} but the decoded item is {rv!r:.80}", replay)
                        break
                ctx.count("decode:value-checked-on-production-object")
        if real[0] == "ok" and probe[0] == "ok" and off <= len(data) and hand_written_unpack(cls):
            # hand-written from_unpack_list bodies re-parse blobs with their own record loops (no Packer involved): whatever
            # they accept must account for every byte the decode consumed — the accepted value re-encodes to exactly as many
            # bytes (content may be normalised: bit fields, modulo identifiers; the LENGTH may not shrink: a dropped
            # partial record is a truncated message silently accepted)
            try:
                again = real_ser.pack_serializable(obj)
            except Exception:
                again = None
                ctx.count("decode:re-encode:raised")
            if again is not None:
                ctx.count("decode:re-encode:" + ("same-length" if len(again) == real[1] - off else "DIFFERENT-LENGTH"))
                if len(again) != real[1] - off:
                    fail(ctx, f"{name}.from_unpack_list:bytes-unaccounted-for",
                         f"{name} accepted {real[1] - off} bytes but the value it produced encodes to {len(again)} bytes: "
                         f"part of the input was silently dropped (a cut-off record / field)", replay)
        if real[0] == "err" and probe[0] == "ok":
            # from_unpack_list of the real class rejected the values: still an error, fine
            ctx.count("decode:rejected-by-from_unpack_list")
        ctx.case(("dec", name, off, data), label != "garbage")
        if label in ("len+1", "trunc") and len(ctx.samples) < 3 and len(data) > 6:
            ctx.sample({"decode": name, "offset": off, "mutation": label, "data": data.hex()[:120],
                        "implementation": (real[0] + (" end %d" % real[1] if real[0] == "ok" else " " + real[1]))})
        lines.append(f"dec {name} {hx(data)} {off}")
        if probe[0] == "ok":
            expect.append((f"ok {probe[1]} {probe[2]}", name, replay, None))
        else:
            expect.append(("err", name, replay, probe))

    names = sorted(classes)
    for _ in range(n_rounds):
        for name in names:
            d = descs[name]
            off = rng.choice([0, 0, 0, 1, 23, rng.randrange(0, 40)])
            pre = rbytes(rng, off)
            enc, marks = gen_class_bytes(rng, d, 0)
            ctx.count(f"decode:enc_len:{min(len(enc) // 16 * 16, 128)}+")
            for label, m in mutations(rng, enc, marks, full):
                one(name, pre + m, off, label)
            if rng.random() < 0.2:   # start offset beyond the buffer
                one(name, enc[:3], rng.choice([4, 5, 50]), "off-beyond")
    # unpack_serializable_list with and without consume_all
    list_lines, list_expect = [], []
    for _ in range(n_rounds * 40):
        k = rng.choice([1, 2, 2, 3])
        ns = [rng.choice(names) for _ in range(k)]
        off = rng.choice([0, 0, 23, 5])
        body = b"".join(gen_class_bytes(rng, descs[n], 0)[0] for n in ns)
        mode = rng.choice(["valid", "tail", "trunc", "trunc"])
        if mode == "tail":
            body += rbytes(rng, rng.choice([1, 3]))
        elif mode == "trunc" and body:
            body = body[:rng.randrange(len(body))]
        data = rbytes(rng, off) + body
        consume = rng.random() < 0.6
        replay = {"kind": "decode_list", "classes": ns, "data": data.hex(), "offset": off, "consume_all": consume}
        errtxt = ""
        del log[:]
        try:
            res = pser.unpack_serializable_list([probe_class(classes[n]) for n in ns], data, off, consume_all=consume)
            payloads = res if consume else res[:-1]
            rem = b"" if consume else res[-1]
            got = "ok " + "|".join(render_list(descs[n], list(r)) for n, r in zip(ns, payloads)) + " rem=" + hx(rem)
            if consume:
                # property: consume_all accepted => nothing is left over (checked with the non-consuming variant)
                rest = real_ser.unpack_serializable_list([classes[n] for n in ns], data, off, consume_all=False)[-1] \
                    if _real_ok(real_ser, [classes[n] for n in ns], data, off) else b""
                if rest:
                    fail(ctx, "Serializer.unpack_serializable_list:consume_all-remainder",
                                    f"consume_all accepted {ns} but {len(rest)} bytes were not consumed", replay)
        except Exception as e:
            got = "err"
            errtxt = str(e)
            ctx.count(f"decode_list:err:{type(e).__name__}")
        check_records(ctx, list(log), replay)
        ctx.count(f"decode_list:{mode}:{'consume' if consume else 'keep'}:{got[:3].strip()}")
        ctx.case(("decl", tuple(ns), off, data, consume), True)
        list_lines.append(f"decl {1 if consume else 0} {','.join(ns)} {hx(data)} {off}")
        list_expect.append((got, replay, errtxt))
    if use_model:
        replies = ctx.driver().batch(lines + list_lines)
        def kinds(ds, acc):
            for d in ds:
                acc.add(d[0])
                if d[0] == "list":
                    kinds([d[2]], acc)
                elif d[0] in ("nested", "tuple"):
                    kinds(d[1], acc)
            return acc
        for ln, model, (impl, name, replay, probe) in zip(lines, replies[:len(lines)], expect):
            m = "err" if model.startswith("err") else model
            ctx.count("model-branch:dec:" + ("ok" if model.startswith("ok") else model.replace(" ", ":")))
            for k in kinds(descs[name], set()):
                ctx.count(f"model-branch:fmt:{k}:{'ok' if model.startswith('ok') else 'err'}")
            if m == impl:
                continue
            if impl == "err" and m.startswith("ok") and probe and "node-list" in probe[2] and "key" in probe[2].lower():
                ctx.count("decode:node-key-rejected(not modelled)")
                continue
            ctx.disagree(f"decode {name}: model `{model[:160]}` != implementation `{impl[:160]}` "
                         f"{'(' + probe[1] + ': ' + probe[2][:80] + ')' if probe else ''}", dict(replay, line=ln))
        for ln, model, (impl, replay, errtxt) in zip(list_lines, replies[len(lines):], list_expect):
            m = "err" if model.startswith("err") else model
            ctx.count("model-branch:decl:" + ("ok" if model.startswith("ok") else model.replace(" ", ":")) +
                      (":consume_all" if ln.startswith("decl 1") else ":keep-remainder"))
            if impl == "err" and m.startswith("ok") and "node-list" in errtxt and "key" in errtxt.lower():
                ctx.count("decode:node-key-rejected(not modelled)")
                continue
            if m != impl:
                ctx.disagree(f"decode list: model `{model[:160]}` != implementation `{impl[:160]}`", dict(replay, line=ln))


def _real_ok(ser, classes, data, off) -> bool:
    try:
        ser.unpack_serializable_list(classes, data, off, consume_all=False)
        return True
    except Exception:
        return False


# =================================================================================================== B. receive path
class World:
    """one mock endpoint with real overlays on it, every registry call mirrored as a model line"""

    def __init__(self, ctx: Ctx, name: str, model_net: bool = False, ep=None):
        from ipv8.test.mocking.endpoint import AutoMockEndpoint
        self.ctx = ctx
        self.name = name
        if ep is None:
            ep = AutoMockEndpoint()
            ep.open()
        self.ep = ep
        self.stats: dict[int, object] = {}
        self.lines: list[str] = ["reset"]
        self.expect: list = [None]
        self.ids: dict[int, int] = {}
        self.objs: dict[int, object] = {}
        self.events: list[str] = []
        self.registered: list[tuple[int, bytes | None]] = []   # the harness' own view: (lid, prefix or None)
        self.overlays: list = []
        self.cryptos: dict[int, object] = {}
        self.crypto_state: dict[int, tuple] = {}
        self.current = b""
        self.harness_errors: list[str] = []
        from ipv8.peerdiscovery.network import Network
        self.network = Network()            # one Network shared by every overlay on the endpoint, as in a real IPv8 node
        self.model_net = model_net          # True: every Network mutation is mirrored into the model (sender events compared)
        self.peers: dict[int, object] = {}  # oid -> Peer object created by the harness
        self.peer_ids: dict[int, int] = {}
        self.scripts: dict[int, list] = {}  # lid -> registry calls the listener makes while handling a datagram
        self.in_dispatch = False
        self.last_called = 0
        self.lookup_results: list[int] = []
        self._wrap_registry()
        self._wrap_network()
        self.tx: list[int] = []
        real_send = self.ep.send

        def send(address, packet, *a, **kw):
            self.tx.append(len(packet))
            return real_send(address, packet, *a, **kw)
        self.ep.send = send

    # ---- ids and registry mirroring
    def lid(self, obj) -> int:
        k = id(obj)
        if k not in self.ids:
            self.ids[k] = len(self.ids) + 1
            self.objs[self.ids[k]] = obj
        return self.ids[k]

    def emit(self, line: str):
        self.lines.append(line)
        self.expect.append(None)

    def _wrap_registry(self):
        ep = self.ep
        add, addp, rm = ep.add_listener, ep.add_prefix_listener, ep.remove_listener

        def add_listener(listener):
            add(listener)
            if not self.in_dispatch:
                self.emit(f"add {self.lid(listener)}")
            self.registered.append((self.lid(listener), None))

        def add_prefix_listener(listener, prefix):
            addp(listener, prefix)
            if not self.in_dispatch:
                self.emit(f"addp {self.lid(listener)} {hx(prefix)}")
            self.registered.append((self.lid(listener), bytes(prefix)))

        def remove_listener(listener):
            rm(listener)
            if not self.in_dispatch:
                self.emit(f"rm {self.lid(listener)}")
            self.registered = [(l, p) for l, p in self.registered if l != self.lid(listener)]
        ep.add_listener, ep.add_prefix_listener, ep.remove_listener = add_listener, add_prefix_listener, remove_listener

    # ---- the shared Network: sender lookups observed, harness-made mutations mirrored
    def _wrap_network(self):
        net = self.network
        real = net.get_verified_by_address

        def get_verified_by_address(address):
            r = real(address)            # may raise: that is what the oracle around notify_listeners reports
            if self.model_net:
                oid = self.peer_ids.get(id(r)) if r is not None else None
                self.events.append(f"s{self.last_called}:{oid if r is not None else 'none'}")
                if oid is not None:
                    self.lookup_results.append(oid)
            return r
        net.get_verified_by_address = get_verified_by_address

    @staticmethod
    def addr_bytes(a) -> bytes:
        return f"{a[0]}:{a[1]}".encode()

    def new_peer(self, key_index: int, addr):
        from ipv8.messaging.interfaces.udp.endpoint import UDPv4Address
        from ipv8.peer import Peer
        p = Peer(sender_keys()[key_index].pub(), UDPv4Address(*addr))
        oid = len(self.peers) + 1
        self.peers[oid] = p
        self.peer_ids[id(p)] = oid
        self.emit(f"net new {oid} {key_index + 1} {hx(self.addr_bytes(addr))}")
        return oid

    def net_op(self, op: str, oid: int = 0, addr=None):
        from ipv8.messaging.interfaces.udp.endpoint import UDPv4Address
        n = self.network
        if op == "addv":
            n.add_verified_peer(self.peers[oid])
            self.emit(f"net addv {oid}")
        elif op == "rmp":
            n.remove_peer(self.peers[oid])
            self.emit(f"net rmp {oid}")
        elif op == "rma":
            n.remove_by_address(UDPv4Address(*addr))
            self.emit(f"net rma {hx(self.addr_bytes(addr))}")
        elif op == "seta":
            self.peers[oid].address = UDPv4Address(*addr)
            self.emit(f"net seta {oid} {hx(self.addr_bytes(addr))}")
        self.ctx.count(f"recv:network-op:{op}")

    # ---- re-entrancy: what a listener does to the endpoint's registry while it handles a datagram
    def set_script(self, listener, ops: list):
        """ops: ("add", obj) | ("addp", obj, prefix) | ("rm", obj) | ("open", bool)"""
        lid = self.lid(listener)
        self.scripts[lid] = ops
        enc = []
        for op in ops:
            if op[0] in ("add", "rm"):
                enc.append(f"{op[0]}:{self.lid(op[1])}")
            elif op[0] == "addp":
                enc.append(f"addp:{self.lid(op[1])}:{hx(op[2])}")
            else:
                enc.append(f"open:{1 if op[1] else 0}")
        self.emit(f"fx {lid} {','.join(enc) if enc else '-'}")

    def run_script(self, lid: int):
        for op in self.scripts.get(lid, ()):
            self.ctx.count(f"recv:reentrant-op:{op[0] if op[0] != 'open' else ('open' if op[1] else 'close')}")
            if op[0] == "add":
                self.ep.add_listener(op[1])
            elif op[0] == "addp":
                self.ep.add_prefix_listener(op[1], op[2])
            elif op[0] == "rm":
                self.ep.remove_listener(op[1])
            elif op[1]:
                self.ep.open()
            else:
                self.ep.close()

    # ---- listeners
    def add_overlay(self, cls, settings=None, peer=None):
        from ipv8.keyvault.crypto import default_eccrypto
        from ipv8.peer import Peer
        wan = getattr(self.ep, "wan_address", None) or self.ep.get_address()
        peer = peer or Peer(det_key(_KEYRNG), wan)
        st = cls.settings_class(my_peer=peer, endpoint=self.ep, network=self.network)
        if settings is not None:
            settings.__dict__.update(st.__dict__)
            st = settings
        o = cls(st)
        o.my_estimated_wan = wan
        o.my_estimated_lan = getattr(self.ep, "lan_address", wan)
        self.overlays.append(o)
        self.instrument_overlay(o)
        return o

    def instrument_overlay(self, o):
        lid = self.lid(o)
        pfx = bytes(o.get_prefix())
        world = self

        def gate(kind, msg, data):
            # runs inside the production try/except: anything going wrong here must not be swallowed silently
            try:
                if bytes(data[:22]) != pfx or bytes(world.current[:22]) != pfx:
                    fail(world.ctx, f"Community.{kind}-handler:foreign-prefix",
                         f"{kind} handler {msg} of {type(o).__name__} entered for a datagram whose first 22 "
                         f"bytes are {bytes(world.current[:22]).hex()} (overlay prefix {pfx.hex()})",
                         world.replay(world.current))
            except Exception as e:   # pragma: no cover
                world.harness_errors.append(repr(e))

        def wrap_pub(i, h):
            def handler(source_address, data, *a, **kw):
                world.events.append(f"p{lid}:{i}")
                gate("public", i, data)
                return h(source_address, data, *a, **kw)
            return handler

        def wrap_priv(i, h):
            def handler(source_address, data, circuit_id=None, *a, **kw):
                world.events.append(f"q{lid}:{i}:{circuit_id}:{hx(bytes(data[22:]))}")
                gate("circuit", i, data)
                return h(source_address, data, circuit_id, *a, **kw)
            return handler
        for i, h in enumerate(o.decode_map):
            if h is not None:
                o.decode_map[i] = wrap_pub(i, h)
        if hasattr(o, "decode_map_private"):
            for i, h in list(o.decode_map_private.items()):
                o.decode_map_private[i] = wrap_priv(i, h)
        self.wrap_on_packet(o)
        pub = [i for i, h in enumerate(o.decode_map) if h is not None]
        priv = sorted(getattr(o, "decode_map_private", {}).keys())
        self.emit(f"ov {lid} {hx(pfx)} [{','.join(map(str, pub))}] [{','.join(map(str, priv))}] "
                  f"{1 if hasattr(o, 'decode_map_private') else 0}")
        ce = getattr(o, "crypto_endpoint", None)
        if ce is not None and hasattr(ce, "process_cell"):
            self.cryptos[self.lid(ce)] = ce
            self.wrap_on_packet(ce)
            self.sync_crypto()

    def wrap_on_packet(self, listener):
        lid = self.lid(listener)
        real = listener.on_packet   # bound method of the class: the production implementation

        def on_packet(packet, *a, **kw):
            self.events.append(f"c{lid}")
            self.last_called = lid
            r = real(packet, *a, **kw)
            self.run_script(lid)          # the listener calls back into its endpoint before it returns
            return r
        listener.on_packet = on_packet

    def add_inert(self, global_: bool = True, prefix: bytes | None = None):
        from ipv8.messaging.interfaces.endpoint import EndpointListener
        world = self

        class Inert(EndpointListener):
            def on_packet(self, packet):
                world.events.append(f"c{world.lid(self)}")
                world.run_script(world.lid(self))
        li = Inert(self.ep)
        self.emit(f"inert {self.lid(li)}")
        if not global_ and prefix is None:
            return li
        if prefix is not None:
            self.ep.add_prefix_listener(li, prefix)
        else:
            self.ep.add_listener(li)
        return li

    def add_stats(self, prefixes):
        """the shipped StatisticsEndpoint: registers itself as a global listener of the endpoint it decorates"""
        from ipv8.messaging.interfaces.statistics_endpoint import StatisticsEndpoint
        se = StatisticsEndpoint(self.ep)          # -> endpoint.add_listener(se), mirrored by the registry wrapper
        self.stats[self.lid(se)] = se
        self.wrap_on_packet(se)
        for p in prefixes:
            se.enable_community_statistics(p, True)
        self.sync_stats()
        return se

    def sync_stats(self):
        for lid, se in self.stats.items():
            ps = [bytes(k) for k in se.statistics]
            self.emit(f"st {lid} {','.join(hx(p) for p in ps) if ps else '-'}")

    def sync_crypto(self):
        for lid, ce in self.cryptos.items():
            tc = ce.tunnel_community
            st = (hx(bytes(ce.prefix)), self.lid(tc) if tc is not None else "none", sorted(ce.relays), sorted(ce.circuits),
                  sorted(ce.exit_sockets), ce.max_relay_early, sorted(c for c, ci in ce.circuits.items() if not ci.hops))
            if self.crypto_state.get(lid) != st:
                self.crypto_state[lid] = st
                ls = lambda x: "[" + ",".join(map(str, x)) + "]"   # noqa: E731
                self.emit(f"cr {lid} {st[0]} {st[1]} {ls(st[2])} {ls(st[3])} {ls(st[4])} {st[5]} {ls(st[6])}")

    # ---- decryption oracle (real keys)
    def dec_oracle(self, data: bytes) -> str:
        from ipv8.messaging.anonymization.tunnel import BACKWARD, FORWARD
        for ce in self.cryptos.values():
            if not data.startswith(bytes(ce.prefix)) or len(data) < 29 or data[22] != 0:
                continue
            cid, pt, _ = struct.unpack_from("!I??", data, 23)
            if pt or cid in ce.relays:
                return "na"
            ex, ci = ce.exit_sockets.get(cid), ce.circuits.get(cid)
            if ex is None and ci is None:
                return "na"
            if ex is None and not ci.hops:
                return "na"          # "no hops yet": dropped by incoming_crypto before any decryption
            hops, direction = ([ex.hop], FORWARD) if ex is not None else (list(ci.hops), BACKWARD)
            if ci is not None and ex is None and ci.hs_session_keys:
                return "na"
            msg = data[29:]
            for h in hops:
                if h.keys is None:
                    return "fail"
                try:
                    msg = h.keys.decrypt_str(msg, direction)
                except ValueError:
                    return "fail"
                except Exception:
                    return "raise"
            return "ok:" + hx(msg)
        return "na"

    # ---- one datagram
    def replay(self, data: bytes) -> dict:
        r = {"kind": "receive", "world": self.name, "datagram": bytes(data).hex(), "model_lines": len(self.lines)}
        if self.scripts or self.model_net or self.name == "history":
            # history-dependent worlds: the operation history (registry calls, listener behaviours `fx`, Network calls
            # `net`, earlier datagrams) in line-protocol form, newest last
            r["history"] = [ln[:400] for ln in self.lines[-250:]]
        return r

    def expected_recipients(self, data: bytes):
        """the harness' own reading of the property: listeners registered for this prefix, or the global ones"""
        p = bytes(data[:22])
        pref = [l for l, q in self.registered if q == p]
        glob = [l for l, q in self.registered if q is None]
        anyp = any(q == p for _, q in self.registered)
        return (pref + glob) if anyp else glob

    def notify(self, data: bytes, label: str, via=None, src=SRC_ADDR, src_obj=None, dgram=None):
        """src_obj: the source exactly as handed to the listeners (namedtuple kinds, plain tuple); dgram=(v6, addr tuple):
        deliver through the endpoint's datagram_received instead of notify_listeners"""
        from ipv8.messaging.interfaces.udp.endpoint import UDPv4Address
        ctx = self.ctx
        must = None
        if label.endswith("+acc") or label.endswith("+rej"):
            label, must = label[:-4], label[-3:]
        del ACCEPTED[:]
        if src_obj is None:
            src_obj = UDPv4Address(*src)
        else:
            src = (str(src_obj[0]), src_obj[1])
            ctx.count(f"recv:source-kind:{type(src_obj).__name__}")
        if dgram is not None:
            src = (str(dgram[1][0]), dgram[1][1])
        self.sync_crypto()
        dec = self.dec_oracle(data)
        self.events = []
        self.tx = []
        self.lookup_results = []
        self.current = data
        exn = "none"
        expected = self.expected_recipients(data) if self.ep.is_open() else []
        # listeners that some script removes, and scripts that close the endpoint, legitimately change who is called

        try:
            if ctx.counts.get("oracle-failure:Endpoint.notify_listeners:hang", 0) >= 2:
                return
            self.in_dispatch = True
            with watchdog(10):
                if dgram is not None:
                    self.ep.datagram_received(data, dgram[1])
                elif via is None:
                    self.ep.notify_listeners((src_obj, data))
                else:
                    via(data)
        except Hang:
            fail(ctx, "Endpoint.notify_listeners:hang", "delivery did not return within 10 s", self.replay(data))
            exn = "hang"
        except Exception as e:
            exn = type(e).__name__
            fail(ctx, f"{site_of(e)}:{type(e).__name__}",
                            f"{type(e).__name__} ({str(e)[:120]}) escaped from "
                            f"{'datagram_received' if dgram is not None else 'notify_listeners'} for a {len(data)}-byte "
                            f"datagram [{label}] in world {self.name}", self.replay(data))
        finally:
            self.in_dispatch = False
        if self.harness_errors:
            raise InfraError("harness instrumentation failed: " + self.harness_errors[0])
        called = {int(e[1:]) for e in self.events if e.startswith("c")}
        # only the behaviours of listeners that actually ran can legitimately change who is called
        ran = [ops for lid, ops in self.scripts.items() if lid in called]
        removed = {self.lid(op[1]) for ops in ran for op in ops if op[0] == "rm"}
        closes = any(op[0] == "open" and not op[1] for ops in ran for op in ops)
        if dgram is not None and not getattr(self.ep, "_running", True):
            expected = []
        if exn == "none" and not closes:
            for l in expected:
                if l not in called and l not in removed:
                    fail(ctx, "Endpoint.notify_listeners:listener-skipped",
                                    f"listener {type(self.objs[l]).__name__} registered for this datagram was not called "
                                    f"[{label}] in world {self.name}", self.replay(data))
        # a cell that ends inside its header (format written by CellPayload.to_bin: circuit id + two flag bytes) is a
        # truncated message: the node must neither enter a handler nor emit anything because of it
        for ce in self.cryptos.values():
            if data.startswith(bytes(ce.prefix)) and data[22:23] == b"\x00" and len(data) < cell_header_end():
                ctx.count("recv:truncated-cell-header")
                if self.tx or any(e[0] == "q" for e in self.events):      # (`p…:0` is on_cell's own, failing, decode attempt)
                    fail(ctx, "CellPayload.from_bin:truncated-cell-acted-upon",
                         f"a {len(data)}-byte cell (header needs {cell_header_end()} bytes) made the node "
                         f"{'send ' + str(len(self.tx)) + ' packet(s) of ' + str(self.tx[:3]) + ' bytes' if self.tx else 'enter a circuit handler'}"
                         f" in world {self.name}", self.replay(data))
        # message level (lazy_community wrappers): a truncated / extended / badly signed message is never handed to its
        # handler, a well-formed one is
        if must is not None and exn == "none":
            ctx.count(f"recv:message-level:{must}:{'accepted' if ACCEPTED else 'rejected'}")
            if must == "rej" and ACCEPTED:
                fail(ctx, "lazy_community:malformed-message-accepted",
                     f"handler {ACCEPTED[0][1]} was called for a [{label}] datagram of {len(data)} bytes in world {self.name}: "
                     f"a truncated, extended or badly signed message was accepted", self.replay(data))
            if must == "acc" and not ACCEPTED and any(e[0] == "p" for e in self.events):
                ctx.count("recv:message-level:well-formed-message-not-accepted")
        ctx.count(f"recv:gen:{label}")
        ctx.count(f"recv:len:{'0-21' if len(data) < 22 else '22' if len(data) == 22 else '23-29' if len(data) < 30 else '30-199' if len(data) < 200 else '200+'}")
        ctx.count(f"recv:handlers_entered:{min(sum(1 for e in self.events if e[0] in 'pq'), 3)}")
        ctx.count(f"recv:dec:{dec.split(':')[0]}")
        ctx.case((self.name, len(self.lines), data, src), label not in ("random",))
        if any(self.scripts.values()):
            ctx.count(f"recv:reentrant-dispatch:recipients:{min(len(expected), 4)}")
        if len(ctx.samples) < 6 and label in ("signed-valid", "cell-plain-payload", "reentrant", "sender-history", "udp6"):
            ctx.sample({"world": self.name, "generator": label, "source": list(src), "datagram": data.hex()[:160],
                        "implementation": " ".join(self.events)[:200]})
        if self.model_net:
            # which of several verified peers sharing the address the (set-ordered) scan found is not modelled: told to the model
            self.emit(f"net hints [{','.join(map(str, self.lookup_results))}]")
        if dgram is not None:
            self.lines.append(f"dgram {1 if getattr(self.ep, '_running', True) else 0} {1 if dgram[0] else 0} {len(dgram[1])} "
                              f"{hx(self.addr_bytes(src))} {hx(data)} {dec}")
        else:
            self.lines.append(f"notify {hx(self.addr_bytes(src))} {hx(data)} {dec}")
        self.expect.append((" ".join(self.events) + " exn=none", exn, dict(self.replay(data), src=list(src)), label))

    def compare(self, use_model: bool):
        if not use_model:
            return
        replies = self.ctx.driver().batch(self.lines)
        for ln, model, exp in zip(self.lines, replies, self.expect):
            if exp is None:
                if model not in ("ok",):
                    self.ctx.disagree(f"world {self.name}: model answered `{model}` to `{ln[:120]}`", {"line": ln})
                continue
            impl, exn, replay, label = exp
            if " | " in model:
                model, tags = model.split(" | ", 1)
                for t in set(tags.split(",")):
                    if t:
                        self.ctx.count("model-branch:" + t)
            if exn != "none":
                continue     # already an oracle failure
            if not self.model_net:
                model = " ".join(t for t in model.split(" ") if not t.startswith("s"))
            if model.strip() != impl.strip():
                self.ctx.disagree(f"world {self.name} [{label}]: model `{model[:200]}` != implementation `{impl[:200]}` "
                                  f"on a {len(replay['datagram']) // 2}-byte datagram", dict(replay, line=ln[:3200]))

    async def close(self):
        for o in self.overlays:
            try:
                await o.unload()
            except Exception:
                pass
        try:
            self.ep.close()
        except Exception:
            pass


def make_probe_community():
    """a harness-owned overlay whose handlers raise many kinds of exceptions, synchronously and from coroutines"""
    from ipv8.community import Community, CommunitySettings
    from ipv8.lazy_community import lazy_wrapper_unsigned
    from ipv8.messaging.payload_headers import GlobalTimeDistributionPayload

    class Boom(Exception):
        pass

    class ProbeCommunity(Community):
        community_id = bytes(range(100, 120))
        settings_class = CommunitySettings

        def __init__(self, settings):
            super().__init__(settings)
            kinds = [RuntimeError, KeyError, ValueError, TypeError, AttributeError, IndexError, AssertionError, OSError,
                     UnicodeDecodeError, struct.error, Boom, ZeroDivisionError, LookupError, StopIteration, MemoryError]
            for i, k in enumerate(kinds):
                self.add_message_handler(1 + i, self.raiser(k))
            for i, k in enumerate(kinds[:6]):
                self.add_message_handler(40 + i, self.coro_raiser(k))
            self.add_message_handler(60, self.on_gt)
            self.add_message_handler(61, self.ok_handler)

        def raiser(self, k):
            def h(source_address, data):
                if k is UnicodeDecodeError:
                    raise UnicodeDecodeError("utf-8", b"\xff", 0, 1, "x")
                raise k("boom")
            return h

        def coro_raiser(self, k):
            async def h(source_address, data):
                await asyncio.sleep(0)
                raise k("late boom")
            return h

        @lazy_wrapper_unsigned(GlobalTimeDistributionPayload)
        def on_gt(self, source_address, dist):
            pass

        def ok_handler(self, source_address, data):
            pass
    return ProbeCommunity


def handler_payloads(h):
    """payload classes a lazy_wrapper-style handler decodes (from its closure), or None"""
    f = getattr(h, "__func__", h)
    seen = 0
    while f is not None and seen < 4:
        for c in (f.__closure__ or ()):
            try:
                v = c.cell_contents
            except ValueError:
                continue
            if isinstance(v, tuple) and v and all(isinstance(x, type) for x in v):
                return list(v)
        f = getattr(f, "__wrapped__", None) if hasattr(f, "__wrapped__") else None
        seen += 1
    return None


ACCEPTED: list = []      # (overlay object id, inner handler name): the lazy wrapper decoded, verified and called the handler


def watch_acceptance(h) -> bool:
    """make the lazy_community wrapper behind a decode_map entry report when it ACCEPTS a message, i.e. calls the wrapped
    handler: the wrapper's closure cell `func` is replaced by a recording shim (once per wrapper; wrappers are shared by all
    instances of a class)"""
    f = getattr(h, "__func__", h)
    code = getattr(f, "__code__", None)
    if code is None or "lazy_community" not in code.co_filename or "func" not in code.co_freevars:
        return False
    cell = f.__closure__[code.co_freevars.index("func")]
    inner = cell.cell_contents
    if getattr(inner, "_c03_shim", False):
        return True

    def shim(self, *a, **kw):
        ACCEPTED.append((id(self), getattr(inner, "__name__", "?")))
        return inner(self, *a, **kw)
    shim._c03_shim = True
    shim.__name__ = getattr(inner, "__name__", "shim")
    shim.__wrapped__ = inner
    cell.cell_contents = shim
    return True


def handler_kind(h) -> str:
    f = getattr(h, "__func__", h)
    code = getattr(f, "__code__", None)
    if code is None or "lazy_community" not in code.co_filename:
        return "raw"
    names = code.co_names
    if "_verify_signature" in names:
        return "signed"
    return "unsigned"


def build_body(rng, payloads, descs_by_cls):
    out = b""
    for p in payloads:
        d = descs_by_cls.get(p)
        if d is None:
            return None
        out += gen_class_bytes(rng, d, 0)[0]
    return out


def gen_datagrams(ctx: Ctx, world: World, quick: bool, orig_handlers: dict, cls_descs: dict):
    """yield (label, datagram) for one world"""
    from ipv8.keyvault.crypto import default_eccrypto
    rng = ctx.rng
    key = key_pool()[0]
    keybin = key.pub().key_to_bin()
    overlays = world.overlays
    prefixes = [bytes(o.get_prefix()) for o in overlays]
    other = bytes(range(22))
    for o, P in zip(overlays, prefixes):
        pub = [i for i, h in enumerate(o.decode_map) if h is not None]
        priv = sorted(getattr(o, "decode_map_private", {}).keys())
        for k in range(23):
            yield "prefix-trunc", P[:k]
        for m in range(256):
            yield "msgid-only", P + bytes([m])
        for m in (pub if not quick else rng.sample(pub, min(len(pub), 12))):
            for n in (1, 2, 3):
                yield "short-tail", P + bytes([m]) + rbytes(rng, n)
        # structured bodies for every public handler
        for m in pub:
            h = orig_handlers[(id(o), m)]
            kind = handler_kind(h)
            pls = handler_payloads(h)
            body = build_body(rng, pls, cls_descs) if pls else None
            if body is None:
                body = rbytes(rng, rng.choice([0, 4, 30]))
            if kind == "signed":
                auth = len(keybin).to_bytes(2, "big") + keybin
                unsigned = P + bytes([m]) + auth + body
                good = unsigned + default_eccrypto.create_signature(key, unsigned)
                watched = watch_acceptance(h)
                acc = "+acc" if watched and pls else ""            # "+acc": the handler must be called
                rej = "+rej" if watched else ""                    # "+rej": the handler must NOT be called
                yield "signed-valid" + acc, good
                yield "signed-badsig" + rej, unsigned + rbytes(rng, 64)
                yield "signed-garbage-key" + rej, P + bytes([m]) + b"\x00\x0a" + rbytes(rng, 10) + body + rbytes(rng, 64)
                yield "signed-short-key" + rej, P + bytes([m]) + b"\x00\x4a" + rbytes(rng, 5)
                for k in (range(22, len(good)) if not quick else sorted(set(rng.sample(range(22, len(good)), 10)))):
                    yield "valid-prefixes" + rej, good[:k]       # any cut of a signed message loses (part of) the signature
                yield "signed-inflated" + rej, P + bytes([m]) + b"\xff\xff" + keybin + body
            else:
                good = P + bytes([m]) + body
                watched = watch_acceptance(h) and bool(pls) and kind == "unsigned"
                # without a top-level `raw` ("rest of the message") every cut and every extension must be rejected
                strict = watched and all(d[0] != "raw" for p_ in pls for d in cls_descs.get(p_, [("raw",)]))
                yield "unsigned-valid" + ("+acc" if watched else ""), good
                for k in (range(22, len(good)) if not quick else sorted(set(rng.sample(range(22, len(good)), min(8, len(good) - 22))))):
                    yield "valid-prefixes" + ("+rej" if strict else ""), good[:k]
                yield "unsigned-tail" + ("+rej" if strict else ""), good + rbytes(rng, 3)
        # cells
        if priv:
            ce = o.crypto_endpoint
            cids = sorted(ce.circuits) + sorted(ce.exit_sockets) + sorted(ce.relays)
            flagset = [0, 1, 2, 255] if not quick else [0, 1, 255]
            for n in range(1, 7):
                yield "cell-short-header", P + b"\x00" + rbytes(rng, n - 1)
            for cid in cids + [0, 0xFFFFFFFF, rng.getrandbits(32)]:
                for pt in flagset:
                    for re_ in flagset[:2] + [255]:
                        hdr = P + b"\x00" + struct.pack("!I", cid) + bytes([pt, re_])
                        yield "cell-empty-message", hdr
                        for m0 in sorted(set(priv + [0, 4, 8, 21, 255])) if not quick else rng.sample(priv + [0, 4, 255], 4):
                            yield "cell-1byte", hdr + bytes([m0])
                            yield "cell-junk", hdr + bytes([m0]) + rbytes(rng, rng.choice([1, 4, 40]))
            # plaintext create/created with decodable payloads, and encrypted cells under the real keys
            from ipv8.messaging.anonymization.tunnel import BACKWARD, FORWARD
            for m0 in priv:
                h = orig_handlers[(id(o), "priv", m0)]
                pls = handler_payloads(h)
                body = (build_body(rng, pls, cls_descs) if pls else None) or rbytes(rng, 12)
                # a cell message is: msg id byte + payload (the circuit id field is re-injected by unwrap)
                body = body[4:] if len(body) >= 4 else body
                for cid in (cids[:4] + [rng.getrandbits(32)]):
                    for pt in (0, 1):
                        hdr = P + b"\x00" + struct.pack("!I", cid) + bytes([pt, 1])
                        msg = bytes([m0]) + body
                        if pt == 0:
                            ex, ci = ce.exit_sockets.get(cid), ce.circuits.get(cid)
                            try:
                                if ex is not None:
                                    msg = ex.hop.keys.encrypt_str(msg, FORWARD)
                                elif ci is not None and ci.hops:
                                    for h in reversed(ci.hops):        # the originator peels hop 0 first
                                        msg = h.keys.encrypt_str(msg, BACKWARD)
                            except Exception:
                                pass
                        yield ("cell-plain-payload" if pt else "cell-encrypted-payload"), hdr + msg
                        if pt == 0 and len(msg) > 8:
                            yield "cell-encrypted-tampered", hdr + msg[:-1] + bytes([msg[-1] ^ 1])
                            yield "cell-encrypted-short", hdr + msg[:rng.randrange(1, 9)]
            for cid in cids:
                ex = ce.exit_sockets.get(cid)
                if ex is not None:
                    yield "cell-encrypted-empty", P + b"\x00" + struct.pack("!I", cid) + b"\x00\x01" + \
                        ex.hop.keys.encrypt_str(b"", FORWARD)
        # prefix bit flips of a deliverable datagram
        base = P + bytes([pub[0] if pub else 1]) + rbytes(rng, 8)
        bits = range(176) if not quick else rng.sample(range(176), 24)
        for b in bits:
            yield "prefix-bitflip", bytes([base[i] ^ (1 << (b % 8)) if i == b // 8 else base[i] for i in range(len(base))])
        for _ in range(20 if quick else 120):
            n = rng.choice([23, 24, 30, 64, 200, 1400, 1500])
            m = rng.choice(pub + priv) if rng.random() < 0.8 and (pub or priv) else rng.randrange(256)
            yield "random-on-prefix", P + bytes([m]) + rbytes(rng, n - 23)
    for _ in range(30 if quick else 300):
        yield "random", rbytes(rng, rng.choice([0, 1, 5, 21, 22, 23, 40, 400, 1500]))
    yield "foreign-prefix", other + b"\x01" + rbytes(rng, 10)


def install_circuits(world: World, o, rng):
    """give a tunnel overlay one originator circuit, one exit socket and one relay pair with real session keys"""
    from ipv8.messaging.anonymization.exit_socket import TunnelExitSocket
    from ipv8.messaging.anonymization.tunnel import FORWARD, Circuit, Hop, RelayRoute
    from ipv8.peer import Peer
    from ipv8_rust_tunnels import generate_session_keys
    from ipv8.test.mocking.endpoint import MockEndpoint, internet
    if ("5.6.7.8", 9) not in internet:      # somewhere for relayed cells to go (production send never raises)
        MockEndpoint(("5.6.7.8", 9), ("5.6.7.8", 9)).open()
    peer = Peer(key_pool()[1].pub(), ("5.6.7.8", 9))
    c = Circuit(1001, 1)
    c.add_hop(Hop(peer, generate_session_keys(b"c" * 64)))
    o.circuits[1001] = c
    o.circuits[1005] = Circuit(1005, 1)                 # CREATE sent, CREATED pending: no hops yet
    c2 = Circuit(1006, 2)
    c2.add_hop(Hop(peer, generate_session_keys(b"h" * 64)))
    c2.add_hop(Hop(peer, generate_session_keys(b"i" * 64)))
    o.circuits[1006] = c2
    o.exit_sockets[2002] = TunnelExitSocket(2002, Hop(peer, generate_session_keys(b"e" * 64)), o)
    o.relay_from_to[3003] = RelayRoute(3004, Hop(peer, generate_session_keys(b"r" * 64)), FORWARD)
    o.relay_from_to[3004] = RelayRoute(3003, Hop(peer, generate_session_keys(b"r" * 64)), 1 - FORWARD if FORWARD in (0, 1) else FORWARD)
    world.sync_crypto()


async def run_receive(ctx: Ctx, use_model: bool, quick: bool):
    from ipv8.test.mocking.endpoint import AutoMockEndpoint
    AutoMockEndpoint.SEND_INET_EXCEPTION_TO_LOOP = False
    rng = ctx.rng
    loop = asyncio.get_running_loop()
    loop_errors: list = []
    loop.set_exception_handler(lambda lp, c: loop_errors.append(c))
    from ipv8.test.mocking.endpoint import MockEndpoint, internet
    if SRC_ADDR not in internet:       # replies to the sender of the generated datagrams have somewhere to go
        MockEndpoint(SRC_ADDR, SRC_ADDR).open()
    specs = gen_c03.overlay_specs()
    Probe = make_probe_community()
    classes = dict(gen_c03.payload_classes())
    descs = dict(tables()["payloads"] or [])
    cls_descs = {cls: descs[name] for name, cls in classes.items() if name in descs}
    all_specs = [(n, c, mk) for n, c, mk in specs] + [("ProbeCommunity", Probe, None)]
    worlds = []

    def snapshot_handlers(w):
        oh = {}
        for o in w.overlays:
            pass
        return oh

    orig_handlers: dict = {}

    def add(world, cls, mk):
        # remember the unwrapped handlers for introspection (payload classes, signed/unsigned)
        o = None
        real_instr = world.instrument_overlay

        def instr(ov):
            for i, h in enumerate(ov.decode_map):
                if h is not None:
                    orig_handlers[(id(ov), i)] = h
            for i, h in getattr(ov, "decode_map_private", {}).items():
                orig_handlers[(id(ov), "priv", i)] = h
            real_instr(ov)
        world.instrument_overlay = instr
        try:
            o = world.add_overlay(cls, mk() if mk else None)
        finally:
            world.instrument_overlay = real_instr
        return o

    # 1. every overlay class alone, prefix-registered (as the constructor does)
    for name, cls, mk in all_specs:
        w = World(ctx, f"single:{name}")
        o = add(w, cls, mk)
        if hasattr(o, "decode_map_private"):
            install_circuits(w, o, rng)
        worlds.append(w)
    # 2. multiplexed: several overlays on one endpoint, plus inert listeners, some overlays also global
    w = World(ctx, "multiplexed")
    chosen = [s for s in all_specs if s[0] in ("DiscoveryCommunity", "DHTCommunity", "TunnelCommunity", "ProbeCommunity",
                                               "AttestationCommunity")]
    for name, cls, mk in chosen:
        o = add(w, cls, mk)
        if hasattr(o, "decode_map_private"):
            install_circuits(w, o, rng)
    w.add_inert()
    w.add_stats([bytes(o.get_prefix()) for o in w.overlays[:3]])       # before some, after other listeners in the list
    w.add_inert(prefix=bytes(w.overlays[0].get_prefix()))
    w.add_inert()
    worlds.append(w)
    # 3. global registration: overlays listen to everything, only their own prefix check protects them
    w = World(ctx, "global")
    for name, cls, mk in [s for s in all_specs if s[0] in ("DHTDiscoveryCommunity", "ProbeCommunity", "IdentityCommunity",
                                                          "HiddenTunnelCommunity")]:
        o = add(w, cls, mk)
        w.ep.remove_listener(o)
        w.ep.add_listener(o)
        if hasattr(o, "decode_map_private"):
            install_circuits(w, o, rng)
            w.ep.remove_listener(o.crypto_endpoint)
            w.ep.add_listener(o.crypto_endpoint)
    w.add_stats([bytes(o.get_prefix()) for o in w.overlays])
    w.add_inert()
    worlds.append(w)

    sources = _sources()

    def churn(w):
        """unmodelled Network churn (oracle only): peers that handlers verified are removed again, so the next datagram
        from their address meets whatever is left in the Network's caches"""
        for peer in sorted(w.network.verified_peers, key=lambda q: q.mid)[:3]:
            how = rng.choice(["remove_peer", "remove_by_address", "keep"])
            ctx.count(f"recv:churn:{how}")
            if how == "remove_peer":
                w.network.remove_peer(peer)
            elif how == "remove_by_address":
                w.network.remove_by_address(peer.address)

    for wi, w in enumerate(worlds):
        n = 0
        w.network.reverse_ip_cache_size = [500, 0, 1][wi % 3]          # configuration sweep (oracle only in these worlds)
        ctx.count(f"recv:config:reverse_ip_cache_size:{w.network.reverse_ip_cache_size}")
        for label, data in gen_datagrams(ctx, w, quick, orig_handlers, cls_descs):
            w.notify(data, label, src_obj=rng.choice(sources)() if n % 3 else None)
            n += 1
            if n % 25 == 0:
                churn(w)
            if n % 200 == 0:
                await asyncio.sleep(0)
                await asyncio.sleep(0)
        await asyncio.sleep(0)
        await asyncio.sleep(0)

    # 4. registry histories: random add / remove / close / open between datagrams
    w = World(ctx, "history")
    objs = []
    for name, cls, mk in [s for s in all_specs if s[0] in ("DiscoveryCommunity", "ProbeCommunity", "TunnelCommunity")]:
        objs.append(add(w, cls, mk))
    inert = [w.add_inert(), w.add_inert(prefix=bytes(objs[0].get_prefix())),
             w.add_stats([bytes(o.get_prefix()) for o in objs[:2]])]
    pool = objs + inert + [o.crypto_endpoint for o in objs if hasattr(o, "crypto_endpoint")]
    for step in range(200 if quick else 1500):
        op = rng.choice(["add", "addp", "rm", "rm", "close", "open", "open", "stats"])
        x = rng.choice(pool)
        ctx.count(f"recv:registry-op:{op}")
        if op == "add":
            w.ep.add_listener(x)
        elif op == "addp":
            p = bytes(x.get_prefix()) if hasattr(x, "get_prefix") else bytes(getattr(x, "prefix", bytes(rng.choice(objs).get_prefix())))
            w.ep.add_prefix_listener(x, p)
        elif op == "rm":
            w.ep.remove_listener(x)
        elif op == "stats":
            se = inert[2]
            se.enable_community_statistics(bytes(rng.choice(objs).get_prefix()), rng.random() < 0.6)
            w.sync_stats()
        elif op == "close":
            w.ep.close()
            w.emit("open 0")
        else:
            w.ep.open()
            w.emit("open 1")
        for _ in range(6):
            o = rng.choice(objs)
            P = bytes(o.get_prefix())
            pub = [i for i, h in enumerate(o.decode_map) if h is not None]
            choice = rng.random()
            if choice < 0.5:
                d = P + bytes([rng.choice(pub)]) + rbytes(rng, rng.choice([0, 1, 8, 30]))
            elif choice < 0.7:
                d = P
            elif choice < 0.85:
                d = P[:21] + bytes([P[21] ^ 1]) + b"\x01abc"
            else:
                d = rbytes(rng, rng.choice([0, 10, 22, 30]))
            w.notify(d, "history")
    w.ep.open()
    worlds.append(w)

    # 5. re-entrancy: listeners that call back into the endpoint's registry while a datagram is being dispatched
    #    (one-shot listeners, overlays that detach on a message, listeners that register helpers, close on demand)
    w = World(ctx, "reentrant")
    by_name = {n: (c, mk) for n, c, mk in all_specs}
    pc = add(w, *by_name["ProbeCommunity"])
    dc = add(w, *by_name["DiscoveryCommunity"])
    tc = add(w, *by_name["TunnelCommunity"])
    PP, DP = bytes(pc.get_prefix()), bytes(dc.get_prefix())
    glob = [w.add_inert(), w.add_inert(), w.add_inert()]
    pinert = [w.add_inert(prefix=PP), w.add_inert(prefix=DP)]
    spares = [w.add_inert(global_=False) for _ in range(3)]        # never get a script: keeps every dispatch finite
    actors = glob + pinert + [pc, dc, tc.crypto_endpoint, w.add_stats([PP, DP])]
    everyone = actors + spares
    for step in range(120 if quick else 1500):
        # a fresh small registration (ordinary, non re-entrant calls) so that the listener lists stay short
        w.ep.open()
        w.emit("open 1")
        for x in everyone:
            w.ep.remove_listener(x)
        for x in actors:
            how = rng.random()
            if how < 0.45:
                w.ep.add_listener(x)
            elif how < 0.85:
                w.ep.add_prefix_listener(x, rng.choice([PP, DP, bytes(tc.get_prefix())]))
        for x in actors:
            if w.scripts.get(w.lid(x)):
                w.set_script(x, [])
        # a new behaviour for one to three listeners
        for _ in range(rng.choice([1, 2, 3])):
            x = rng.choice(actors)
            ops = []
            for _ in range(rng.choice([0, 1, 1, 2, 3])):
                k = rng.choice(["rm-self", "rm-self", "rm-other", "rm-other", "add", "addp", "close", "open"])
                if k == "rm-self":
                    ops.append(("rm", x))
                elif k == "rm-other":
                    ops.append(("rm", rng.choice(everyone)))
                elif k == "add":
                    ops.append(("add", rng.choice(spares)))
                elif k == "addp":
                    ops.append(("addp", rng.choice(spares), rng.choice([PP, DP, bytes(range(22))])))
                elif k == "close" and rng.random() < 0.6:
                    ops.append(("open", False))
                elif k == "open":
                    ops.append(("open", True))
            w.set_script(x, ops)
        for _ in range(4):
            which = rng.random()
            if which < 0.35:
                d = PP + bytes([rng.choice([1, 2, 40, 60, 61, 200])]) + rbytes(rng, rng.choice([0, 2, 9]))
            elif which < 0.6:
                d = DP + bytes([rng.choice([1, 3, 246, 7])]) + rbytes(rng, rng.choice([0, 5]))
            elif which < 0.75:
                d = bytes(tc.get_prefix()) + bytes([rng.choice([0, 8, 1])]) + rbytes(rng, rng.choice([0, 6, 12]))
            else:
                d = rbytes(rng, rng.choice([3, 22, 40]))
            w.notify(d, "reentrant")
    for x in actors:
        w.set_script(x, [])
    worlds.append(w)

    # 6. sender history: verified peers come, talk, change address, are removed (by object or by address), come back;
    #    datagrams arrive from their current, former and unknown addresses; every Network call is mirrored into the model
    w = World(ctx, "sender-history", model_net=True)
    pc = add(w, *by_name["ProbeCommunity"])
    dc = add(w, *by_name["DiscoveryCommunity"])      # (DHTCommunity keeps a private Network of its own)
    w.add_inert()
    PP, DP = bytes(pc.get_prefix()), bytes(dc.get_prefix())
    addrs = [("10.0.0.%d" % i, 1000 + i) for i in range(1, 10)]
    cache_sizes = [3, 0, 1, 2, 500]                  # configuration class: cache switched off / minimal / default
    w.network.reverse_ip_cache_size = cache_sizes[0]
    w.emit(f"net cap {cache_sizes[0]}")
    holders = lambda a: [q for q in w.network.verified_peers if tuple(a) in [tuple(v) for v in q.addresses.values()]]  # noqa: E731
    n_steps = 500 if quick else 3000
    for step in range(n_steps):
        size = cache_sizes[step * len(cache_sizes) // n_steps]
        if w.network.reverse_ip_cache_size != size:
            w.network.reverse_ip_cache_size = size
            w.emit(f"net cap {size}")
        ctx.count(f"recv:config:reverse_ip_cache_size:{size}")
        for _ in range(rng.choice([1, 1, 2, 3])):
            op = rng.choice(["new", "new", "addv", "rmp", "rmp", "rma", "seta", "addv"])
            if op == "new" and len(w.peers) < 400:
                a = rng.choice(addrs)
                if not holders(a) or rng.random() < 0.6:       # several verified peers may share an address (NAT, new key)
                    oid = w.new_peer(rng.randrange(4), a)
                    w.net_op("addv", oid)
            elif op in ("addv", "rmp", "seta") and w.peers:
                oid = rng.choice(list(w.peers))
                p = w.peers[oid]
                if op == "rmp":
                    w.net_op("rmp", oid)
                elif op == "seta":
                    a = rng.choice(addrs)
                    if (not [q for q in holders(a) if q is not p] or rng.random() < 0.4) and not p.address_frozen:
                        w.net_op("seta", oid, a)
                else:
                    known = w.network.verified_by_public_key_bin.get(p.public_key.key_to_bin())
                    target = known if known is not None else p
                    if not [q for q in holders(p.address) if q is not target] or rng.random() < 0.4:
                        w.net_op("addv", oid)
            elif op == "rma":
                w.net_op("rma", addr=rng.choice(addrs))
        for _ in range(3):
            src = rng.choice(addrs) if rng.random() < 0.85 else ("10.9.9.9", rng.randrange(1, 60000))
            which = rng.random()
            if which < 0.5:
                d = PP + bytes([rng.choice([1, 2, 40, 60, 61])]) + rbytes(rng, rng.choice([0, 8]))
            elif which < 0.7:
                d = DP + bytes([rng.choice([3, 200])]) + rbytes(rng, 4)
            elif which < 0.85:
                d = PP[:rng.randrange(23)]
            else:
                d = rbytes(rng, rng.choice([0, 22, 30]))
            w.notify(d, "sender-history", src=src)
            ctx.count("recv:sender:" + ("shared-by-%d" % min(len(holders(src)), 3) if len(holders(src)) > 1 else
                                        "known" if holders(src) else "unknown-or-former"))
    worlds.append(w)

    # 7. the real UDP transport callback
    await run_udp(ctx, rng, Probe, use_model)

    for _ in range(5):
        await asyncio.sleep(0)
    for w in worlds:
        w.compare(use_model)
    for w in worlds:
        await w.close()
    for _ in range(3):
        await asyncio.sleep(0)
    # the mock endpoint (unlike the UDP one) raises AssertionError when a reply goes to an address nobody registered:
    # an artefact of the test double, not of the receive path
    bad = [c for c in loop_errors if not isinstance(c.get("exception"), asyncio.CancelledError)
           and "unregistered address" not in str(c.get("exception"))]
    ctx.count("recv:loop-exception-handler-calls(mock send to unknown address, ignored)", len(loop_errors) - len(bad))
    ctx.count("recv:loop-exception-handler-calls", len(bad))
    # not an oracle: what reaches the loop's exception handler from a coroutine handler's task is outside the property's
    # wording (it is not the transport) and depends on garbage collection timing; kept as a measured count only
    for c in bad[:3]:
        ctx.count(f"recv:loop-exception-handler:{type(c.get('exception')).__name__}")


async def run_udp(ctx: Ctx, rng, Probe, use_model: bool):
    """datagram_received of really opened UDP endpoints (IPv4 and IPv6): the entry point the asyncio transport calls;
    the address tuples are the ones asyncio hands over (2 items for AF_INET, 4 for AF_INET6)"""
    from ipv8.messaging.anonymization.community import TunnelCommunity
    from ipv8.messaging.interfaces.udp.endpoint import UDPEndpoint, UDPv6Endpoint
    for v6, cls, ip, addrs in ((False, UDPEndpoint, "127.0.0.1", [("127.0.0.1", 4242), ("10.1.2.3", 1)]),
                               (True, UDPv6Endpoint, "::1", [("::1", 4242, 0, 0), ("fe80::1", 5, 0, 3)])):
        ep = cls(port=0, ip=ip)
        opened = False
        try:
            opened = bool(await ep.open())
        except Exception:
            opened = False
        if not opened or not ep.is_open():
            ctx.count(f"recv:udp{'6' if v6 else '4'}:socket-not-opened(_running forced)")
            ep._running = True
        w = World(ctx, "udp6" if v6 else "udp4", ep=ep)
        ovs = [w.add_overlay(Probe), w.add_overlay(TunnelCommunity)]
        w.add_stats([bytes(ovs[0].get_prefix())])
        for o in ovs:
            P = bytes(o.get_prefix())
            pub = [i for i, h in enumerate(o.decode_map) if h is not None]
            cases = [P[:k] for k in range(23)] + [P + bytes([m]) for m in range(0, 256, 3)] + \
                    [P + b"\x00" + rbytes(rng, n) for n in range(0, 9)] + \
                    [P + bytes([m]) + rbytes(rng, 20) for m in pub] + [b"", rbytes(rng, 1500)]
            for d in cases:
                w.notify(d, "udp6" if v6 else "udp4", dgram=(v6, rng.choice(addrs)))
        ep._running = False                      # a closed endpoint drops everything
        for d in (P, P + b"\x01abc"):
            w.notify(d, "udp-not-running", dgram=(v6, addrs[0]))
        ep._running = True
        w.compare(use_model)
        await w.close()


# =================================================================================================== B2. other transports
def exit_inputs(rng, prefix: bytes, quick: bool):
    """byte strings for the exit sockets: every length around each DataChecker guard x first-word / header classes"""
    words = [0, 1, 3, 4, 5, 0x417, 0xFFFFFFFF]
    for n in range(0, 41):
        yield "len-sweep", rbytes(rng, n)
        for w in (words if not quick else rng.sample(words, 3)):
            d = w.to_bytes(4, "big") + rbytes(rng, max(0, n - 4))
            yield "tracker-word@0", d[:n] if n >= 4 else d[:4]
            if n >= 8:
                d2 = rbytes(rng, 8)
                d2 = bytes([d2[0] | 0x80]) + d2[1:] + w.to_bytes(4, "big") + rbytes(rng, n)
                yield "tracker-word@8", d2[:n]
    for n in (1, 2, 19, 20, 21, 30):
        for b1 in (0x01, 0x11, 0x21, 0x41, 0x51, 0x02, 0x40):
            for b2 in (0, 3, 4):
                yield "utp-header", (bytes([b1, b2]) + rbytes(rng, 40))[:n]
    for body in (b"", b"1:a1:b", rbytes(rng, 9)):
        yield "bencoded", b"d" + body + b"e"
        yield "bencoded-open", b"d" + body
    yield "bencoded", b"de"
    yield "bencoded-open", b"d"
    for n in (21, 22, 23, 24, 60):
        for v in (1, 2, 3):
            yield "ipv8-like", (b"\x00" + bytes([v]) + rbytes(rng, 70))[:n]
        yield "own-prefix", (prefix + rbytes(rng, 70))[:n]
    for _ in range(30 if quick else 400):
        yield "random", rbytes(rng, rng.choice([0, 3, 7, 8, 9, 11, 12, 13, 19, 20, 23, 100, 1400]))


async def run_transports(ctx: Ctx, use_model: bool, quick: bool):
    """the node's other network-facing callbacks: exit sockets (TunnelProtocol -> TunnelExitSocket.datagram_received_*),
    the LAN broadcast bootstrap endpoint; and the hand-written cell header decoder on its own"""
    from ipv8.bootstrapping.udpbroadcast.bootstrapper import HDR_ANNOUNCE, BroadcastBootstrapEndpoint
    from ipv8.messaging.anonymization.community import TunnelCommunity
    from ipv8.messaging.anonymization.exit_socket import DataChecker, TunnelExitSocket, TunnelProtocol
    from ipv8.messaging.anonymization.payload import CellPayload
    from ipv8.messaging.anonymization.tunnel import PEER_FLAG_EXIT_BT, PEER_FLAG_EXIT_IPV8, PEER_FLAG_RELAY, Hop
    from ipv8.peer import Peer
    from ipv8.test.mocking.endpoint import AutoMockEndpoint, MockEndpoint, internet
    from ipv8_rust_tunnels import generate_session_keys
    AutoMockEndpoint.SEND_INET_EXCEPTION_TO_LOOP = False
    rng = ctx.rng
    for a in (SRC_ADDR, ("5.6.7.8", 9), ("10.0.0.9", 7), ("192.168.1.5", 1234)):
        if a not in internet:
            MockEndpoint(a, a).open()
    lines, expect = [], []

    # ---- exit sockets
    w = World(ctx, "exit-socket")
    tc = w.add_overlay(TunnelCommunity)
    P = bytes(tc.get_prefix())
    peer = Peer(key_pool()[1].pub(), ("5.6.7.8", 9))
    es = TunnelExitSocket(4004, Hop(peer, generate_session_keys(b"x" * 64)), tc)
    tc.exit_sockets[4004] = es
    outcome: list = []
    real_tunnel = es.tunnel_data

    def tunnel_data(source, data):
        outcome.append("tunneled")
        return real_tunnel(source, data)
    es.tunnel_data = tunnel_data
    proto4 = TunnelProtocol(es.datagram_received_ipv4, ("0.0.0.0", 0))       # what asyncio calls
    proto6 = TunnelProtocol(es.datagram_received_ipv6, ("::", 0))
    for bt, v8 in ((True, True), (True, False), (False, True), (False, False)):
        tc.settings.peer_flags = {PEER_FLAG_RELAY} | ({PEER_FLAG_EXIT_BT} if bt else set()) | ({PEER_FLAG_EXIT_IPV8} if v8 else set())
        for label, d in exit_inputs(rng, P, quick):
            route = rng.choice(["v4", "v4", "v6", "v6-mapped"])
            replay = {"kind": "exit", "data": d.hex(), "exit_bt": bt, "exit_ipv8": v8, "route": route}
            ctx.count(f"exit:gen:{label}")
            ctx.count(f"exit:len:{'0-7' if len(d) < 8 else '8-11' if len(d) < 12 else '12-19' if len(d) < 20 else '20-22' if len(d) < 23 else '23+'}")
            ctx.case(("exit", bt, v8, route, d), label != "random")
            del outcome[:]
            try:
                if route == "v4":
                    proto4.datagram_received(d, ("9.9.9.9", 123))
                elif route == "v6":
                    proto6.datagram_received(d, ("2001:db8::7", 123, 0, 0))
                else:
                    proto6.datagram_received(d, ("::ffff:9.9.9.9", 123, 0, 0))
            except Exception as e:
                fail(ctx, f"{site_of(e)}:{type(e).__name__}",
                     f"{type(e).__name__} ({str(e)[:100]}) reached the exit socket's transport callback for a {len(d)}-byte "
                     f"datagram [{label}] (exit BT={bt}, IPv8={v8}, {route})", replay)
                continue
            chk = []
            for name, fn in (("utp", DataChecker.could_be_utp), ("trk", DataChecker.could_be_udp_tracker),
                             ("dht", DataChecker.could_be_dht), ("v8", DataChecker.could_be_ipv8)):
                try:
                    chk.append(f"{name}={'true' if fn(d) else 'false'}")
                except Exception:
                    chk.append(f"{name}=exn")
            got = " ".join(chk) + " " + ("tunneled" if outcome else "dropped")
            ctx.count(f"exit:outcome:{'tunneled' if outcome else 'dropped'}")
            if route != "v6-mapped":
                lines.append(f"exit {1 if bt else 0} {1 if v8 else 0} {hx(P)} {hx(d)}")
                expect.append((got, replay))
            elif outcome:
                fail(ctx, "TunnelExitSocket.datagram_received_ipv6:mapped-ipv4-processed",
                     "a datagram from an IPv4-mapped IPv6 source was tunnelled (that socket must ignore them)", replay)
    await w.close()

    # ---- the cell header decoder by itself
    for n in list(range(0, 45)) * (1 if quick else 8):
        pkt = (P + b"\x00" + rbytes(rng, 60))[:n] if rng.random() < 0.8 else rbytes(rng, n)
        if n > 28 and rng.random() < 0.5:
            pkt = pkt[:27] + bytes([rng.choice([0, 1, 2, 255]), rng.choice([0, 1, 2, 255])]) + pkt[29:]
        replay = {"kind": "cell_header", "packet": pkt.hex()}
        ctx.count(f"cellhdr:len:{'<23' if n < 23 else '23-28' if n < 29 else '29+'}")
        ctx.case(("cellhdr", pkt), True)
        try:
            c = CellPayload.from_bin(pkt)
            got = f"ok {c.circuit_id} {'true' if c.plaintext else 'false'} {'true' if c.relay_early else 'false'} {hx(bytes(c.message))}"
            # the property on the implementation: accepted => the whole header written by to_bin is present
            if len(pkt) < cell_header_end():
                fail(ctx, "CellPayload.from_bin:truncated-header-accepted",
                     f"a {len(pkt)}-byte packet was decoded to a cell (circuit {c.circuit_id}, {len(c.message)}-byte message) although "
                     f"the cell header ends at byte {cell_header_end()}", replay)
            elif bytes(c.message) != pkt[cell_header_end():] or c.circuit_id != int.from_bytes(pkt[23:27], "big"):
                fail(ctx, "CellPayload.from_bin:fields-differ-from-bytes",
                     "decoded circuit id / message are not the bytes of the packet", replay)
        except Exception as e:
            got = "exn"
            ctx.count(f"cellhdr:err:{type(e).__name__}")
        lines.append(f"cellhdr {hx(pkt)}")
        expect.append((got, replay))

    # ---- LAN broadcast bootstrap endpoint: every endpoint family the node can be configured with x beacon sources of
    #      both families; compared with the model (who is called, which handlers are entered), oracle "returns normally"
    from ipv8.messaging.interfaces.udp.endpoint import UDPEndpoint, UDPv6Endpoint
    from ipv8.peerdiscovery.community import DiscoveryCommunity
    Probe = make_probe_community()
    for epname, mk in (("mock-ipv4", None), ("udp-ipv4", lambda: UDPEndpoint(port=0, ip="127.0.0.1")),
                       ("udp-ipv6", lambda: UDPv6Endpoint(port=0, ip="::1"))):
        ep = None
        if mk is not None:
            ep = mk()
            try:
                ok = bool(await ep.open())
            except Exception:
                ok = False
            if not ok or not ep.is_open():
                ctx.count(f"broadcast:{epname}:socket-not-opened(_running forced)")
                ep._running = True
        w = World(ctx, f"broadcast:{epname}", ep=ep)
        for cls in (Probe, DiscoveryCommunity):
            o = w.add_overlay(cls)
            bep = BroadcastBootstrapEndpoint(o)
            PP = bytes(o.get_prefix())
            beacon = HDR_ANNOUNCE + PP
            cases = [beacon[:k] for k in range(len(beacon) + 1)] + [beacon + b"x", HDR_ANNOUNCE[:-1] + b"\x01" + PP, b""] + \
                    [PP[:k] for k in range(0, 23, 3)] + \
                    [PP + bytes([m]) + rbytes(rng, k) for m in (1, 2, 3, 40, 60, 200, 246) for k in (0, 5)] + \
                    [rbytes(rng, k) for k in (1, 7, 30)]
            for d in cases:
                for addr in (SRC_ADDR, ("10.0.0.9", 7), ("192.168.1.5", 1234)):   # the broadcast socket is AF_INET
                    ctx.count(f"broadcast:{epname}:datagram_received")
                    ctx.case(("bcast", epname, cls.__name__, addr, d), True)
                    w.current = d
                    w.events = []
                    replay = {"kind": "broadcast", "endpoint": epname, "overlay": cls.__name__, "source": list(addr),
                              "data": d.hex()}
                    try:
                        bep.datagram_received(d, addr)
                    except Exception as e:
                        fail(ctx, f"{site_of(e)}:{type(e).__name__}",
                             f"{type(e).__name__} ({str(e)[:120]}) reached the broadcast bootstrap socket's transport callback "
                             f"(node endpoint {epname}, beacon/datagram from {addr[0]}) for a {len(d)}-byte datagram", replay)
                        continue
                    w.lines.append(f"bcast {w.lid(o)} {hx(HDR_ANNOUNCE)} {hx(w.addr_bytes(addr))} {hx(d)}")
                    w.expect.append((" ".join(w.events) + " exn=none", "none", dict(replay, datagram=d.hex()), "broadcast"))
        w.compare(use_model)
        await w.close()

    if use_model and lines:
        for ln, model, (impl, replay) in zip(lines, ctx.driver().batch(lines), expect):
            m = "exn" if (ln.startswith("cellhdr") and model.startswith("exn=")) else model
            if ln.startswith("exit "):
                for tok in model.split(" "):
                    ctx.count("model-branch:exit:" + tok)
            else:
                ctx.count("model-branch:cellhdr:" + ("ok" if model.startswith("ok") else "header-short"))
            if m != impl:
                ctx.disagree(f"{ln.split(' ')[0]}: model `{model[:160]}` != implementation `{impl[:160]}`", dict(replay, line=ln[:400]))


# =================================================================================================== C. snapshot
def run_snapshot(ctx: Ctx, n: int, use_model: bool):
    from ipv8.peerdiscovery.network import Network
    rng = ctx.rng
    lines, expect = [], []
    for _ in range(n):
        marks: list = []
        snap = b""
        for _ in range(rng.choice([0, 1, 2, 3, 6])):
            snap += gen_bytes(rng, ("address", False), marks, len(snap))
        mode = rng.choice(["valid", "trunc", "trunc", "flip", "inflate", "garbage", "tail"])
        if mode == "trunc" and snap:
            snap = snap[:rng.randrange(len(snap))]
        elif mode == "flip" and snap:
            i = rng.randrange(len(snap))
            snap = snap[:i] + bytes([rng.getrandbits(8)]) + snap[i + 1:]
        elif mode == "inflate" and marks:
            pos, w, _ = rng.choice(marks)
            snap = snap[:pos] + rng.choice([b"\xff\xff", b"\x00\x00", b"\x01\x00"]) + snap[pos + w:]
        elif mode == "garbage":
            snap = rbytes(rng, rng.choice([1, 2, 7, 19, 50]))
        elif mode == "tail":
            snap += rbytes(rng, rng.choice([1, 3]))
        net = Network()
        replay = {"kind": "snapshot", "snapshot": snap.hex()}
        ctx.count(f"snapshot:{mode}")
        ctx.case(("snap", snap), True)
        try:
            with watchdog(3):
                net.load_snapshot(snap)
        except Hang:
            fail(ctx, "Network.load_snapshot:hang", f"load_snapshot did not terminate on a {len(snap)}-byte snapshot",
                            replay)
            if ctx.counts.get("oracle-failure:Network.load_snapshot:hang", 0) >= 3:
                break        # every further hang costs the watchdog time; three replays are enough
            continue
        except Exception as e:
            fail(ctx, f"Network.load_snapshot:{type(e).__name__}",
                            f"load_snapshot raised {type(e).__name__}: {str(e)[:100]}", replay)
            continue
        got = "".join(render_addr(a) + ";" for a in net._all_addresses)
        ctx.count(f"snapshot:loaded:{min(len(net._all_addresses), 3)}")
        lines.append(f"snap {hx(snap)}")
        expect.append((got, replay))
    if use_model and lines:
        for ln, model, (impl, replay) in zip(lines, ctx.driver().batch(lines), expect):
            # the implementation stores addresses in a dict: duplicates collapse; compare as ordered de-duplicated lists
            ctx.count("model-branch:snap:" + ("raises" if model.startswith("exn=") else "entries-%d" % min(model.count(";"), 2)))
            if model.startswith("exn="):
                ctx.disagree(f"load_snapshot: the model raises ({model}) where the implementation returned", dict(replay, line=ln))
                continue
            seen, dedup = set(), ""
            for item in [x for x in model.split(";") if x]:
                if item not in seen:
                    seen.add(item)
                    dedup += item + ";"
            if dedup != impl:
                ctx.disagree(f"load_snapshot: model `{dedup[:160]}` != implementation `{impl[:160]}`", dict(replay, line=ln))


# =================================================================================================== entry points
def _run_all(ctx: Ctx, use_model: bool, quick: bool, decode_rounds: int, snaps: int,
             sections=("decode", "snapshot", "receive", "transports")):
    lvl = logging.root.manager.disable
    logging.disable(logging.CRITICAL)
    import random as _random
    try:
        reset_keys(ctx.seed)
        if "decode" in sections:
            ctx.rng = _random.Random(f"{ctx.seed}:decode")
            run_decode(ctx, decode_rounds, use_model, full=not quick)
        if "snapshot" in sections:
            ctx.rng = _random.Random(f"{ctx.seed}:snapshot")
            run_snapshot(ctx, snaps, use_model)
        if "receive" in sections:
            ctx.rng = _random.Random(f"{ctx.seed}:receive")
            reset_keys(ctx.seed)
            _random.seed(f"{ctx.seed}:global")      # the mock endpoints' addresses and the overlays' circuit ids use `random`
            asyncio.run(run_receive(ctx, use_model, quick))
        if "transports" in sections:
            ctx.rng = _random.Random(f"{ctx.seed}:transports")
            reset_keys(ctx.seed)
            _random.seed(f"{ctx.seed}:global2")
            asyncio.run(run_transports(ctx, use_model, quick))
    finally:
        logging.disable(lvl)


# branch classes of the model's definitions (design.d/C03.md, "coverage table") that every full run must reach: the tie
# between the hand-written definitions and the code is the differential run, so a branch nobody exercised is a branch
# nobody compared.  A run in which one of them stays at zero is an infrastructure failure (exit 2), never a pass.
REQUIRED_BRANCHES = """
dec:ok dec:err:short dec:err:pack dec:err:addr dec:err:utf8
decl:ok:consume_all decl:ok:keep-remainder decl:err:extra:consume_all decl:err:short:consume_all decl:err:pack:consume_all
fmt:struct:ok fmt:struct:err fmt:bits:ok fmt:bits:err fmt:raw:ok fmt:raw:err fmt:varlen:ok fmt:varlen:err fmt:utf8:ok fmt:utf8:err
fmt:ipv4:ok fmt:ipv4:err fmt:address:ok fmt:address:err fmt:list:ok fmt:list:err fmt:array:ok fmt:array:err
fmt:nested:ok fmt:nested:err fmt:tuple:ok fmt:tuple:err fmt:flags:ok fmt:flags:err
snap:entries-0 snap:entries-1 snap:entries-2
iter:prefix-list iter:global-list ep:open ep:closed deliver:closed deliver:global deliver:prefix-registered
com:foreign-prefix com:prefix-only com:no-handler com:handler com:on_cell
cry:foreign-prefix cry:prefix-only cry:not-a-cell cry:cell
cell:header-short cell:relay cell:unknown-circuit-encrypted cell:circuit-without-hops cell:plaintext cell:exit-decrypt
cell:circuit-decrypt cell:decrypt-failed cell:decrypt-raised cell:empty-message cell:relay-early-rule
cell:plaintext-not-create cell:to-tunnel-community
oncell:header-short oncell:plaintext-empty oncell:plaintext-create oncell:plaintext-not-create oncell:encrypted-flag
fc:handler fc:no-handler stats:untracked stats:prefix-only stats:counted inert
fx:add-seen-by-running-loop fx:addp-iterated-prefix fx:addp-other-prefix fx:rm fx:open fx:close
lk:cache-hit-valid lk:cache-stale-key-gone lk:cache-stale-other-object lk:cache-stale-address lk:scan-found lk:scan-none
lk:scan-several lk:cache-full
exit:utp=true exit:utp=false exit:trk=true exit:trk=false exit:dht=true exit:dht=false exit:v8=true exit:v8=false
exit:tunneled exit:dropped cellhdr:ok cellhdr:header-short
""".split()
# implementation-side classes (what the real code was observed doing) that must not silently disappear either
REQUIRED_OBSERVED = """
recv:message-level:acc:accepted recv:message-level:rej:rejected recv:truncated-cell-header recv:source-kind:tuple
recv:source-kind:UDPv6Address recv:source-kind:DomainAddress recv:gen:udp4 recv:gen:udp6 recv:gen:udp-not-running
recv:reentrant-op:rm recv:reentrant-op:add recv:reentrant-op:close recv:network-op:rmp recv:network-op:rma
recv:network-op:seta decode:value-checked-on-production-object exit:outcome:tunneled exit:outcome:dropped
recv:config:reverse_ip_cache_size:0 recv:config:reverse_ip_cache_size:1 recv:config:reverse_ip_cache_size:500
decode:re-encode:same-length decode:rejected-by-from_unpack_list
""".split()


def check_coverage(ctx: Ctx):
    import os
    extra = os.environ.get("C03_REQUIRE_EXTRA", "").split()       # self-test hook: name a class that cannot be reached
    missing = [b for b in REQUIRED_BRANCHES + extra if not ctx.counts.get("model-branch:" + b)]
    missing += [b for b in REQUIRED_OBSERVED if not ctx.counts.get(b)]
    ctx.extra["required_branch_classes"] = {"model": len(REQUIRED_BRANCHES), "observed": len(REQUIRED_OBSERVED),
                                            "missing": missing}
    if missing:
        raise InfraError("coverage lost: branch classes that the design lists were not reached in this run: "
                         + ", ".join(missing))


def run(ctx: Ctx):
    if ctx.replay_input is not None:
        return replay(ctx, ctx.replay_input)
    quick = not ctx.thorough()
    _run_all(ctx, ctx.model_ok, quick, ctx.scale(12, 60), ctx.scale(2500, 20000))
    if ctx.model_ok and not ctx.failures and not ctx.disagreements:
        check_coverage(ctx)          # only a run that would otherwise pass can be refused for lost coverage


def search(ctx: Ctx, reason: str):
    _run_all(ctx, False, False, 8, 3000)


def replay(ctx: Ctx, rec: dict):
    r = rec.get("replay", rec)
    logging.disable(logging.CRITICAL)
    kind = r.get("kind")
    if kind == "decode":
        classes = dict(gen_c03.payload_classes())
        data = bytes.fromhex(r["data"])
        log: list = []
        pser = probe_serializer(log)
        try:
            obj, end = gen_c03.make_serializer().unpack_serializable(classes[r["class"]], data, r["offset"])
            print(f"replay: unpack_serializable({r['class']}, {len(data)} bytes, offset {r['offset']}) -> end offset {end}")
            if end > len(data):
                fail(ctx, "replay", "end offset beyond the buffer", r)
            pser.unpack_serializable(probe_class(classes[r["class"]]), data, r["offset"])
            check_records(ctx, log, r)
        except Exception as e:
            print(f"replay: rejected with {type(e).__name__}: {e}")
        ctx.case(("replay",), True)
    elif kind == "snapshot":
        from ipv8.peerdiscovery.network import Network
        try:
            with watchdog(10):
                Network().load_snapshot(bytes.fromhex(r["snapshot"]))
            print("replay: load_snapshot returned normally")
        except BaseException as e:
            print(f"replay: load_snapshot raised {type(e).__name__}")
            fail(ctx, "replay", "replayed snapshot still fails", r)
        ctx.case(("replay",), True)
    elif kind in ("exit", "cell_header", "broadcast"):
        sig = rec.get("signature", "")
        ctx.seed = int(rec.get("seed", ctx.seed))
        before = len(ctx.failures)
        _run_all(ctx, False, rec.get("tier", "quick") != "thorough", 0, 0, sections=("transports",))
        again = [f for f in ctx.failures[before:] if f["signature"] == sig]
        print(f"replay: transports section re-run with seed {ctx.seed}; signature {sig!r}: "
              f"{'property FAILS again: ' + again[0]['what'][:200] if again else 'does not fail'}")
        if not again:
            del ctx.failures[before:]
    elif kind in ("receive", "udp", "loop"):
        # worlds are history dependent (registry calls, re-entrant behaviours, Network state, handler side effects), so
        # the recorded run is reproduced exactly: same seed, same tier, receive section only (every choice and every key
        # derives from the seed); the failure reproduces if its signature fails again
        sig = rec.get("signature", "")
        ctx.seed = int(rec.get("seed", ctx.seed))
        tier = rec.get("tier", "quick")
        before = len(ctx.failures)
        _run_all(ctx, False, tier != "thorough", 0, 0, sections=("receive",))
        again = [f for f in ctx.failures[before:] if f["signature"] == sig]
        print(f"replay: receive section re-run with seed {ctx.seed} ({tier}); signature {sig!r}: "
              f"{'property FAILS again: ' + again[0]['what'][:200] if again else 'does not fail'}")
        if not again:
            del ctx.failures[before:]
            asyncio.run(_replay_receive(ctx, r))
    else:
        print("replay: nothing to replay for this record")


async def _replay_receive(ctx: Ctx, r: dict):
    """re-deliver the datagram to a fresh node of every overlay class (the failing world is rebuilt by class name)"""
    from ipv8.test.mocking.endpoint import AutoMockEndpoint
    AutoMockEndpoint.SEND_INET_EXCEPTION_TO_LOOP = False
    data = bytes.fromhex(r["datagram"])
    Probe = make_probe_community()
    for name, cls, mk in gen_c03.overlay_specs() + [("ProbeCommunity", Probe, None)]:
        w = World(ctx, f"replay:{name}")
        o = w.add_overlay(cls, mk() if mk else None)
        if hasattr(o, "decode_map_private"):
            install_circuits(w, o, ctx.rng)
        n0 = len(ctx.failures)
        w.notify(data, "replay")
        print(f"replay: {name}: {'property FAILS: ' + ctx.failures[-1]['what'] if len(ctx.failures) > n0 else 'returned normally'}")
        await w.close()
