"""
C13 — introduced peers behind cone NATs become mutually reachable (ipv8/community.py introduction + puncture logic).

Link to the code:
  * translator tools/gen_c13.py regenerates lean/Ipv8/C13/Gen.lean on every run: the LAN subnet table, the msg_id ->
    handler dispatch of the eight introduction/puncture messages and — as Lean functions translated from the Python AST —
    the address decisions of on_puncture_request, on_introduction_response, create_introduction_response and
    on_introduction_request.  The theorems quantify over these generated definitions.
  * correspondence: real `Community` nodes (own Network, own key, real serializer/signatures) run on `SimNet`, a simulated
    IPv4 internet with NAT boxes (endpoint-independent mapping, filtering none / full cone / address-restricted /
    port-restricted, no hairpinning, LAN segments).  Every operation (walk_to, send_introduction_request, state queries)
    is executed on the real nodes and, as a protocol line, on the Lean model (driver drv_c13, same NAT rules);
    the packet traces (sender, destination, message kind and style, every address field, NAT outcome), the peer tables,
    walkable addresses, estimated addresses and NAT filter state are compared after every operation.
  * oracle (independent of the model): for every scripted introduction the harness checks on the real nodes and the
    simulator's delivery log that the introducer sent a puncture request to the introduced peer naming the requester's
    real WAN address, that the handed-out addresses are the introduced peer's real addresses, that the requester's walk
    to the handed-out addresses reaches the introduced peer and the answer comes back, that both list each other in
    get_peers(), and that same-NAT pairs talk over their LAN addresses only.
"""
from __future__ import annotations

import hashlib
import logging
import socket
import struct
import warnings

import gen_c13
from vlib import Ctx

PROPERTY = "C13"
import sys as _sys

# the theorems over the heavy kernel tables (PropsThorough.lean) are built and re-proved in the thorough tier only
LEAN_TARGETS = ["Ipv8.C13.Props"] + (["Ipv8.C13.PropsThorough"] if "thorough" in _sys.argv[1:] else [])
LEANCHECKER_MODULES = ["Ipv8.C13.PropsThorough"] if "thorough" in _sys.argv[1:] else []
EXTRA_PROPS_FILES = ["Ipv8/C13/PropsThorough.lean"] if "thorough" in _sys.argv[1:] else []
PROPS_FILE = "Ipv8/C13/Props.lean"
DRIVER = "drv_c13"
RULE = ("scripted introductions: NAT type of requester x of introduced peer (4x4) x placement {public, different NATs, same "
        "NAT, requester public, introduced public} x message style {old, new} x 1..5 candidates at the introducer (extras "
        "on random boxes/types, arrival order random, the designated candidate forced through the patched random.choice) x "
        "history of how the introducer learned the candidates {first request, repeated requests after the candidate knows "
        "its WAN address, response only (via a fourth node), response then request, request then response} x "
        "NAT port policy {preserving, remapped} x LAN numbering drawn from all three RFC 1918 ranges incl. their edges and "
        "colliding /24s x listening ports {all 8090, distinct} x optional noise walks among candidates; plus random "
        "histories: 3-6 hosts with random ages, 6-25 random walk/ask ops in either of two overlays, closed by an introduction of two nodes that do not know each other (oracle); plus the classes lan-collision, foreign-entry (known findings), bootstrap (blacklisted introducer), own-machine (introducer behind a box, peer on its machine), capacity (introducer at max_peers), remap-introduced / remap-requester / roam-requester (NAT mapping renewed, node moved to another public ip), churn (introducer with max_peers=-1 drops and re-verifies the peer), stale-estimate and lan-change (known findings 3, 4), port-reuse (a released WAN port of another peer is given to the requester), restart (the requester starts again from its Network snapshot: addresses known without introducer), odd-lan (same-NAT / different-NAT pairs on LANs numbered outside RFC 1918), tracker (the introducer is scripts/tracker_service.py), peer-limit (introduced peer at its overlay's max_peers with more peers in another overlay), strategy (contact attempt by the stock RandomWalk on a virtual clock, incl. its time-out clean-up). distinct = distinct (configuration, op list); non-trivial = at "
        "least one packet was dropped by a NAT filter or delivered over a LAN segment")
TRUSTED_BASE = [
    "tools/gen_c13.py: AST translation of the address decisions of community.py (assignments, if/elif chains, list appends, tuple/attribute/index expressions); IPv4 only, isinstance(x, UDPv4Address) is translated to true",
    "hand-written model of lazy_wrapper's peer lookup, Network.add_verified_peer/discover_address/get_walkable_addresses/is_new_style, Peer address slots and the packet plumbing (Ipv8/C13/Model.lean), tied by the correspondence run",
    "harness/c13.py SimNet: the simulated internet and NAT boxes; the Lean model's `route` implements the same rules and is compared packet by packet",
    "real NAT behaviour in time (WHEN a mapping or filter entry expires, packet loss, reordering between the puncture and the requester's next request) is outside the model; packets are processed in FIFO order until quiescence; THAT a mapping is renewed or a node roams between contacts is a history event (remap) of model and simulator",
    "signatures and the wire codec are exercised by the real nodes but are not part of the model (a message is its decoded fields)",
    "read-only observers wrapped around Network.add_verified_peer / discover_address / get_walkable_addresses and Community.on_introduction_response classify which branch the real code takes; a run in which a class of REQUIRED_BRANCHES is never reached exits 2 (lost coverage), it never changes a verdict otherwise",
]
ASSUMPTIONS = [
    "cone NATs only: endpoint-independent mapping (symmetric NAT excluded as in the property); boxes do not hairpin",
    "the introducer is directly reachable (public, unfiltered); it knows the introduced peer from that peer's first request, from repeated requests, from its response (the introducer was introduced to it by a fourth node and walked to it), or both ways in either order — all five histories are checked",
    "the requester's next contact attempt = a walk to every address it was handed, after the puncture has left the introduced peer's NAT",
    "IPv4, endpoint without an `interfaces` attribute (no DispatcherEndpoint: my_preferred_address() = my_estimated_wan, no interface switching)",
    "the full statement (every prior state) is FALSE for the unchanged code: four known findings (known_findings.d/C13.json), not an exhaustive list; the tables are for a requester that knows nobody but the introducer",
    "UNDISCHARGED: the Network's caches are transparent (the model has none); only get_verified_by_address after a WAN port changed hands is exercised (class port-reuse)",
]

TYPES = ["none", "fullCone", "addrRestricted", "portRestricted"]
# oracle signatures that are consequences of "the handed-out address is not reported as walkable"
CONSEQUENCES = {"on_introduction_response:nothing-to-walk", "on_introduction_response:unreachable", "get_peers:requester",
                "get_peers:introduced", "on_introduction_request:answer-lost"}
PLACEMENTS = ["public", "diff", "same", "rPub", "pPub"]
# how the introducer learned the candidates: their first request | repeated requests, the later ones sent after the
# candidate learned its WAN address | their response only | response, then a request | request, then a response
HISTORIES = ["normal", "repeat", "response", "resp+req", "req+resp"]
# node ages = Lamport clock (global time) a node starts with: young, around the 16 bit wrap of the identifier, old
AGES = [0, 0, 1, 1000, 65532, 65534, 65535, 65536, 70000, 131071, 2 ** 32 + 5]
KIND_BY_CLASS = {
    "IntroductionRequestPayload": ("req", 0), "NewIntroductionRequestPayload": ("req", 1),
    "IntroductionResponsePayload": ("resp", 0), "NewIntroductionResponsePayload": ("resp", 1),
    "PunctureRequestPayload": ("preq", 0), "NewPunctureRequestPayload": ("preq", 1),
    "PuncturePayload": ("punc", 0), "NewPuncturePayload": ("punc", 1),
}


def generate(ctx: Ctx):
    return [("Ipv8/C13/Gen.lean", gen_c13.translate())]


def ip2int(s: str) -> int:
    return struct.unpack(">L", socket.inet_aton(s))[0]


def int2ip(n: int) -> str:
    return socket.inet_ntoa(struct.pack(">L", n))


def is_private(ipn: int) -> bool:
    return ipn >> 24 == 10 or ipn >> 20 == 2753 or ipn >> 16 == 49320


def sa(a) -> str:
    """address -> protocol token"""
    return f"{ip2int(a[0])}:{a[1]}"


# ---------------------------------------------------------------------------------------------------------------------
class Host:
    def __init__(self, idx, lan, wan, box, typ):
        self.idx, self.lan, self.wan, self.box, self.typ = idx, lan, wan, box, typ
        self.sent: list = []
        self.node = None
        self.ep = None


class SimNet:
    """Simulated IPv4 internet with NAT boxes; the rules are documented in lean/Ipv8/C13/Model.lean (`route`)."""

    def __init__(self):
        self.hosts: list[Host] = []
        self.queue: list = []
        self.trace: list = []      # events of the current op: (src idx, dst, data, outcome string)
        self.current: Host | None = None
        self.lose = None           # optional predicate (host, dst, data) -> bool: the packet is lost
        self.log: list = []        # the whole run

    def add_host(self, lan, wan, box, typ) -> Host:
        h = Host(len(self.hosts), lan, wan, box, typ)
        self.hosts.append(h)
        return h

    def send(self, h: Host, dst, data: bytes):
        self.queue.append((h, (str(dst[0]), int(dst[1])), data))

    def route(self, h: Host, d):
        """-> (outcome, target host or None, source address as seen)"""
        try:
            dip = ip2int(d[0])
        except OSError:
            return "drop:null", None, h.lan
        if dip == 0:
            return "drop:null", None, h.lan
        if h.box != 0 and dip >> 8 == ip2int(h.lan[0]) >> 8:
            for g in self.hosts:
                if g.box == h.box and g.lan == d:
                    return f"lan:{g.idx}", g, h.lan
            return "drop:lanNoHost", None, h.lan
        if is_private(dip):
            return "drop:unroutable", None, h.lan
        if d not in h.sent:
            h.sent.append(d)
        if h.box != 0 and d[0] == h.wan[0]:
            return "drop:hairpin", None, h.wan
        g = next((g for g in self.hosts if g.wan == d), None)
        if g is None:
            return "drop:noHost", None, h.wan
        src = h.wan
        ok = (g.typ == "none" or (g.typ == "fullCone" and bool(g.sent))
              or (g.typ == "addrRestricted" and any(s[0] == src[0] for s in g.sent))
              or (g.typ == "portRestricted" and src in g.sent))
        return (f"wan:{g.idx}", g, src) if ok else ("drop:filtered", None, src)

    def drain(self, limit=64):
        from ipv8.messaging.interfaces.udp.endpoint import UDPv4Address
        n = 0
        while self.queue and n < limit:
            n += 1
            h, d, data = self.queue.pop(0)
            if self.lose is not None and self.lose(h, d, data):
                ev = (h.idx, d, data, "drop:lost")      # scripted loss / delay beyond the horizon of the scenario
                self.trace.append(ev)
                self.log.append(ev)
                continue
            out, g, seen = self.route(h, d)
            ev = (h.idx, d, data, out)
            self.trace.append(ev)
            self.log.append(ev)
            if g is not None:
                if len(data) > 27 and data[22] not in (250, 232):      # signed introduction messages
                    klen = int.from_bytes(data[23:25], "big")
                    known = data[25:25 + klen] in g.node.network.verified_by_public_key_bin
                    _hit("lazy_wrapper:known-sender" if known else "lazy_wrapper:unknown-sender")
                prev = self.current
                self.current = g
                try:
                    g.ep.notify_listeners((UDPv4Address(*seen), data))
                finally:
                    self.current = prev
        return not self.queue


def make_endpoint_class():
    from ipv8.messaging.interfaces.endpoint import Endpoint

    class SimEndpoint(Endpoint):
        """What a bound UDP socket looks like to the overlay: get_address() is the local bind address."""

        def __init__(self, net: SimNet, host: Host):
            super().__init__()
            self.net, self.host = net, host
            self._open = True

        def assert_open(self):
            assert self._open

        def is_open(self):
            return self._open

        def get_address(self):
            return ("0.0.0.0", self.host.lan[1])

        def send(self, socket_address, packet):
            if self._open:
                self.net.send(self.host, socket_address, packet)

        async def open(self):
            self._open = True
            return True

        def close(self):
            self._open = False

        def reset_byte_counters(self):
            pass

    return SimEndpoint


class ErrCatcher(logging.Handler):
    def __init__(self):
        super().__init__(level=logging.ERROR)
        self.records = []

    def emit(self, record):
        self.records.append(record.getMessage()[-600:])


def new_mapping(lay, w, i: int, roam: bool):
    """a fresh WAN mapping for boxed host i: same box with another port (reboot) or a new box (roaming)"""
    h = w.net.hosts[i]
    if roam:
        b = lay.new_box(lay.boxes[h.box]["net"] if h.box else None)
    else:
        b = h.box
    box = lay.boxes[b]
    port = lay.rng.randrange(1024, 65000)
    while port in box["ports"]:
        port = lay.rng.randrange(1024, 65000)
    box["ports"].add(port)
    return b, (box["ip"], port)


class TrackerView:
    """one overlay's view of a tracker host (scripts/tracker_service.py EndpointServer serves every prefix with one
    Network): what the harness queries of a Community, answered from the tracker's Network for that service"""

    def __init__(self, trk, cls):
        self.trk, self.community_id, self._prefix = trk, cls.community_id, b"\x00" + cls.version + cls.community_id
        self.network, self.endpoint = trk.network, trk.endpoint

    def get_prefix(self):
        return self._prefix

    def get_peers(self):
        return self.network.get_peers_for_service(self.community_id)

    def get_walkable_addresses(self):
        return self.network.get_walkable_addresses(self.community_id)

    def __getattr__(self, name):      # my_estimated_wan/lan, global_time, update_global_time, ensure_blacklisted, …
        return getattr(self.trk, name)


BRANCHES: dict = {}
DROPPED_VERIFIED: list = []      # (Network id, address, keys of the verified peers that held it) per remove_by_address call


def _hit(name: str):
    BRANCHES[name] = BRANCHES.get(name, 0) + 1


def install_observers(community_cls):
    """Wrap (once per process) the Network methods and the Community handler whose bodies are HAND-WRITTEN in the Lean model,
    to record from the pre-state which branch the real code is about to take.  The wrappers only read; the verdict never
    depends on them except through `REQUIRED_BRANCHES` (a branch class that is never reached = lost coverage = exit 2)."""
    from ipv8.peerdiscovery.network import Network
    orig_add, orig_disc, orig_walk = Network.add_verified_peer, Network.discover_address, Network.get_walkable_addresses
    orig_resp = community_cls.on_introduction_response

    def add_verified_peer(self, peer):
        try:
            key = peer.public_key.key_to_bin()
            addrs = list(peer.addresses.values())
            if peer.mid in self.blacklist_mids:
                _hit("add_verified_peer:own-mid")
            elif key in self.verified_by_public_key_bin:
                _hit("add_verified_peer:known-key")
            elif any(a in self._all_addresses for a in addrs):
                _hit("add_verified_peer:new-key-address-known")
            elif all(a not in self.blacklist for a in addrs):
                _hit("add_verified_peer:new-key-fresh-addresses")
            else:
                _hit("add_verified_peer:declined-blacklisted-address")
        except Exception:
            _hit("observer-error")
        return orig_add(self, peer)

    def discover_address(self, peer, address, service=None, new_style=False):
        try:
            if address in self.blacklist:
                _hit("discover_address:blacklisted-address")
            elif address not in self._all_addresses:
                _hit("discover_address:new-address")
            elif not self._all_addresses[address].introduced_by:
                _hit("discover_address:adopts-record-without-introducer")
            elif self._all_addresses[address].introduced_by not in self.verified_by_public_key_bin:
                _hit("discover_address:adopts-record-of-unverified-introducer")
            else:
                _hit("discover_address:keeps-record-of-verified-introducer")
        except Exception:
            _hit("observer-error")
        return orig_disc(self, peer, address, service, new_style)

    def get_walkable_addresses(self, service_id=None, old_style=False):
        try:
            if service_id:
                for address, (intro, svc, _ns) in self._all_addresses.items():
                    holders = [p for p in self.verified_peers if address in p.addresses.values()]
                    if any(service_id in self.services_per_peer.get(p.public_key.key_to_bin(), ()) for p in holders):
                        _hit("get_walkable_addresses:excluded-address-of-peer-of-this-service")
                        continue
                    if holders:
                        _hit("get_walkable_addresses:address-of-peer-of-another-service-only")
                    if service_id in self.services_per_peer.get(intro, ()):
                        _hit("get_walkable_addresses:included-introducer-runs-service")
                    elif svc == service_id:
                        _hit("get_walkable_addresses:included-discovered-through-service")
                    else:
                        _hit("get_walkable_addresses:excluded-by-service-filter")
        except Exception:
            _hit("observer-error")
        return orig_walk(self, service_id, old_style)

    def on_introduction_response(self, peer, dist, payload):
        r = orig_resp(self, peer, dist, payload)
        try:
            zero = ("0.0.0.0", 0)
            wan, lan, mine = payload.wan_introduction_address, payload.lan_introduction_address, self.my_estimated_wan
            if wan != zero and wan[0] != mine[0]:
                _hit("introductions:other-wan-ip" + ("+lan" if lan != zero else ""))
            elif lan != zero and wan[0] == mine[0]:
                _hit("introductions:same-wan-ip-lan-only")
            elif wan != zero:
                _hit("introductions:same-wan-ip-no-lan-guess")
            else:
                _hit("introductions:nothing-introduced")
        except Exception:
            _hit("observer-error")
        return r

    orig_rba = Network.remove_by_address

    def remove_by_address(self, address):
        try:
            holders = [p.public_key.key_to_bin() for p in self.verified_peers if address in p.addresses.values()]
            _hit("remove_by_address:" + ("drops-verified-peer" if holders else "unverified-address"))
            if holders:
                DROPPED_VERIFIED.append((id(self), tuple(address), holders))
        except Exception:
            _hit("observer-error")
        return orig_rba(self, address)

    Network.remove_by_address = remove_by_address
    Network.add_verified_peer = add_verified_peer
    Network.discover_address = discover_address
    Network.get_walkable_addresses = get_walkable_addresses
    community_cls.on_introduction_response = on_introduction_response
    return BRANCHES


# Every branch class the design lists for the hand-written part of the model (design.d/C13.md, coverage table) and for the
# simulator.  A quick or thorough run in which one of them is never reached has silently lost coverage: exit 2.
REQUIRED_BRANCHES = [
    "add_verified_peer:own-mid", "add_verified_peer:known-key", "add_verified_peer:new-key-address-known",
    "add_verified_peer:new-key-fresh-addresses", "add_verified_peer:declined-blacklisted-address",
    "discover_address:blacklisted-address", "discover_address:new-address",
    "discover_address:adopts-record-without-introducer", "discover_address:adopts-record-of-unverified-introducer",
    "discover_address:keeps-record-of-verified-introducer",
    "get_walkable_addresses:excluded-address-of-peer-of-this-service",
    "get_walkable_addresses:address-of-peer-of-another-service-only",
    "get_walkable_addresses:included-introducer-runs-service", "get_walkable_addresses:included-discovered-through-service",
    "get_walkable_addresses:excluded-by-service-filter",
    # (not required: "introductions:other-wan-ip" without LAN, "introductions:same-wan-ip-no-lan-guess" and
    #  "introduced:no-lan-recorded" need an introducer that holds a verified IPv4 peer WITHOUT a LAN slot; since both
    #  requests and responses teach the LAN address (fix 4c4fb6a) no history of the simulated space produces one.  Those
    #  branches of the translated decisions are covered by theorems only: requester_walks_wan / requester_walks_only_handed.)
    "introductions:other-wan-ip+lan", "introductions:same-wan-ip-lan-only", "introductions:nothing-introduced",
    "lazy_wrapper:known-sender", "lazy_wrapper:unknown-sender",
    "puncture:to-wan-walker", "puncture:to-lan-walker",
    "introduced:recorded-addresses", "introduced:own-machine", "introduced:nobody",
    "on_introduction_request:dropped-at-capacity", "on_introduction_request:answered-at-limit",
    "net:lan", "net:wan", "net:drop:filtered", "net:drop:hairpin", "net:drop:lanNoHost", "net:drop:noHost", "net:drop:null",
    "net:drop:unroutable",
    "msg:req0", "msg:req1", "msg:resp0", "msg:resp1", "msg:preq0", "msg:preq1", "msg:punc0", "msg:punc1",
    "op:remap", "op:roam", "op:remove-peer", "op:restart", "op:ask", "op:walk-walkable", "op:walk-junk", "op:set-age",
    "op:blacklist", "op:walk-self", "class:tracker", "class:peer-limit", "class:strategy", "strategy:steps", "class:odd-lan", "class:discovery-restart",
]


class World:
    """Real Community nodes on a SimNet, plus the protocol lines for the model."""

    _env = None

    @classmethod
    def env(cls):
        """one-time process setup: event loop for TaskManager, patched get_lan_addresses / random.choice"""
        if cls._env is not None:
            return cls._env
        import asyncio

        import vclock
        warnings.simplefilter("ignore")
        loop = vclock.VLoop()
        asyncio.set_event_loop(loop)
        import ipv8.community as com
        import ipv8.messaging.interfaces.endpoint as epmod
        from ipv8.community import Community
        from ipv8.keyvault.crypto import default_eccrypto

        class IntroCommunity0(Community):
            community_id = b"\x13" * 20

        class IntroCommunity1(Community):
            community_id = b"\x14" * 20

        env = {"loop": loop, "com": com, "epmod": epmod, "cls": [IntroCommunity0, IntroCommunity1],
               "ep": make_endpoint_class(),
               "keys": [default_eccrypto.key_from_private_bin(b"LibNaCLSK:" + hashlib.sha512(b"c13-key-%d" % i).digest())
                        for i in range(12)], "world": None,
               "catch": ErrCatcher()}
        for nm in ("IntroCommunity0", "IntroCommunity1"):
            logging.getLogger(nm).addHandler(env["catch"])
            logging.getLogger(nm).propagate = False

        def lan_addresses():
            w = env["world"]
            return [w.net.current.lan[0]] if w is not None and w.net.current is not None else []

        def choice(seq):
            w = env["world"]
            return w.choose(seq) if w is not None else seq[0]
        epmod.get_lan_addresses = lan_addresses
        com.choice = choice
        env["branches"] = install_observers(Community)
        # the stock discovery strategy on a virtual clock, its randomness scripted
        import ipv8.peerdiscovery.discovery as disc
        env["now"] = 0.0
        env["rw_pick"] = []
        disc.time = lambda: env["now"]
        disc.randint = lambda a, b: 255            # never "go back to the tracker" instead of walking

        def rw_choice(seq):
            pick = min(seq, key=lambda a: (ip2int(a[0]), a[1]))
            env["rw_pick"].append(pick)
            return pick
        disc.choice = rw_choice
        env["RandomWalk"] = disc.RandomWalk
        # scripts/tracker_service.py (the production bootstrap server), its key and its choice scripted
        import importlib.util
        import types

        import vlib
        spec = importlib.util.spec_from_file_location("c13_tracker_service", str(vlib.REPO / "scripts" / "tracker_service.py"))
        ts = importlib.util.module_from_spec(spec)
        spec.loader.exec_module(ts)
        ts.random = types.SimpleNamespace(choice=choice)
        real_crypto = ts.default_eccrypto

        class CryptoShim:
            def generate_key(self, _level):
                return env["tracker_key"]

            def __getattr__(self, name):
                return getattr(real_crypto, name)
        ts.default_eccrypto = CryptoShim()
        env["tracker_cls"] = ts.EndpointServer
        logging.getLogger("EndpointServer").addHandler(env["catch"])
        logging.getLogger("EndpointServer").propagate = False
        cls._env = env
        return env

    def __init__(self):
        self.e = self.env()
        self.e["world"] = self
        self.e["catch"].records.clear()
        self.net = SimNet()
        self.prefs: dict[int, list[int]] = {}
        self.keyidx: dict[bytes, int] = {}
        self.lines: list[str] = ["reset"]
        self.expect: list[str | None] = ["ok"]
        self.kinds: dict[str, int] = {}
        self.raised: dict[str, int] = {}
        self.overlay_classes = None     # None = the two IntroCommunity overlays; else the classes every new host runs

    # --- construction ---------------------------------------------------------------------------------------------
    def add_host(self, lan, wan, box, typ) -> int:
        from ipv8.community import CommunitySettings
        from ipv8.peer import Peer
        from ipv8.peerdiscovery.network import Network
        h = self.net.add_host(lan, wan, box, typ)
        h.ep = self.e["ep"](self.net, h)
        key = self.e["keys"][h.idx]
        self.net.current = h
        try:
            me, nw = Peer(key), Network()
            h.cls_list = list(self.overlay_classes or self.e["cls"])
            h.nodes = [c(CommunitySettings(my_peer=me, endpoint=h.ep, network=nw)) for c in h.cls_list]
            h.node = h.nodes[0]
        finally:
            self.net.current = None
        self.keyidx[key.pub().key_to_bin()] = h.idx
        self.lines.append(f"host {ip2int(lan[0])} {lan[1]} {ip2int(wan[0])} {wan[1]} {box} {TYPES.index(typ)}")
        self.expect.append(str(h.idx))
        return h.idx

    def add_tracker_host(self, lan, wan, box, typ) -> int:
        """a host that runs the tracker service instead of ordinary overlays"""
        h = self.net.add_host(lan, wan, box, typ)
        h.ep = self.e["ep"](self.net, h)
        key = self.e["keys"][h.idx]
        self.e["tracker_key"] = key
        self.net.current = h
        try:
            h.tracker = self.e["tracker_cls"](h.ep)
        finally:
            self.net.current = None
        h.nodes = [TrackerView(h.tracker, c) for c in self.e["cls"]]
        h.node = h.nodes[0]
        self.keyidx[key.pub().key_to_bin()] = h.idx
        self.lines.append(f"host {ip2int(lan[0])} {lan[1]} {ip2int(wan[0])} {wan[1]} {box} {TYPES.index(typ)}")
        self.expect.append(str(h.idx))
        self.lines.append(f"tracker {h.idx}")
        self.expect.append("ok")
        return h.idx

    def rwstep(self, i: int, s: int, now: int) -> list:
        """one take_step() of the stock RandomWalk strategy of node i / overlay s at virtual time `now`"""
        h = self.net.hosts[i]
        walkers = h.__dict__.setdefault("walkers", {})
        if s not in walkers or walkers[s].overlay is not h.nodes[s]:
            walkers[s] = self.e["RandomWalk"](h.nodes[s])
        self.e["now"] = float(now)
        self.e["rw_pick"].clear()

        def line():
            pk = self.e["rw_pick"][-1] if self.e["rw_pick"] else ("0.0.0.0", 0)
            return f"rwstep {i} {s} {now} {ip2int(pk[0])} {pk[1]}"
        return self._op(line, h, walkers[s].take_step)

    def set_pref(self, i: int, pref: list[int]):
        self.prefs[i] = list(pref)
        self.lines.append(f"pref {i} [{','.join(map(str, pref))}]")
        self.expect.append("ok")

    def choose(self, seq):
        cur = self.net.current
        by = {self.keyidx.get(p.public_key.key_to_bin(), -1): p for p in seq}
        for k in self.prefs.get(cur.idx if cur else -1, []):
            if k in by:
                return by[k]
        # model fallback: first available in the model's table order = order of first verification; the harness
        # always installs complete preference lists, so this is only reached by nodes without one
        return by[min(by)]

    def close(self):
        for h in self.net.hosts:
            if h.node is not None:
                h.node.endpoint.close()
                for nd in ([h.tracker] if hasattr(h, "tracker") else h.nodes):
                    nd.cancel_all_pending_tasks()
        self.e["world"] = None

    # --- decoding packets for the trace ----------------------------------------------------------------------------
    def describe(self, data: bytes, count: bool = False) -> str:
        import ipv8.messaging.payload as pl
        svc = self.svc_of(data)
        dec = next(h for h in self.net.hosts if not hasattr(h, "tracker"))
        node = dec.nodes[svc if svc < len(dec.nodes) else 0]
        mid = data[22]
        for cname, (kind, ns) in KIND_BY_CLASS.items():
            cls = getattr(pl, cname)
            if cls.msg_id == mid:
                break
        else:
            return f"msg{mid}"
        if count:
            self.kinds[f"{kind}{ns}"] = self.kinds.get(f"{kind}{ns}", 0) + 1
        if kind == "preq":
            _, p = node._ez_unpack_noauth(cls, data)
            return f"preq{ns} id={p.identifier} lw={sa(p.lan_walker_address)} ww={sa(p.wan_walker_address)}"
        auth, _, p = node._ez_unpack_auth(cls, data)
        k = self.keyidx.get(auth.public_key_bin, -1)
        if kind == "req":
            return (f"req{ns} k={k} id={p.identifier} d={sa(p.destination_address)} l={sa(p.source_lan_address)} "
                    f"w={sa(p.source_wan_address)}")
        if kind == "resp":
            return (f"resp{ns} k={k} id={p.identifier} d={sa(p.destination_address)} l={sa(p.source_lan_address) } "
                    f"w={sa(p.source_wan_address)} li={sa(p.lan_introduction_address)} "
                    f"wi={sa(p.wan_introduction_address)} ins={1 if p.intro_supports_new_style else 0}")
        return f"punc{ns} k={k} id={p.identifier} l={sa(p.source_lan_address)} w={sa(p.source_wan_address)}"

    def note_branches(self, src: int, dst, data: bytes):
        """branches of the translated decisions as far as the packets show them (coverage statistics only)"""
        d = self.describe(data)
        f = dict(t.split("=") for t in d.split()[1:] if "=" in t)
        if d.startswith("punc"):
            _hit("puncture:to-wan-walker" if sa(dst) == f["w"] else "puncture:to-lan-walker")
        elif d.startswith("resp"):
            if f["wi"] == "0:0":
                _hit("introduced:nobody")
            elif f["li"].split(":")[0] == str(ip2int(self.net.hosts[src].lan[0])) and f["li"] != f["wi"]:
                _hit("introduced:own-machine")
            elif f["li"] == "0:0":
                _hit("introduced:no-lan-recorded")
            else:
                _hit("introduced:recorded-addresses")

    def trace_str(self) -> str:
        if not self.net.trace:
            return "-"
        for s, d, data, _out in self.net.trace:
            self.note_branches(s, d, data)
        return " ; ".join(f"{s}/{self.svc_of(data)}>{sa(d)} {self.describe(data, True)} ={out}"
                          for s, d, data, out in self.net.trace)

    def svc_of(self, data: bytes) -> int:
        # 9 = a prefix that belongs to no overlay of the simulation (e.g. a tracker's private community id)
        return next((j for j, c in enumerate(self.e["cls"]) if b"\x00" + c.version + c.community_id == data[:22]), 9)

    # --- operations (executed on the real nodes; the same line goes to the model) -----------------------------------
    def _op(self, line: str, host: Host, fn) -> list:
        self.net.trace = []
        self.net.current = host
        raised = None
        try:
            fn()
        except Exception as e:          # e.g. PackError out of walk_to: the request was never sent
            raised = type(e).__name__
            self.raised[raised] = self.raised.get(raised, 0) + 1
        finally:
            self.net.current = None
        done = self.net.drain()
        self.lines.append(line() if callable(line) else line)
        self.expect.append("nosend" if raised and not self.net.trace else (self.trace_str() if done else "fuel"))
        return list(self.net.trace)

    def blacklist(self, i: int, addr):
        """a bootstrap server's address: Community.ensure_blacklisted"""
        self.net.hosts[i].node.ensure_blacklisted(addr)
        self.lines.append(f"blacklist {i} {ip2int(addr[0])} {addr[1]}")
        self.expect.append("ok")

    def remap(self, i: int, box: int, wan):
        """the host's NAT mapping changes (reboot / timeout: same box, new port; roaming: another box and public ip)"""
        h = self.net.hosts[i]
        h.box, h.wan, h.sent = box, wan, []
        self.lines.append(f"remap {i} {box} {ip2int(wan[0])} {wan[1]}")
        self.expect.append("ok")

    def relan(self, i: int, box: int, lan, wan):
        """the host moves to a network with another LAN numbering (new LAN address, box, WAN mapping)"""
        h = self.net.hosts[i]
        h.lan, h.box, h.wan, h.sent = lan, box, wan, []
        self.lines.append(f"relan {i} {box} {ip2int(lan[0])} {lan[1]} {ip2int(wan[0])} {wan[1]}")
        self.expect.append("ok")

    def restart(self, i: int):
        """the node shuts down and starts again: same key and socket, a fresh Network filled from its own snapshot
        (Network.snapshot / load_snapshot), fresh overlays and my_peer"""
        from ipv8.community import CommunitySettings
        from ipv8.peer import Peer
        from ipv8.peerdiscovery.network import Network
        h = self.net.hosts[i]
        snap = h.node.network.snapshot()
        for nd in h.nodes:
            h.ep.remove_listener(nd)
            nd.cancel_all_pending_tasks()
        self.net.current = h
        try:
            me, nw = Peer(self.e["keys"][i]), Network()
            nw.load_snapshot(snap)
            h.nodes = [c(CommunitySettings(my_peer=me, endpoint=h.ep, network=nw)) for c in getattr(h, "cls_list", self.e["cls"])]
            h.node = h.nodes[0]
        finally:
            self.net.current = None
        self.lines.append(f"restart {i}")
        self.expect.append("ok")

    def remove_peer(self, i: int, k: int):
        """churn: node i drops peer k (what a discovery strategy does with a peer that stopped answering)"""
        nw = self.net.hosts[i].node.network
        peer = nw.verified_by_public_key_bin.get(self.e["keys"][k].pub().key_to_bin())
        if peer is not None:
            nw.remove_peer(peer)
        self.lines.append(f"remove {i} {k}")
        self.expect.append("ok")

    def set_max_peers(self, i: int, m: int):
        for nd in self.net.hosts[i].nodes:
            if not isinstance(nd, TrackerView):
                nd.max_peers = m
        self.lines.append(f"maxpeers {i} {m}")
        self.expect.append("ok")

    def set_clock(self, i: int, t: int):
        """the node's age: its Lamport clock (global time) as if it had already created t messages"""
        self.net.hosts[i].node.update_global_time(t)
        self.lines.append(f"clock {i} {t}")
        self.expect.append("ok")

    def walk(self, i: int, addr, s: int = 0) -> list:
        from ipv8.messaging.interfaces.udp.endpoint import UDPv4Address
        h = self.net.hosts[i]
        return self._op(f"walk {i} {s} {ip2int(addr[0])} {addr[1]}", h, lambda: h.nodes[s].walk_to(UDPv4Address(*addr)))

    def ask(self, i: int, k: int, s: int = 0) -> list:
        h = self.net.hosts[i]
        peer = next((p for p in h.nodes[s].get_peers() if self.keyidx.get(p.public_key.key_to_bin()) == k), None)
        if peer is None:
            self.lines.append(f"ask {i} {s} {k}")
            self.expect.append("nopeer")
            return []
        return self._op(f"ask {i} {s} {k}", h, lambda: h.nodes[s].get_new_introduction(peer))

    def peers(self, i: int, s: int = 0) -> dict:
        from ipv8.messaging.interfaces.udp.endpoint import UDPv4Address, UDPv4LANAddress
        out = {}
        for p in self.net.hosts[i].nodes[s].get_peers():
            k = self.keyidx.get(p.public_key.key_to_bin(), -1)
            out[k] = (p.addresses.get(UDPv4Address), p.addresses.get(UDPv4LANAddress), bool(p.new_style_intro), p.address)
        return out

    def walkable(self, i: int, s: int = 0) -> list:
        n = self.net.hosts[i].nodes[s]
        return sorted(((str(a[0]), int(a[1])), bool(n.network.is_new_style(a))) for a in n.get_walkable_addresses())

    def query_all(self):
        """state queries on every node and overlay, as protocol lines with canonical (sorted) answers"""
        for h in self.net.hosts:
            i = h.idx
            for sv in range(len(h.nodes)):
                ps = self.peers(i, sv)
                self.lines.append(f"peers {i} {sv}")
                self.expect.append("S[" + ",".join(sorted(
                    f"{k}/{sa(v4) if v4 else '-'}/{sa(lan) if lan else '-'}/{1 if ns else 0}"
                    for k, (v4, lan, ns, _) in ps.items())) + "]")
                self.lines.append(f"walkable {i} {sv}")
                self.expect.append("S[" + ",".join(sorted(f"{sa(a)}/{1 if ns else 0}" for a, ns in self.walkable(i, sv))) + "]")
                nd = h.nodes[sv]
                self.lines.append(f"est {i} {sv}")
                self.expect.append(f"{sa(nd.my_estimated_wan)} {sa(nd.my_estimated_lan)} {nd.global_time}")
            self.lines.append(f"sent {i}")
            self.expect.append("S[" + ",".join(sorted(sa(a) for a in h.sent)) + "]")


def canon(reply: str, expected: str) -> str:
    """expected answers starting with S[ are sorted sets: sort the model's list the same way"""
    if expected.startswith("S[") and reply.startswith("[") and reply.endswith("]"):
        inner = reply[1:-1]
        return "S[" + ",".join(sorted(inner.split(","))) + "]" if inner else "S[]"
    return reply


# ---------------------------------------------------------------------------------------------------------------------
# /24s outside 10/8, 172.16/12, 192.168/16 used as LAN numbering (none of them contains an address of EDGE_PUBLIC)
ODD_LAN_NETS = ["100.64.1", "100.127.255", "100.100.7", "198.18.5", "25.11.12", "172.33.4", "192.169.1", "11.1.2"]
LAN_NETS = ["192.168.0", "192.168.1", "192.168.1", "192.168.255", "10.0.0", "10.255.255", "10.77.3", "172.16.0", "172.31.255",
            "172.20.10"]
EDGE_PUBLIC = ["172.32.0.1", "172.15.255.254", "192.169.0.1", "192.167.255.254", "11.0.0.1", "9.255.255.254", "172.48.1.1",
               "192.160.0.9", "100.64.0.1", "169.254.7.7"]


def rand_public_ip(rng, used: set) -> str:
    while True:
        if rng.random() < 0.35:
            ip = rng.choice(EDGE_PUBLIC)
        else:
            ip = f"{rng.randrange(1, 224)}.{rng.randrange(256)}.{rng.randrange(256)}.{rng.randrange(1, 255)}"
        n = ip2int(ip)
        if ip in used or is_private(n) or n >> 24 in (0, 127):
            continue
        used.add(ip)
        return ip


class Layout:
    """allocates boxes, LAN numbering and WAN mappings"""

    def __init__(self, rng, port_policy: str, same_port: bool):
        self.rng, self.port_policy, self.same_port = rng, port_policy, same_port
        self.used_ips: set = set()
        self.boxes: dict[int, dict] = {}
        self.used_lan: set = set()

    def port(self):
        return 8090 if self.same_port else self.rng.randrange(1024, 65000)

    def public_host(self):
        ip = rand_public_ip(self.rng, self.used_ips)
        a = (ip, self.port())
        return a, a, 0

    def new_box(self, net: str | None = None) -> int:
        b = len(self.boxes) + 1
        self.boxes[b] = {"ip": rand_public_ip(self.rng, self.used_ips), "net": net or self.rng.choice(LAN_NETS), "ports": set()}
        return b

    def boxed_host(self, b: int):
        box = self.boxes[b]
        while True:
            lan = (f"{box['net']}.{self.rng.randrange(2, 255)}", self.port())
            # full LAN addresses (ip AND port) are kept unique over the whole world, although /24s may collide: two verified
            # peers with one address make Network.get_verified_by_address order-dependent (verified_peers is a set), which
            # the list-based model cannot follow.  The class "lan-collision" creates exactly one such duplicate on purpose.
            if lan not in self.used_lan:
                self.used_lan.add(lan)
                break
        wp = lan[1] if self.port_policy == "preserve" else self.rng.randrange(1024, 65000)
        while wp in box["ports"]:
            wp = self.rng.randrange(1024, 65000)
        box["ports"].add(wp)
        return lan, (box["ip"], wp), b


def scripted(ctx: Ctx, cfg: dict, use_model: bool, batch: list):
    """One scripted introduction on real nodes; oracle here, model lines appended to `batch`."""
    import random as _random
    rng = _random.Random(cfg["seed"])
    w = World()
    try:
        lay = Layout(rng, cfg["ports"], cfg["same_port"])
        tR, tP, pl = cfg["tR"], cfg["tP"], cfg["placement"]
        klass = cfg.get("klass", "std")
        ctx.count("class:" + klass)
        if klass == "own-machine":
            # the introducer sits behind an unfiltered, port-preserving box and the introduced peer runs on the SAME machine
            # (same LAN ip, other port); the requester is public or behind its own box
            bI = lay.new_box()
            ilan, iwan, _ = lay.boxed_host(bI)
            lay.boxes[bI]["ports"].discard(iwan[1])
            iwan = (iwan[0], ilan[1])
            I = w.add_host(ilan, iwan, bI, "none")
            R = w.add_host(*(lay.public_host() if pl in ("public", "rPub") else lay.boxed_host(lay.new_box())), tR)
            pport = ilan[1] + 1 + rng.randrange(50)
            P = w.add_host((ilan[0], pport), (iwan[0], pport), bI, tP)
        elif klass == "tracker":
            I = w.add_tracker_host(*lay.public_host(), "none")
        else:
            I = w.add_host(*lay.public_host(), "none")
        if klass == "own-machine":
            pass
        elif pl == "public":
            R = w.add_host(*lay.public_host(), tR)
            P = w.add_host(*lay.public_host(), tP)
        elif pl == "diff":
            b1 = lay.new_box(rng.choice(ODD_LAN_NETS) if klass == "odd-lan" else None)
            b2 = lay.new_box(lay.boxes[b1]["net"] if cfg.get("collide") else
                             (rng.choice(ODD_LAN_NETS) if klass == "odd-lan" else None))
            R = w.add_host(*lay.boxed_host(b1), tR)
            P = w.add_host(*lay.boxed_host(b2), tP)
        elif pl == "same":
            b1 = lay.new_box(rng.choice(ODD_LAN_NETS) if klass == "odd-lan" else None)
            R = w.add_host(*lay.boxed_host(b1), tR)
            P = w.add_host(*lay.boxed_host(b1), tP)
        elif pl == "rPub":
            R = w.add_host(*lay.public_host(), tR)
            P = w.add_host(*lay.boxed_host(lay.new_box()), tP)
        else:
            R = w.add_host(*lay.boxed_host(lay.new_box()), tR)
            P = w.add_host(*lay.public_host(), tP)
        extras = []
        for _ in range(max(cfg["ncand"], 2 if klass == "bootstrap" else 1) - 1):
            where = rng.choice(["public", "own", "own", "share"])
            if where == "public":
                spec = lay.public_host()
            elif where == "own" or not lay.boxes:
                spec = lay.boxed_host(lay.new_box())
            else:
                spec = lay.boxed_host(rng.choice(list(lay.boxes)))
            extras.append(w.add_host(*spec, rng.choice(TYPES)))
        QR = None
        if klass == "port-reuse" and w.net.hosts[R].box:
            QR = w.add_host(*lay.boxed_host(w.net.hosts[R].box), rng.choice(TYPES))
            extras.append(QR)
        X = w.add_host(*lay.public_host(), "none") if (cfg["history"] in ("response", "resp+req")
                                                        or klass in ("own-machine", "foreign-entry", "peer-limit")) else None
        Q = None
        if klass == "lan-collision":
            # a third peer on ANOTHER LAN that happens to have the introduced peer's full LAN address (same home-router
            # numbering, same default port); reachable without filtering so that the requester can get to know it
            rbox = w.net.hosts[R].box
            bq = lay.new_box(lay.boxes[rbox]["net"] if rbox else None)
            Q = w.add_host(w.net.hosts[P].lan, (lay.boxes[bq]["ip"], 40000 + rng.randrange(20000)), bq, "none")
        hosts = w.net.hosts
        cands = [P, *extras]
        rng.shuffle(cands)
        n = len(hosts)
        for h in hosts:
            others = [k for k in range(n) if k != h.idx]
            rng.shuffle(others)
            w.set_pref(h.idx, others)
        # the introducer's choice: the designated candidate — in a third of the cases only after the requester itself,
        # which a correct introducer never hands out (exclude=other)
        w.set_pref(I, ([R] if cfg.get("r_first") or klass == "port-reuse" else []) + [P] + [k for k in range(n) if k not in (P, I, R)] + [R])
        iaddr = hosts[I].wan
        history = cfg["history"]
        new = cfg["style"] == "new"
        if klass == "bootstrap":
            # the introducer is a bootstrap server: everybody else has its address on the blacklist (never a verified peer)
            for h in hosts:
                if h.idx != I:
                    w.blacklist(h.idx, iaddr)
        if klass == "churn":
            w.set_max_peers(I, -1)
        if klass == "capacity":
            # the introducer holds exactly max_peers peers when the requester's request arrives: it still answers
            w.set_max_peers(I, len(cands) - (1 if cfg["seed"] % 2 else 0))
        if klass == "own-machine":
            w.walk(I, hosts[X].wan)          # the introducer learns its WAN address
            ctx.count("own-machine:introducer-wan-known:%s" % (tuple(hosts[I].node.my_estimated_wan) == hosts[I].wan))
        # node ages: Lamport clocks as if the nodes had already created that many messages
        for hidx, age in enumerate(cfg.get("ages", [])):
            if age and hidx < n:
                w.set_clock(hidx, age)

        def phase(s: int):
            """history + introduction + contact attempt + oracle, all inside overlay s"""
            if new:
                w.walk(R, iaddr, s)                   # the requester is known to the introducer before any candidate is

            def by_request(repeat: bool):
                # the candidate walks to the introducer; with `repeat` it contacts it once more AFTER it learned its own
                # WAN address from the first response (its request then carries source_wan_address != source_lan_address)
                for c in cands:
                    w.walk(c, hosts[I].lan if hosts[c].box == hosts[I].box != 0 else iaddr, s)
                    if new:
                        w.ask(c, I, s)
                    if repeat:
                        if new:
                            w.ask(c, I, s)
                        else:
                            w.walk(c, iaddr, s)

            def by_response():
                # the introducer learns the candidates from their RESPONSES.  A second public node X introduces each
                # candidate to I (X's puncture request makes the candidate open its NAT towards I), then I walks to it.
                for c in cands:
                    w.walk(c, hosts[X].wan, s)
                    if new:
                        w.ask(c, X, s)
                for c in cands:
                    w.set_pref(X, [c] + [k for k in range(n) if k not in (c, X)])
                    if X not in w.peers(I, s):
                        w.walk(I, hosts[X].wan, s)
                    else:
                        w.ask(I, X, s)
                    for a, _ns in w.walkable(I, s):
                        w.walk(I, a, s)

            if history == "normal":
                by_request(False)
            elif history == "repeat":
                by_request(True)
            elif history == "response":
                by_response()
            elif history == "resp+req":   # learned from the response first, then the candidate also walks to the introducer
                by_response()             # (it knows its WAN address by then: X's response told it)
                by_request(False)
            elif history == "req+resp":   # learned from the request first, then the introducer asks the candidate itself
                by_request(False)
                for c in cands:
                    w.ask(I, c, s)
            else:
                raise ValueError(history)
            if cfg.get("noise"):
                for c in cands:
                    for a, _ns in w.walkable(c, s)[:3]:
                        if a not in (hosts[R].lan, hosts[R].wan):      # the pair under test stays unconnected
                            w.walk(c, a, s)
            if klass == "remap-introduced" and hosts[P].box:
                # the introduced peer's mapping is renewed after the introducer learned it; it contacts the introducer
                # again from the new mapping (what its discovery strategy does all the time)
                w.remap(P, *new_mapping(lay, w, P, False))
                if new and I in w.peers(P, s):
                    w.ask(P, I, s)
                else:
                    w.walk(P, iaddr, s)
            if klass in ("remap-requester", "roam-requester") and hosts[R].box:
                # the requester is a known peer of the introducer with a WAN estimate (it was introduced once, did not
                # walk), then its mapping is renewed / it roams to another public ip
                if not new:
                    w.walk(R, iaddr, s)
                w.remap(R, *new_mapping(lay, w, R, klass == "roam-requester"))
            if klass == "churn" and hosts[P].box:
                # the introducer (no peer limit) drops the introduced peer after its mapping was renewed; the peer walks to
                # the introducer again from the new mapping
                w.remap(P, *new_mapping(lay, w, P, False))
                w.remove_peer(I, P)
                w.walk(P, iaddr, s)
                if new:
                    w.ask(P, I, s)
            if klass == "stale-estimate" and s == 0 and hosts[P].box:
                # P is a peer of I in overlay 1 too, roams to another public ip and is refreshed at I through overlay 1 only
                w.walk(P, iaddr, 1)
                w.remap(P, *new_mapping(lay, w, P, True))
                w.walk(P, iaddr, 1)
            if klass == "lan-change" and hosts[R].box:
                # P moves INTO the requester's box (other LAN address there) and refreshes at I
                nl, nw_, nb = lay.boxed_host(hosts[R].box)
                w.relan(P, nb, nl, nw_)
                if new and I in w.peers(P, s):
                    w.ask(P, I, s)
                else:
                    w.walk(P, iaddr, s)
            if klass == "port-reuse" and QR is not None:
                # Q's mapping is renewed and refreshed at I; Q's OLD public port is then given to the requester
                old = hosts[QR].wan
                w.remap(QR, *new_mapping(lay, w, QR, False))
                w.walk(QR, iaddr, s)
                w.remap(R, hosts[R].box, old)
                ctx.count("port-reuse:requester-on-released-port")
            if klass == "peer-limit" and s == 0:
                # the introduced peer has a further peer in overlay 1 (same Network); its limit is what overlay 0 holds now
                w.walk(P, hosts[X].wan, 1)
                w.set_max_peers(P, len(w.peers(P, 0)))
                ctx.count("peer-limit:network-peers-above-limit:%s"
                          % (len(hosts[P].node.network.verified_peers) > len(w.peers(P, 0))))
            if klass == "lan-collision" and s == 0:
                w.walk(R, hosts[Q].wan, s)        # the requester gets to know Q (Q's response tells its LAN address)
            if klass == "foreign-entry" and s == 0:
                # X runs (as far as the requester knows) only overlay 1 and introduces P's addresses to the requester there
                w.walk(P, hosts[X].wan, 1)
                w.set_pref(X, [P] + [k for k in range(n) if k not in (P, X)])
                w.walk(R, hosts[X].wan, 1)
            w.query_all()
            # ---- the scripted introduction ---------------------------------------------------------------------
            if klass == "capacity" and cfg["seed"] % 2:
                # one peer more than max_peers: the request is not answered and the property says nothing
                ev = w.walk(R, iaddr, s)
                w.query_all()
                if any(src == I for src, _d, _x, _o in ev):
                    ctx.oracle_fail("on_introduction_request:answered-above-capacity",
                                    "the introducer answered although it holds more than max_peers peers", {"kind": "scripted", "cfg": cfg})
                _hit("on_introduction_request:dropped-at-capacity")
                return
            if klass == "capacity":
                _hit("on_introduction_request:answered-at-limit")
            introduce_and_check(s, new)
            if klass == "restart" and s == 0:
                # the requester shuts down and starts again from its snapshot: the introduced peer's address is known
                # without an introducer, nobody is verified; then the introduction once more (it has no peer to ask)
                w.restart(R)
                ctx.count("restart:snapshot-entries:%d" % len(hosts[R].node.network._all_addresses))
                introduce_and_check(s, False)

        def introduce_and_check(s: int, use_ask: bool):
            already = P in w.peers(R, s) and R in w.peers(P, s)
            ev1 = w.ask(R, I, s) if use_ask else w.walk(R, iaddr, s)
            # the requester's next contact attempt: a walk to every address of the introduction that this overlay
            # reports as walkable (what a DiscoveryStrategy would pick from)
            named = set()
            for src, _d, data, out in ev1:
                if src == I and out.endswith(f":{R}"):
                    d = w.describe(data)
                    if d.startswith("resp"):
                        f = dict(t.split("=") for t in d.split()[1:])
                        named |= {f["li"], f["wi"], f"{ip2int(hosts[R].lan[0])}:{f['wi'].split(':')[1]}"}
            handed = [a for a, _ in w.walkable(R, s) if sa(a) in named]
            cause = diagnose(w, R, P, s, named)
            w.query_all()
            ev2 = []
            if klass == "strategy":
                # the contact attempt is made by the stock RandomWalk strategy: two steps one second apart, then two more
                # after the 3 s node time-out (the unanswered probe is cleaned up)
                DROPPED_VERIFIED.clear()
                for t in (100, 101, 105, 106):
                    ev2 += w.rwstep(R, s, t)
                ctx.count("strategy:steps", 4)
                pk = w.e["keys"][P].pub().key_to_bin()
                hit = [d for d in DROPPED_VERIFIED if d[0] == id(hosts[R].node.network) and pk in d[2]]
                if hit:
                    ctx.oracle_fail("RandomWalk.take_step:verified-peer-dropped-on-probe-timeout",
                                    f"the requester's walker removed the verified introduced peer when its unanswered probe to "
                                    f"{hit[0][1]} (an address of that peer) timed out",
                                    {"kind": "scripted", "cfg": {k: v for k, v in cfg.items() if k != "overlay"}})
            else:
                for a in handed:
                    ev2 += w.walk(R, a, s)
            w.query_all()
            ctx.count("pre:already-peers-in-overlay:%s" % already)
            check_scripted(ctx, w, dict(cfg, overlay=s), R, P, I, ev1, ev2, handed, s, cause)

        if cfg.get("overlays") == "other-first" and klass == "std":
            phase(1)          # requester and introduced peer become peers in overlay 1 first (shared Network) …
        phase(0)              # … and are then introduced to each other in overlay 0
        if klass == "bootstrap" and extras:
            # a second introduction hands the requester an address it has on its blacklist (another bootstrap server):
            # it must be neither recorded as walkable nor walked to
            e0 = extras[0]
            was_known = hosts[e0].wan in [tuple(a) for a in hosts[R].node.network._all_addresses]
            ctx.count("bootstrap:blacklisted-address-already-in-table:%s" % was_known)
            w.blacklist(R, hosts[e0].wan)
            w.set_pref(I, [e0] + [k for k in range(n) if k not in (e0, I)])
            w.walk(R, iaddr, 0)
            w.query_all()
            # (an address that was in the table BEFORE it was blacklisted stays there: blacklisting does not purge, and the
            #  property says nothing about that)
            if not was_known and hosts[e0].wan in [a for a, _ in w.walkable(R, 0)]:
                ctx.oracle_fail("discover_address:blacklisted-address-walkable",
                                "an introduced address that is on the requester's blacklist is reported as walkable",
                                {"kind": "scripted", "cfg": cfg})
        for k, v in w.raised.items():
            ctx.count("api-raised:" + k, v)
        nontrivial = any(o.startswith(("drop:filtered", "lan:")) for _, _, _, o in w.net.log)
        ctx.case(("scripted", tuple(sorted(cfg.items()))), nontrivial)
        for _, _, _, o in w.net.log:
            ctx.count("net:" + o.split(":")[0] + (":" + o.split(":")[1] if o.startswith("drop") else ""))
        for k, v in w.kinds.items():
            ctx.count("msg:" + k, v)
        if w.e["catch"].records:
            ctx.count("handler-exception", len(w.e["catch"].records))
            ctx.disagree("a message handler raised on the real node: " + w.e["catch"].records[0][-300:],
                         {"cfg": cfg, "kind": "scripted"})
        if use_model:
            batch.append((("scripted", cfg), w.lines, w.expect))
        return w
    finally:
        w.close()


def knows(w: World, a: int, b: int) -> bool:
    """is b a verified peer of a (in any overlay)?"""
    kb = w.e["keys"][b].pub().key_to_bin()
    return kb in w.net.hosts[a].node.network.verified_by_public_key_bin


def diagnose(w: World, R: int, P: int, s: int, named: set):
    try:
        return _diagnose(w, R, P, s, named)
    except (AttributeError, KeyError, TypeError):     # private Network fields renamed: no diagnosis, nothing is excused
        return None


def _diagnose(w: World, R: int, P: int, s: int, named: set):
    """Is the requester's address table in one of the two states for which the unchanged code is KNOWN not to connect the
    pair (known_findings.d/C13.json)?  Decided from the real Network object before the contact attempt, not from the
    outcome.  (a) an address of the introduction is also an address of ANOTHER verified peer of the requester;
    (b) an address of the introduction is already in the address table, introduced by a still-verified peer that does not
    run this overlay, through another overlay."""
    hr, hp = w.net.hosts[R], w.net.hosts[P]
    pnode = hp.nodes[s]
    if tuple(pnode.my_estimated_lan) != hp.lan:
        return "stale-lan"       # (d) the introduced peer advertises a LAN address it no longer has
    same = hr.box != 0 and hr.box == hp.box
    if not same and pnode.my_estimated_wan[0] != hp.wan[0] and pnode.my_estimated_wan[0] == hr.wan[0]:
        return "stale-wan"       # (c) its WAN estimate IN THIS OVERLAY is stale and equals the requester's public ip
    node = hr.nodes[s]
    net = node.network
    pkey = w.e["keys"][P].pub().key_to_bin()
    for peer in net.verified_peers:
        if peer.public_key.key_to_bin() != pkey and any(sa(a) in named for a in peer.addresses.values()):
            return "collision"
    for a, entry in net._all_addresses.items():
        if sa(a) in named and entry.introduced_by in net.verified_by_public_key_bin \
                and node.community_id not in net.services_per_peer.get(entry.introduced_by, set()) \
                and entry.services != node.community_id:
            return "foreign"
    return None


def check_scripted(ctx: Ctx, w: World, cfg: dict, R: int, P: int, I: int, ev1, ev2, handed, s: int = 0, cause=None,
                   replay_rec=None):
    """The property itself, evaluated on the real nodes and the simulator's delivery log."""
    hosts = w.net.hosts
    hr, hp = hosts[R], hosts[P]
    same = hr.box != 0 and hr.box == hp.box
    tag = f"{cfg['tR']}/{cfg['tP']}/{cfg['placement']}/{cfg['style']}"
    rep = replay_rec or {"kind": "scripted", "cfg": {k: v for k, v in cfg.items() if k != "overlay"}, "overlay": s}
    ctx.count(f"cfg:placement:{cfg['placement']}")
    ctx.count(f"cfg:style:{cfg['style']}")
    ctx.count(f"cfg:types:{cfg['tR']}>{cfg['tP']}")
    ctx.count(f"cfg:ncand:{cfg['ncand']}")
    ctx.count(f"cfg:history:{cfg['history']}")
    ctx.count(f"cfg:overlays:{cfg.get('overlays', 'single')}:phase{s}")
    ages = cfg.get("ages", [])
    if cfg.get("klass") != "random":
        ctx.count("cfg:requester-age:" + ("young" if not ages or ages[R] < 65536 - 64 else "wraps" if ages[R] < 65536 else "old"))
    ctx.count(f"cfg:ports:{cfg['ports']}:{'same' if cfg['same_port'] else 'distinct'}")

    known_sig = {"collision": "get_walkable_addresses:address-of-another-verified-peer",
                 "foreign": "get_walkable_addresses:entry-of-another-overlay",
                 "stale-wan": "on_puncture_request:stale-wan-estimate-of-overlay",
                 "stale-lan": "my_estimated_lan:stale-after-lan-change"}.get(cause)
    consequences = CONSEQUENCES | {"stale-wan": {"on_puncture_request:target"},
                                   "stale-lan": {"create_introduction_response:lan-address", "same-nat:wan-path",
                                                 "same-nat:requester-address", "same-nat:introduced-address"}}.get(cause, set())
    ctx.count("diagnosed:" + str(cause))
    reported = []

    def fail(sig, what):
        if known_sig is not None and sig in consequences:
            if reported:
                return                      # one report per case
            reported.append(sig)
            seen = ctx.extra.setdefault("known_finding_cases", {})
            seen[known_sig] = seen.get(known_sig, 0) + 1
            if seen[known_sig] > 3:
                return
            # the requester's address table is in a state for which the unchanged code is known to fail (diagnosed before
            # the contact attempt): everything that follows from "the address is not walkable" is reported under the
            # known finding's own signature; every other check keeps its signature
            ctx.oracle_fail(known_sig, f"[{tag}] {what}", rep)
        else:
            ctx.oracle_fail(sig, f"[{tag}] {what}", rep)

    if not ev1:
        fail("create_introduction_request:not-sent",
             "the requester's introduction request was never sent (the API call raised: %s)" % (sorted(w.raised) or "nothing"))
        return
    descr1 = [(s, d, w.describe(data), out) for s, d, data, out in ev1]
    descr2 = [(s, d, w.describe(data), out) for s, d, data, out in ev2]
    # (a) the introduction and the puncture request
    resp = [e for e in descr1 if e[0] == I and e[2].startswith("resp") and e[3].endswith(f":{R}")]
    if not resp:
        fail("create_introduction_response:no-response", "the introducer's response did not reach the requester")
        return
    fields = dict(t.split("=") for t in resp[-1][2].split()[1:])
    preq = [e for e in descr1 if e[0] == I and e[2].startswith("preq")]
    if not preq:
        fail("create_introduction_response:no-puncture-request", "a peer was introduced but no puncture request was sent")
    else:
        pf = dict(t.split("=") for t in preq[-1][2].split()[1:])
        if not preq[-1][3].endswith(f":{P}"):
            fail("create_introduction_response:puncture-request-lost",
                 f"the puncture request did not reach the introduced peer ({preq[-1][3]}, sent to {preq[-1][1]})")
        if pf["ww"] != sa(hr.wan):
            fail("create_introduction_response:puncture-request-target",
                 f"puncture request names {pf['ww']} as the requester's WAN address, the network says {sa(hr.wan)}")
    # (b) the addresses handed out are the introduced peer's
    if fields["wi"] != sa(hp.wan):
        fail("create_introduction_response:wan-address", f"handed-out WAN address {fields['wi']} is not the introduced peer's {sa(hp.wan)}")
    # the LAN address is needed by a requester behind the same box; elsewhere an introducer may also withhold it
    if fields["li"] != sa(hp.lan) and (same or fields["li"] != "0:0"):
        fail("create_introduction_response:lan-address", f"handed-out LAN address {fields['li']} is not the introduced peer's {sa(hp.lan)}")
    if (cfg["style"] == "new") != resp[-1][2].startswith("resp1"):
        ctx.count("style-mismatch")
        # counted, not judged: the style of an answer follows the sender's new_style_intro flag at the introducer, which is
        # network-wide and sticky (set by any earlier new-style contact, e.g. in the other overlay); the property makes no
        # claim about which style is used, only that both work
    # (c) the puncture
    punc = [e for e in descr1 if e[0] == P and e[2].startswith("punc")]
    if not punc:
        fail("on_puncture_request:no-puncture", "the introduced peer sent no puncture")
    elif not same and punc[-1][1] != hr.wan:
        fail("on_puncture_request:target", f"puncture sent to {punc[-1][1]}, the requester's WAN address is {hr.wan}")
    # (d) next contact attempt reaches the introduced peer and the answer comes back
    reached = [e for e in descr2 if e[0] == R and e[2].startswith("req") and e[3].endswith(f":{P}")]
    back = [e for e in descr2 if e[0] == P and e[2].startswith("resp") and e[3].endswith(f":{R}")]
    if not handed:
        fail("on_introduction_response:nothing-to-walk", "the requester recorded no address to walk to")
    if not reached:
        fail("on_introduction_response:unreachable",
             "none of the requester's walks reached the introduced peer: " + ", ".join(f"{sa(e[1])}{e[3]}" for e in descr2 if e[0] == R))
    elif not back:
        fail("on_introduction_request:answer-lost", "the introduced peer's answer did not come back: "
             + ", ".join(f"{sa(e[1])}{e[3]}" for e in descr2 if e[0] == P))
    # (e) both end up as verified peers of each other
    pr, pp = w.peers(R, s), w.peers(P, s)
    if P not in pr:
        fail("get_peers:requester", "the introduced peer is not a verified peer of the requester")
    if R not in pp:
        fail("get_peers:introduced", "the requester is not a verified peer of the introduced peer")
    # (f) same NAT: LAN addresses only
    if same and reached and back:
        if not all(e[3].startswith("lan:") for e in reached + back):
            fail("same-nat:wan-path", "same-NAT peers exchanged the request/answer over the WAN side")
        if P in pr and pr[P][3] != hp.lan:
            fail("same-nat:requester-address", f"requester holds {pr[P][3]} for the introduced peer, its LAN address is {hp.lan}")
        if R in pp and pp[R][3] != hr.lan:
            fail("same-nat:introduced-address", f"introduced peer holds {pp[R][3]} for the requester, its LAN address is {hr.lan}")
    if not same and P in pr and pr[P][3] != hp.wan:
        fail("verified:requester-address", f"requester holds {pr[P][3]} for the introduced peer, its WAN address is {hp.wan}")
    if not same and R in pp and pp[R][3] != hr.wan:
        fail("verified:introduced-address", f"introduced peer holds {pp[R][3]} for the requester, its WAN address is {hr.wan}")
    ctx.count("branch:handed:%d" % len(handed))


# ---------------------------------------------------------------------------------------------------------------------
def random_history(ctx: Ctx, seed: int, use_model: bool, batch: list):
    import random as _random
    rng = _random.Random(seed)
    w = World()
    try:
        lay = Layout(rng, rng.choice(["preserve", "remap"]), rng.random() < 0.5)
        nh = rng.randrange(3, 7)
        w.add_host(*lay.public_host(), "none")
        for _ in range(nh - 1):
            r = rng.random()
            if r < 0.3:
                spec = lay.public_host()
            elif r < 0.65 or not lay.boxes:
                spec = lay.boxed_host(lay.new_box())
            else:
                spec = lay.boxed_host(rng.choice(list(lay.boxes)))
            w.add_host(*spec, rng.choice(TYPES))
        hosts = w.net.hosts
        for h in hosts:
            others = [k for k in range(nh) if k != h.idx]
            rng.shuffle(others)
            w.set_pref(h.idx, others)
        if rng.random() < 0.5:
            for h in hosts:
                age = rng.choice(AGES)
                if age:
                    w.set_clock(h.idx, age)
                    ctx.count("op:set-age")
        nops = rng.randrange(6, 26)
        blacklisted: set = set()
        for _ in range(nops):
            i = rng.randrange(nh)
            sv = 0 if rng.random() < 0.7 else 1
            ctx.count(f"op:overlay{sv}")
            r = rng.random()
            if rng.random() < 0.08:
                boxed = [h.idx for h in hosts if h.box]
                if boxed:
                    j = rng.choice(boxed)
                    roam = rng.random() < 0.4
                    ctx.count("op:roam" if roam else "op:remap")
                    w.remap(j, *new_mapping(lay, w, j, roam))
            if rng.random() < 0.04:
                ctx.count("op:restart")
                w.restart(rng.randrange(1, nh))
            if rng.random() < 0.05 and nh > 3:
                j = rng.randrange(1, nh)
                if j != i:
                    ctx.count("op:blacklist")      # node i treats host j like a bootstrap server: never a peer, never walked to
                    w.blacklist(i, hosts[j].wan)
                    blacklisted.add(i)
                    blacklisted.add(j)
            if rng.random() < 0.06:
                ps = sorted(set(w.peers(i, 0)) | set(w.peers(i, 1)))
                if ps:
                    ctx.count("op:remove-peer")
                    w.remove_peer(i, rng.choice(ps))
            if r < 0.35:
                j = rng.randrange(nh)
                a = rng.choice([hosts[j].wan, hosts[j].wan, hosts[j].lan])
                ctx.count("op:walk-known")
                w.walk(i, a, sv)
            elif r < 0.7:
                have = [h for h in range(nh) if w.walkable(h, sv)]
                if have:
                    i = rng.choice(have)       # some node that was introduced to something and has not walked yet
                wk = w.walkable(i, sv)
                if wk:
                    ctx.count("op:walk-walkable")
                    w.walk(i, rng.choice(wk)[0], sv)
                elif w.peers(i, sv):
                    ctx.count("op:ask")
                    w.ask(i, rng.choice(sorted(w.peers(i, sv))), sv)
                else:
                    ctx.count("op:walk-bootstrap")
                    w.walk(i, hosts[rng.randrange(nh)].wan, sv)
            elif r < 0.9:
                ps = sorted(w.peers(i, sv))
                if ps:
                    ctx.count("op:ask")
                    w.ask(i, rng.choice(ps), sv)
                else:
                    ctx.count("op:walk-bootstrap")
                    w.walk(i, hosts[0].wan, sv)
            elif r < 0.93:
                ctx.count("op:walk-self")
                w.walk(i, hosts[i].wan if not hosts[i].box else hosts[i].lan, sv)
            else:
                ctx.count("op:walk-junk")
                w.walk(i, rng.choice([("0.0.0.0", 0), ("10.9.9.9", 1), (rand_public_ip(rng, set()), 7), (hosts[i].lan[0], 1)]), sv)
            if rng.random() < 0.5:
                w.query_all()
        w.query_all()
        # ---- closing oracle: after the random history, host 0 introduces two nodes that do not know each other ---------
        pairs = [(a, b) for a in range(1, nh) for b in range(1, nh) if a != b
                 and a not in blacklisted and b not in blacklisted
                 and not knows(w, a, b) and not knows(w, b, a)]
        if pairs:
            R, P = rng.choice(pairs)
            ctx.count("random-oracle:run")
            w.set_pref(0, [P] + [k for k in range(nh) if k not in (0, P)])
            w.walk(P, hosts[0].wan, 0)
            ev1 = w.walk(R, hosts[0].wan, 0)
            named = set()
            for src, _d, data, out in ev1:
                if src == 0 and out.endswith(f":{R}"):
                    d = w.describe(data)
                    if d.startswith("resp"):
                        f = dict(t.split("=") for t in d.split()[1:])
                        named |= {f["li"], f["wi"], f"{ip2int(hosts[R].lan[0])}:{f['wi'].split(':')[1]}"}
            cause = diagnose(w, R, P, 0, named)
            handed = [a for a, _ in w.walkable(R, 0) if sa(a) in named]
            ev2 = []
            for a in handed:
                ev2 += w.walk(R, a, 0)
            w.query_all()
            cfg = {"klass": "random", "tR": hosts[R].typ, "tP": hosts[P].typ, "placement": "random", "style": "any",
                   "history": "random", "ncand": nh - 2, "ports": lay.port_policy, "same_port": lay.same_port}
            check_scripted(ctx, w, cfg, R, P, 0, ev1, ev2, handed, 0, cause, {"kind": "random", "seed": seed})
        else:
            ctx.count("random-oracle:no-unconnected-pair")
        nontrivial = any(o.startswith(("drop:filtered", "lan:")) for _, _, _, o in w.net.log)
        ctx.case(("random", seed), nontrivial)
        for _, _, _, o in w.net.log:
            ctx.count("net:" + o.split(":")[0] + (":" + o.split(":")[1] if o.startswith("drop") else ""))
        for k, v in w.kinds.items():
            ctx.count("msg:" + k, v)
        if w.e["catch"].records:
            ctx.count("handler-exception", len(w.e["catch"].records))
            ctx.disagree("a message handler raised on the real node: " + w.e["catch"].records[0][-300:],
                         {"kind": "random", "seed": seed})
        if use_model:
            batch.append((("random", seed), w.lines, w.expect))
    finally:
        w.close()


def discovery_restart_case(ctx: Ctx, cfg: dict):
    """IMPLEMENTATION-ONLY class (no model): all three nodes run the stock DiscoveryCommunity, whose subclass override of
    the old-style request handler replaces lazy_wrapper.  The introduced peer restarts behind a renewed NAT mapping
    (same key, fresh Network) and re-bootstraps with an old-style request; its follow-up similarity request — the first
    lazy_wrapper-handled packet from the new mapping — is lost.  Then the scripted introduction and the usual oracle."""
    import random as _random
    from ipv8.peerdiscovery.community import DiscoveryCommunity
    from ipv8.peerdiscovery.payload import SimilarityRequestPayload
    rng = _random.Random(cfg["seed"])
    w = World()
    try:
        w.overlay_classes = [DiscoveryCommunity]
        logging.getLogger("DiscoveryCommunity").addHandler(w.e["catch"])
        logging.getLogger("DiscoveryCommunity").propagate = False
        lay = Layout(rng, cfg["ports"], cfg["same_port"])
        pl = cfg["placement"]
        I = w.add_host(*lay.public_host(), "none")
        R = w.add_host(*(lay.public_host() if pl in ("public", "rPub") else lay.boxed_host(lay.new_box())), cfg["tR"])
        P = w.add_host(*lay.boxed_host(lay.new_box()), cfg["tP"])
        hosts = w.net.hosts
        for h in hosts:
            w.set_pref(h.idx, [k for k in range(3) if k != h.idx])
        w.set_pref(I, [P, R])
        iaddr = hosts[I].wan
        w.walk(P, iaddr, 0)                                   # first session of the introduced peer
        w.remap(P, *new_mapping(lay, w, P, False))            # it restarts: new socket -> new mapping, fresh Network
        w.restart(P)
        w.net.lose = lambda h, d, data: h.idx == P and len(data) > 22 and data[22] == SimilarityRequestPayload.msg_id
        w.walk(P, iaddr, 0)                                   # re-bootstrap; the similarity request that follows is lost
        ev1 = w.walk(R, iaddr, 0)
        named = set()
        for src, _d, data, out in ev1:
            if src == I and out.endswith(f":{R}"):
                d = w.describe(data)
                if d.startswith("resp"):
                    f = dict(t.split("=") for t in d.split()[1:])
                    named |= {f["li"], f["wi"], f"{ip2int(hosts[R].lan[0])}:{f['wi'].split(':')[1]}"}
        handed = [a for a, _ in w.walkable(R, 0) if sa(a) in named]
        ev2 = []
        for a in handed:
            ev2 += w.walk(R, a, 0)
        ev1 = [e for e in ev1 if e[2][22] in (246, 245, 250, 249, 234, 233, 232, 231)]
        ev2 = [e for e in ev2 if e[2][22] in (246, 245, 250, 249, 234, 233, 232, 231)]
        ctx.count("class:discovery-restart")
        check_scripted(ctx, w, dict(cfg, klass="discovery-restart", history="normal", ncand=1), R, P, I, ev1, ev2, handed, 0,
                       None, {"kind": "discovery-restart", "cfg": cfg})
        ctx.case(("discovery-restart", tuple(sorted(cfg.items()))), True)
    finally:
        w.net.lose = None
        w.close()


def lan_table_check(ctx: Ctx, use_model: bool, batch: list):
    """address_in_lan_subnets on boundary and random addresses: implementation vs RFC 1918 (oracle) vs model"""
    env = World.env()
    w = World()
    try:
        w.add_host(("1.1.1.1", 1), ("1.1.1.1", 1), 0, "none")
        node = w.net.hosts[0].node
        ips = set()
        for base in ("10.0.0.0", "172.16.0.0", "192.168.0.0", "11.0.0.0", "172.32.0.0", "192.169.0.0", "9.255.255.255",
                     "172.15.255.255", "192.167.255.255", "0.0.0.0", "255.255.255.255", "128.0.0.0", "100.64.0.0"):
            b = ip2int(base)
            for d in (-2, -1, 0, 1, 2, 255, 256, 65535, 65536, 1 << 20, (1 << 20) - 1, (1 << 24) - 1):
                ips.add((b + d) % (1 << 32))
        for _ in range(ctx.scale(400, 4000)):
            ips.add(ctx.rng.randrange(1 << 32))
        for n in sorted(ips):
            got = bool(node.address_in_lan_subnets(int2ip(n)))
            if got != is_private(n):
                ctx.oracle_fail("address_in_lan_subnets:rfc1918",
                                f"address_in_lan_subnets({int2ip(n)}) = {got}, RFC 1918 says {is_private(n)}",
                                {"kind": "lan", "ip": int2ip(n)})
            w.lines.append(f"inlan {n}")
            w.expect.append("true" if got else "false")
            ctx.count("inlan:" + str(got))
        ctx.case(("lan-table",), True)
        ctx.extra["lan_table_lookups"] = len(ips)
        if use_model:
            batch.append((("lan-table", None), w.lines, w.expect))
    finally:
        w.close()
    del env


def flush(ctx: Ctx, batch: list):
    if not batch:
        return
    lines = [ln for _, ls, _ in batch for ln in ls]
    replies = ctx.driver().batch(lines)
    start = 0
    for tag, ls, ex in batch:
        mine = replies[start:start + len(ls)]
        start += len(ls)
        for ln, want, rep in zip(ls, ex, mine):
            got = canon(rep, want)
            if got != want:
                ctx.disagree(f"{tag[0]}: model and implementation differ on `{ln}`: model {got[:600]!r} / implementation {want[:600]!r}",
                             {"kind": tag[0], "cfg": tag[1], "line": ln, "model": got, "impl": want})
                break
    batch.clear()


# further scenario classes: (placements, styles) each is run over, with history "normal"
CLASSES = {
    "lan-collision": (["same", "diff"], ("old", "new")),    # requester already knows a peer with the introduced peer's LAN address
    "foreign-entry": (["diff", "same", "public"], ("old", "new")),  # address first introduced through another overlay
    "bootstrap": (PLACEMENTS, ("old",)),                     # the introducer is a blacklisted bootstrap server
    "own-machine": (["public", "diff"], ("old", "new")),     # introducer behind a NAT, introduced peer on its machine
    "capacity": (["diff", "same"], ("old",)),                # introducer holds exactly max_peers peers
    "remap-introduced": (["diff", "same", "rPub"], ("old", "new")),   # introduced peer's NAT mapping renewed, it re-contacts I
    "remap-requester": (["diff", "same", "pPub"], ("old", "new")),    # requester's NAT mapping renewed while known to I
    "roam-requester": (["diff", "same", "pPub"], ("old", "new")),     # requester moves to another public ip
    "churn": (["diff", "same", "rPub"], ("old", "new")),              # unlimited introducer drops + re-verifies the peer
    "stale-estimate": (["same"], ("old", "new")),     # known finding 3: P roams, refreshed at I through the other overlay only
    "lan-change": (["diff", "pPub"], ("old", "new")),  # known finding 4: P moves into R's LAN, my_estimated_lan is cached
    "port-reuse": (["diff", "same", "pPub"], ("old", "new")),   # a released WAN port of another peer is given to the requester
    "restart": (["diff", "same", "public"], ("old", "new")),
    "odd-lan": (["same", "diff"], ("old", "new")),     # LAN numbered outside RFC 1918 (carrier-grade NAT, other address space)
    "tracker": (PLACEMENTS, ("old",)),                 # the introducer is scripts/tracker_service.py (answers under the requester's prefix)
    "peer-limit": (["diff", "same"], ("old", "new")),  # introduced peer at max_peers in this overlay, more peers in the other
    "strategy": (["diff", "same", "rPub"], ("old", "new")),   # contact attempt by the stock RandomWalk incl. its time-outs           # requester restarts from its snapshot (addresses without introducer)
}


def table_cfgs(rng, variants: int, placements=PLACEMENTS, history="normal", styles=("old", "new"), klass="std",
               thin: bool = False):
    """every (requester type, introduced type, placement, style); `thin` (quick tier): one of the two styles per
    (types, placement), alternating — every NAT type pair x placement still occurs, each style in half of them"""
    for a, tR in enumerate(TYPES):
        for b, tP in enumerate(TYPES):
            for c, pl in enumerate(placements):
                for style in (styles if not thin or len(styles) == 1 else (styles[(a + b + c) % 2],)):
                    for _v in range(variants):
                        yield {"klass": klass,
                               "tR": tR, "tP": tP, "placement": pl, "style": style, "history": history,
                               "ncand": rng.randrange(1, 6), "ports": rng.choice(["preserve", "remap"]),
                               "same_port": rng.random() < 0.5, "collide": rng.random() < 0.4,
                               "noise": rng.random() < 0.3, "r_first": rng.random() < 0.34, "seed": rng.randrange(1 << 30),
                               "overlays": "other-first" if klass == "std" and rng.random() < 0.3 else "single",
                               "ages": [rng.choice(AGES) for _ in range(8)] if rng.random() < 0.6 else []}


def run(ctx: Ctx):
    if ctx.replay_input is not None:
        return replay(ctx, ctx.replay_input)
    batch: list = []
    use_model = ctx.model_ok
    lan_table_check(ctx, use_model, batch)
    # every way the introducer can have learned the candidates (HISTORIES) x the whole configuration table
    quick = not ctx.thorough()
    for hist in HISTORIES:
        # quick: the normal history over the whole table, the other four thinned (one style per types x placement)
        for cfg in table_cfgs(ctx.rng, ctx.scale(1, 4), history=hist, thin=quick and hist != "normal"):
            scripted(ctx, cfg, use_model, batch)
            if len(batch) >= 200:
                flush(ctx, batch)
    for klass, (pls, styles) in CLASSES.items():
        for cfg in table_cfgs(ctx.rng, ctx.scale(1, 3), placements=pls, styles=styles, klass=klass, thin=quick):
            scripted(ctx, cfg, use_model, batch)
            if len(batch) >= 200:
                flush(ctx, batch)
    # implementation-only: the stock DiscoveryCommunity (subclass override of the request handler), restart + loss
    for tR in TYPES:
        for tP in TYPES:
            for pl in ("diff", "rPub"):
                discovery_restart_case(ctx, {"tR": tR, "tP": tP, "placement": pl, "style": "old", "ports": "remap",
                                             "same_port": ctx.rng.random() < 0.5, "seed": ctx.rng.randrange(1 << 30)})
    if ctx.thorough():
        # exhaustive small scope: every configuration x every candidate count x port policy x history
        for hist in HISTORIES:
            for base in table_cfgs(ctx.rng, 1, history=hist):
                for ncand in range(1, 6):
                    for ports in ("preserve", "remap"):
                        cfg = dict(base, ncand=ncand, ports=ports, seed=ctx.rng.randrange(1 << 30))
                        scripted(ctx, cfg, use_model, batch)
                        ctx.count("exhaustive-scope")
                        if len(batch) >= 200:
                            flush(ctx, batch)
    for _ in range(ctx.scale(40, 2000)):
        random_history(ctx, ctx.rng.randrange(1 << 30), use_model, batch)
        if len(batch) >= 200:
            flush(ctx, batch)
    flush(ctx, batch)
    sample_trace(ctx)
    for k, v in BRANCHES.items():
        ctx.count("branch:" + k, v)
    have = dict(ctx.counts)
    missing = [b for b in REQUIRED_BRANCHES
               if not (have.get("branch:" + b) or have.get(b))]
    ctx.extra["required_branch_classes"] = len(REQUIRED_BRANCHES)
    ctx.extra["missing_branch_classes"] = missing
    import vlib
    known_sigs = {k.get("signature") for k in vlib.load_known_findings()
                  if k.get("property") == PROPERTY and k.get("status") == "known"}
    new_failures = [f for f in ctx.failures if f["signature"] not in known_sigs]
    if missing and not new_failures and not ctx.disagreements and not ctx.broken:
        from vlib import InfraError
        raise InfraError("coverage lost: branch classes never reached in this run: " + ", ".join(missing))


def sample_trace(ctx: Ctx):
    import random as _random
    cfg = {"tR": "portRestricted", "tP": "portRestricted", "placement": "diff", "style": "old", "history": "normal",
           "ncand": 2, "ports": "remap", "same_port": True, "collide": True, "noise": False, "r_first": False, "seed": 7,
           "overlays": "other-first", "ages": [2 ** 32 + 5, 70000, 65534], "klass": "std"}
    sub = Ctx(ctx.prop, ctx.tier, 0)
    w = scripted(sub, cfg, False, [])
    ops = [(ln, ex) for ln, ex in zip(w.lines, w.expect) if ln.startswith(("walk", "ask"))][:6]
    ctx.sample({"cfg": cfg, "setup_lines": [ln for ln in w.lines if ln.startswith(("host", "clock"))],
                "operations": [{"line": ln, "trace (implementation = model)": ex} for ln, ex in ops]})
    del _random


def search(ctx: Ctx, reason: str):
    """implementation-only, after an obligation broke and the normal run found nothing: the tables once more with fresh
    variants.  A fixed number of cases (every scripted class once, thinned: well under a minute)."""
    lan_table_check(ctx, False, [])
    for klass, (pls, styles) in CLASSES.items():
        for cfg in table_cfgs(ctx.rng, 1, placements=pls, styles=styles, klass=klass, thin=True):
            scripted(ctx, cfg, False, [])
            if len(ctx.failures) >= 20:
                return


def replay(ctx: Ctx, rec: dict):
    r = rec.get("replay", rec)
    if r.get("kind") == "lan":
        w = World()
        try:
            w.add_host(("1.1.1.1", 1), ("1.1.1.1", 1), 0, "none")
            got = bool(w.net.hosts[0].node.address_in_lan_subnets(r["ip"]))
        finally:
            w.close()
        want = is_private(ip2int(r["ip"]))
        print(f"replay: address_in_lan_subnets({r['ip']}) = {got}; RFC 1918: {want}; property {'holds' if got == want else 'FAILS'}")
        if got != want:
            ctx.oracle_fail("replay", "replayed input still fails", r)
        ctx.case(("replay",), True)
        return
    if r.get("kind") == "discovery-restart":
        discovery_restart_case(ctx, r["cfg"])
        print("replay of discovery-restart", r["cfg"], ": property",
              "FAILS: " + "; ".join(f["what"] for f in ctx.failures[:4]) if ctx.failures else "holds")
        return
    if r.get("kind") == "random":
        random_history(ctx, r["seed"], False, [])
        print(f"replay of random history seed={r['seed']}: property",
              "FAILS: " + "; ".join(f["what"] for f in ctx.failures[:4]) if ctx.failures else "holds")
        return
    cfg = r["cfg"]
    w = scripted(ctx, cfg, False, [])
    print("replay of", cfg)
    for ln, ex in zip(w.lines, w.expect):
        if ln.startswith(("walk", "ask")):
            print(" ", ln)
            for ev in (ex or "").split(" ; "):
                print("      ", ev)
    print("property", "FAILS: " + "; ".join(f["what"] for f in ctx.failures[:4]) if ctx.failures else "holds")
