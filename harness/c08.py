"""
C08 — circuit hops are only keyed with the peer the originator chose.

Link to the code (every run):
  * translator tools/gen_c08.py regenerates lean/Ipv8/C08/GenCrypto.lean (the two key-agreement functions of
    TunnelCrypto, AST -> Lean) and checks the Create/Created/Extend/Extended payload layouts;
  * correspondence: real TunnelCommunity nodes on the repo's mock network under a virtual clock.  Every tunnel cell is
    held by the harness (it is the network), which delivers, drops, duplicates, reorders, rewrites or forges cells
    according to a scenario.  Every handler invocation (on_create / on_created / on_extend / on_extended), every
    timeout sweep and every API retry is abstracted to one line of the model's protocol (real byte strings are
    mapped to symbols with the REAL crypto: which DH pair a MAC verifies under, which secret a session key derives
    from, which key a blob decrypts under), the model (drv_c08) is run on the same lines and its emitted messages and
    node state (circuits with hop list / unverified hop / retry cache; created / create caches; exit sockets; relay
    routes) are compared with the real node after every step;
  * oracle (independent of the model), on the real originator after every delivery:
      - established hops never change (same objects, peers, key bytes), at most one hop is appended;
      - a hop is appended only by a created/extended answer for that circuit whose identifier is the one of the
        outstanding (not timed out) attempt, whose auth verifies under DH(x, key) for the ephemeral x of that attempt,
        and the new hop names the selected peer and is keyed with KDF(DH(x,key) || DH(x, B_selected));
      - nobody but the selected peer holds those keys (the attacker's own derivations are compared);
      - genuine answer => both ends hold identical keys and a cell encrypted by one side decrypts at the other;
      - undisturbed build => READY, hops = selected peers in order;
      - after EVERY later step (replays after cache expiry, late answers at relays, timeouts): the selected peer still
        holds the originator's keys for every established hop and every relay still routes it to the selected node;
      - end of scenario: every regularly established READY circuit carries a request to its last hop and back.
"""
from __future__ import annotations

import asyncio
import logging
import random as _random
import struct

import gen_c08
import vclock
from vlib import Ctx, InfraError

PROPERTY = "C08"
LEAN_TARGETS = ["Ipv8.C08.Props"]
PROPS_FILE = "Ipv8/C08/Props.lean"
DRIVER = "drv_c08"
RULE = ("scenario = (hop count 1..3, attacked position, attacker kind {network on a plaintext link, malicious relay, "
        "other responder}, manipulation, follow-up {none, genuine after, genuine before, forged twice}) enumerated as a cross product "
        "plus replays of all handshake cells before/after cache expiry, late answers at the relay after a retry, "
        "API re-targets of a pending hop, rewritten/forged CREATEs (incl. towards the originator under its own id), a next "
        "hop squatting on the relay's outgoing circuit id, several nodes originating at once, required exits on "
        "multi-hop circuits, "
        "remove_tunnel_delay in {0, default}, seeded random schedules (reorder/duplicate/drop/late/timeouts/API "
        "retries/two circuits); a case = one "
        "delivered cell or timeout sweep or API call; distinct = distinct (scenario descriptor, step index); "
        "non-trivial = the step reached a create/created/extend/extended handler or fired a cache timeout")
TRUSTED_BASE = [
    "tools/gen_c08.py: AST translation of TunnelCrypto.generate_diffie_shared_secret / verify_and_generate_shared_secret",
    "hand-written model of send_initial_create/send_extend/on_created/on_extended/_ours_on_created_extended/"
    "RetryRequestCache.on_timeout/on_create/join_circuit/on_extend (Ipv8/C08/Model.lean), tied by the correspondence run",
    "harness abstraction of real bytes to symbols (uses ipv8_rust_tunnels crypto_auth / X25519 / HKDF directly)",
    "ipv8_rust_tunnels (X25519, HMAC, HKDF, ChaCha20-Poly1305) — hardness is outside the model: symbolic DH, "
    "collision-free MAC/KDF as hypotheses (Laws)",
    "onion layering/relaying of EXTEND/EXTENDED cells between originator and last hop (property C04/C05)",
]
ASSUMPTIONS = [
    "symbolic DH: a DH value can only be computed by a holder of one of its two secrets (Derivable)",
    "Laws C: MAC and KDF collision-free, AEAD decrypts what it encrypted (satisfied by the free instance)",
    "fresh ephemerals/identifiers: the originator draws a new ephemeral per attempt (checked on every run: "
    "a repeated ephemeral is reported as a correspondence disagreement)",
    "16-bit identifier collisions are inputs of the model (theorems cover them through the MAC check)",
    "the crypto layer (PythonCryptoEndpoint) listens on every interface of the node's endpoint and hands EXTEND/EXTENDED "
    "to the community only after they decrypted under the circuit's keys: modelled as deliverCell, tied by raw-inject "
    "scenarios on dual-stack nodes; the onion layering itself is property C04",
    "joined-side stability (Props section 6) is about the modelled events of `Ev` (twelve); explicit removals of exit sockets / "
    "relay routes (destroy, inactivity sweep, unload) are not events of this model (C05/C09/C11)",
    "a node that also relays: the .created rejection theorems assume its CreateRequestCache does not claim the "
    "identifier (the relay branch of on_created is tried first); accept_requires needs no such assumption",
]

FORWARD, BACKWARD = 0, 1
KEYLOG: list = []
_PATCHED = {}


# ------------------------------------------------------------------------------------------------------------------
def _imports():
    from ipv8.keyvault.private.openssl import OpenSSLSK
    from ipv8.messaging.anonymization import community as comm
    from ipv8.messaging.anonymization import payload as pl
    from ipv8.messaging.anonymization import tunnel as tn
    from ipv8.messaging.serialization import default_serializer
    from ipv8.test.mocking import endpoint as mep
    from ipv8.test.mocking.ipv8 import MockIPv8
    import ipv8_rust_tunnels as rt
    return OpenSSLSK, comm, pl, tn, mep, MockIPv8, rt, default_serializer


def _patch_keygen(OpenSSLSK):
    if "gen" in _PATCHED:
        return
    orig = OpenSSLSK.generate

    def generate(curve_name):
        k = orig(curve_name)
        if curve_name == "curve25519":
            KEYLOG.append(k)
        return k
    _PATCHED["gen"] = orig
    OpenSSLSK.generate = staticmethod(generate)


def _unpatch_keygen():
    if "gen" in _PATCHED:
        from ipv8.keyvault.private.openssl import OpenSSLSK
        OpenSSLSK.generate = staticmethod(_PATCHED.pop("gen"))


def canon(b: bytes) -> bytes:
    return b[:31] + bytes([b[31] & 0x7F])


class Sym:
    """real bytes -> symbols of the model (computed with the real primitives)"""

    def __init__(self, rt, OpenSSLSK):
        self.rt = rt
        self.probe = _PATCHED["gen"]("curve25519")
        self.pt_by = {}          # canonical 32 bytes -> pt
        self.raw = {}            # raw 32 bytes -> (pt, enc)
        self.priv = {}           # pt -> private key object
        self.bin_by = {}         # key_to_bin -> pt (static keys)
        self.next_pt = 100
        self.keylog_pos = 0
        self.dhc = {}
        self.bad = {}
        self.tags = {}
        self.sess = {}           # key_forward -> (secret bytes | None, sym)
        self.blobs = {}
        self.junk = 0
        self.statics = []

    def reg_static(self, pt, key):
        pk = key.pub().get_crypt_pk()
        self.pt_by[canon(pk)] = pt
        self.raw[pk] = (pt, 0)
        self.priv[pt] = key
        self.bin_by[key.pub().key_to_bin()] = pt
        self.statics.append(pt)

    def reg_priv(self, key) -> int:
        pk = key.get_crypt_pk()
        c = canon(pk)
        if c in self.pt_by:
            pt = self.pt_by[c]
            self.priv.setdefault(pt, key)
            return pt
        pt = self.next_pt
        self.next_pt += 1
        self.pt_by[c] = pt
        self.raw[pk] = (pt, 0)
        self.priv[pt] = key
        return pt

    def learn(self):
        while self.keylog_pos < len(KEYLOG):
            self.reg_priv(KEYLOG[self.keylog_pos])
            self.keylog_pos += 1

    def is_bad(self, b: bytes) -> bool:
        if len(b) != 32:
            return True
        if b not in self.bad:
            try:
                self.probe.diffie_hellman(b)
                self.bad[b] = False
            except ValueError:
                self.bad[b] = True
        return self.bad[b]

    def wire(self, b: bytes):
        """(pt, enc) or None for malformed key bytes"""
        self.learn()
        if self.is_bad(b):
            return None
        if b in self.raw:
            return self.raw[b]
        c = canon(b)
        if c not in self.pt_by:
            self.pt_by[c] = self.next_pt
            self.next_pt += 1
            self.raw.setdefault(c, (self.pt_by[c], 0))
        pt = self.pt_by[c]
        enc = 0 if b == c else 1
        self.raw[b] = (pt, enc)
        return self.raw[b]

    def wire_s(self, b: bytes) -> str:
        w = self.wire(b)
        return "bad" if w is None else f"{w[0]}.{w[1]}"

    def static_of_bin(self, key_bin: bytes) -> int:
        return self.bin_by.get(key_bin, 0)

    def dh(self, pt: int, raw: bytes) -> bytes:
        k = (pt, raw)
        if k not in self.dhc:
            self.dhc[k] = self.priv[pt].diffie_hellman(raw)
        return self.dhc[k]

    @staticmethod
    def dhs(a: int, b: int) -> str:
        return f"{min(a, b)}.{max(a, b)}"

    def tag(self, auth: bytes, key_field: bytes) -> str:
        self.learn()
        if auth in self.tags:
            return self.tags[auth]
        msgs = [key_field] if not self.is_bad(key_field) else []
        msgs += [m for m in self.raw if m != key_field]
        res = None
        for m in msgs:
            for a in self.priv:
                for w in list(self.raw):
                    if self.rt.crypto_auth(self.dh(a, w)[:32], m) == auth:
                        res = f"M/{self.dhs(a, self.raw[w][0])}/{self.wire_s(m)}"
                        break
                if res:
                    break
            if res:
                break
        if res is None:
            self.junk += 1
            res = f"J/{self.junk}"
        self.tags[auth] = res
        return res

    def reg_tag(self, auth: bytes, sym: str):
        self.tags[auth] = sym

    def session(self, keys) -> str:
        self.learn()
        kf = keys.key_forward
        if kf in self.sess:
            return self.sess[kf][1]
        res = None
        raws = list(self.raw)
        stat_raws = [r for r in raws if self.raw[r][0] in self.statics and self.raw[r][1] == 0]
        for a in self.priv:
            for w1 in raws:
                for w2 in stat_raws + [w1]:
                    sec = self.dh(a, w1) + self.dh(a, w2)
                    k = self.rt.generate_session_keys(sec)
                    if k.key_forward == kf and k.key_backward == keys.key_backward:
                        res = (sec, f"{self.dhs(a, self.raw[w1][0])}+{self.dhs(a, self.raw[w2][0])}")
                        break
                if res:
                    break
            if res:
                break
        if res is None:
            self.junk += 1
            res = (None, f"9999.{self.junk}")          # an unknown secret: never equal to a model secret
        self.sess[kf] = res
        return res[1]

    def reg_secret(self, sec: bytes, sym: str):
        k = self.rt.generate_session_keys(sec)
        self.sess[k.key_forward] = (sec, sym)

    def blob(self, data: bytes, unpack, cand_sym=None) -> str:
        if data in self.blobs:
            return self.blobs[data]
        res = None
        for sec, sym in list(self.sess.values()):
            if sec is None:
                continue
            try:
                plain = self.rt.generate_session_keys(sec).decrypt_str(data, FORWARD)
                lst = unpack(plain)
                res = f"E/{sym}/[{','.join(str((cand_sym or self.static_of_bin)(b)) for b in lst)}]"
                break
            except Exception:
                continue
        if res is None:
            self.junk += 1
            res = f"J/{self.junk}"
        self.blobs[data] = res
        return res


class Held:
    __slots__ = ("src", "dst", "data", "seq", "kind", "cid", "from_idx", "via")

    def __init__(self, src, dst, data, seq, kind, cid, from_idx, via=None):
        self.src, self.dst, self.data, self.seq, self.kind, self.cid, self.from_idx = src, dst, data, seq, kind, cid, from_idx
        self.via = via          # the interface endpoint the datagram arrives on (None: the node's only / IPv4 one)


class Proxy:
    def __init__(self, world, idx, ep):
        self.world, self.idx, self.ep = world, idx, ep

    def notify_listeners(self, packet):
        self.world.on_wire(self.idx, packet, self.ep)


class World:
    """a set of real TunnelCommunity nodes whose tunnel cells are held by the harness"""

    def __init__(self, ctx: Ctx, rng, n_relays: int, n_exits: int, desc: str, rtd=0, nht=None, hidden=False,
                 gated=False):
        (self.OpenSSLSK, self.comm, self.pl, self.tn, self.mep, self.MockIPv8, self.rt, self.ser) = _imports()
        self.ctx, self.rng, self.desc = ctx, rng, desc
        self.nodes = []
        self.pending: list[Held] = []
        self.seq = 0
        self.step_no = 0
        self.calls = []          # handler invocations during the current step: (idx, msg_id, payload)
        self.sent = []           # send_cell invocations during the current step: (idx, target_addr, payload)
        self.raised = 0
        self.lines = []          # model protocol lines
        self.expect = []         # expected replies (None = do not compare)
        self.attempts = {}       # cid -> list of dicts (originator attempts)
        self.emitted_created = {}  # key bytes -> (node idx, cid, auth, cands)
        self.tracked = {}        # node idx -> sorted list of ids (mirrors the driver)
        self.attacker_keys = []
        self.forged_keys = set()
        self.accepts = 0
        self.history = []        # every cell delivered so far (dst, src, bytes) — material for replays
        self.established = {}    # (cid, k) -> responder end of a hop accepted with genuine material
        self.nongenuine = set()  # circuits with a hop accepted on non-genuine material (no agreement expected)
        # nodes that run on a DispatcherEndpoint with an IPv4 and an IPv6 interface (the default production layout)
        self.dual = set(desc.get("dual", ())) if isinstance(desc, dict) else set()
        self.v6 = {}
        self.gated = set()       # nodes whose should_join_circuit (documented override hook) really suspends
        self.gates = []          # (node idx, future) of joins suspended in that hook, oldest first
        self.joins = []          # join_circuit invocations during the current step: (idx, create payload)
        self.adversaries = set()
        self.pending_accept = None
        self.squatter_on_path = False   # a hop of the victim circuit misbehaves itself (it may then drop traffic at will)
        self.tampered = False    # the harness altered / forged / redirected something (else: delays, drops, replays only)
        self.slice = 5.0   # recomputed from the nodes' settings below
        self.sym = Sym(self.rt, self.OpenSSLSK)
        st = self.tn.PEER_FLAG_SPEED_TEST
        flags = [{self.tn.PEER_FLAG_RELAY, st}]
        flags += [{self.tn.PEER_FLAG_RELAY, st}] * n_relays
        flags += [{self.tn.PEER_FLAG_RELAY, self.tn.PEER_FLAG_EXIT_BT, st}] * n_exits
        if desc.get("extra_nodes"):
            # a node that does not take part at all (no flags) and an exit that does not relay
            flags += [set(), {self.tn.PEER_FLAG_EXIT_BT, st}]
        self.flags = flags
        if hidden:
            # the shipped subclass (hidden services): same handshake code path through its overrides
            from ipv8.messaging.anonymization.hidden_services import HiddenTunnelCommunity, HiddenTunnelSettings
            community_cls, settings_cls = HiddenTunnelCommunity, HiddenTunnelSettings
        else:
            community_cls, settings_cls = self.comm.TunnelCommunity, self.comm.TunnelSettings
        ctx.count("overlay-class:" + community_cls.__name__)
        for i, fl in enumerate(flags):
            s = settings_cls()
            s.min_circuits = 0
            s.max_circuits = 0
            if rtd is not None:
                s.remove_tunnel_delay = rtd         # None: the shipped default (5 s)
            if nht is not None and i == 0:
                s.next_hop_timeout = nht            # same number of tries as the default 60 // 10
                s.circuit_timeout = nht * (self.comm.TunnelSettings.circuit_timeout
                                           // self.comm.TunnelSettings.next_hop_timeout)
            s.peer_flags = set(fl)
            if i in self.dual:
                n = self._dualstack_node(community_cls, s, i)
            else:
                n = self.MockIPv8("curve25519", community_cls, settings=s)
            if hidden:
                n.overlay.ipv8 = n
            n.overlay.cancel_all_pending_tasks()
            self.nodes.append(n)
            self.sym.reg_static(i + 1, n.my_peer.key)
            self.tracked[i] = []
        self.sym.keylog_pos = len(KEYLOG)
        # cache lifetimes, read from the running code: retry cache (next_hop_timeout), created cache (unstable_timeout),
        # create cache (RandomNumberCache default).  A slice is shorter than half the shortest lifetime.
        from ipv8.requestcache import NumberCache
        self.life_retry = float(self.nodes[0].overlay.settings.next_hop_timeout)
        self.life_created = max(float(n.overlay.settings.unstable_timeout) for n in self.nodes)
        try:
            self.life_create = float(NumberCache.timeout_delay.fget(None))
        except Exception:  # noqa: BLE001  (a getter that needs an instance: fall back to the documented default)
            self.life_create = 10.0
        self.slice = 0.45 * min(self.life_retry, self.life_created, self.life_create)
        self.prefix = self.nodes[0].overlay.get_prefix()
        self.addr_idx = {}
        for i, n in enumerate(self.nodes):
            if i in self.dual:
                for ep in n.endpoint.interfaces.values():
                    self.mep.internet[ep.wan_address] = Proxy(self, i, ep)
                    self.addr_idx[ep.wan_address] = i
            else:
                for a in (n.endpoint.wan_address, n.endpoint.lan_address):
                    self.mep.internet[a] = Proxy(self, i, n.endpoint)
                    self.addr_idx[a] = i
            self._hook(i, n.overlay)
            if gated and i != 0:
                self._gate(i, n.overlay)
        self.lines.append("reset")
        self.expect.append(None)
        for i, fl in enumerate(flags):
            self.lines.append(f"node {i} {i + 1} {1 if fl else 0} {1 if self.tn.PEER_FLAG_RELAY in fl else 0}")
            self.expect.append(None)

    # ---- plumbing ------------------------------------------------------------------------------------------
    def _hook(self, idx, ov):
        classes = {2: self.pl.CreatePayload, 3: self.pl.CreatedPayload, 4: self.pl.ExtendPayload,
                   5: self.pl.ExtendedPayload}
        for mid, cls in classes.items():
            orig = ov.decode_map_private[mid]

            def wrapper(source_address, data, circuit_id=None, _orig=orig, _cls=cls, _mid=mid):
                try:
                    payload, _ = ov.serializer.unpack_serializable(_cls, data, offset=23)
                    self.calls.append((idx, _mid, payload, source_address))
                    self.classify(idx, ov, _mid, payload)
                except Exception:
                    self.calls.append((idx, _mid, None, source_address))
                return _orig(source_address, data, circuit_id)
            ov.decode_map_private[mid] = wrapper
        orig_send = ov.send_cell

        def send_cell(target_addr, payload, _orig=orig_send):
            self.sent.append((idx, target_addr, payload))
            return _orig(target_addr, payload)
        ov.send_cell = send_cell

    def classify(self, idx, ov, mid, p):
        """which branch of the handler this call is going to take, read from the node's state BEFORE it runs (branch
        classes of the hand-written model definitions; the required ones are checked at the end of every run)"""
        c = self.ctx.count
        rc = ov.request_cache
        if mid == 2:
            if not ov.settings.peer_flags:
                c("branch:on_create:no-flags")
            elif rc.has("created", p.circuit_id):
                c("branch:on_create:already-joining")
            elif p.circuit_id in ov.circuits:
                c("branch:on_create:id-in-use-circuit")
            elif p.circuit_id in ov.relay_from_to:
                c("branch:on_create:id-in-use-relay")
            elif p.circuit_id in ov.exit_sockets:
                c("branch:on_create:id-in-use-exit")
            elif self.sym.is_bad(p.key):
                c("branch:on_create:malformed-key")
            else:
                c("branch:on_create:" + ("join-suspended" if idx in self.gated else "join"))
        elif mid == 4:
            cc = rc.get("created", p.circuit_id)
            given = tuple(p.node_addr) != ("0.0.0.0", 0)
            if self.tn.PEER_FLAG_RELAY not in ov.settings.peer_flags:
                c("branch:on_extend:no-relay-flag")
            elif cc is None:
                c("branch:on_extend:no-created-cache")
            elif p.node_public_key not in cc.candidates and not given:
                c("branch:on_extend:unknown-key-no-address")
            else:
                c("branch:on_extend:forward-" + ("cached" if p.node_public_key in cc.candidates else "address"))
        else:
            req = rc.get("create", p.identifier) if mid == 3 else None
            if req is not None and req.to_circuit_id == p.circuit_id:
                es = ov.exit_sockets.get(req.from_circuit_id)
                if es is None or es.hop.peer is not req.peer:
                    c("branch:pairing:unknown-exit-socket")
                elif any(req.to_circuit_id in t for t in (ov.circuits, ov.relay_from_to, ov.exit_sockets)):
                    c("branch:pairing:outgoing-id-in-use")
                else:
                    c("branch:pairing:paired")
                return
            if req is not None:
                c("branch:pairing:other-circuit-id")
            cache = rc.get("retry", p.circuit_id)
            circ = ov.circuits.get(p.circuit_id)
            if circ is None:
                c("branch:answer:no-circuit")
            elif cache is None:
                c("branch:answer:no-retry-cache")
            elif cache.packet_identifier != p.identifier:
                c("branch:answer:wrong-identifier")
            elif circ.unverified_hop is None:
                c("branch:answer:no-unverified-hop")
            elif self.sym.is_bad(p.key):
                c("branch:answer:malformed-key")
            else:
                ok = False
                try:
                    s1 = circ.unverified_hop.dh_secret.diffie_hellman(p.key)
                    ok = self.rt.crypto_auth_verify(p.auth, s1[:32], p.key)
                except Exception:  # noqa: BLE001
                    ok = False
                if not ok:
                    c("branch:answer:bad-auth")
                elif len(circ.hops) + 1 >= circ.goal_hops:
                    c("branch:answer:accept-ready")
                else:
                    self.pending_accept = (idx, p.circuit_id, self.blob_s(p.candidates_enc).startswith("J/"))
                    c("branch:answer:accept-extending")

    def classify_after_accept(self):
        """EXTENDING continuation of an accepted answer: what became of the candidate list"""
        if self.pending_accept is None:
            return
        idx, cid, undecodable = self.pending_accept
        self.pending_accept = None
        ov = self.nodes[idx].overlay
        circ = ov.circuits.get(cid)
        if circ is None or circ.state == self.tn.CIRCUIT_STATE_CLOSING:
            self.ctx.count("branch:extend-after-accept:" + ("undecodable-list-circuit-dropped" if undecodable
                                                            else "no-candidate-circuit-dropped"))
        elif circ.unverified_hop is None:
            self.ctx.count("branch:extend-after-accept:send_extend-raised")
        elif circ.required_exit is not None and len(circ.hops) + 1 == circ.goal_hops:
            self.ctx.count("branch:extend-after-accept:required-exit")
        else:
            self.ctx.count("branch:extend-after-accept:candidate")

    def _dualstack_node(self, community_cls, settings, i: int):
        """a node on a real DispatcherEndpoint with an IPv4 and an IPv6 interface; both are in-memory endpoints"""
        from ipv8.keyvault.crypto import default_eccrypto
        from ipv8.messaging.interfaces.dispatcher import endpoint as dmod
        from ipv8.messaging.interfaces.udp.endpoint import UDPv4Address, UDPv6Address
        from ipv8.peer import Peer
        from ipv8.peerdiscovery.network import Network
        while True:
            a4 = UDPv4Address("10.%d.%d.%d" % (self.rng.randrange(1, 250), self.rng.randrange(250), i + 1),
                              self.rng.randrange(1024, 60000))
            a6 = UDPv6Address("fd00::%x:%x" % (self.rng.randrange(1, 0xFFFF), i + 1), self.rng.randrange(1024, 60000))
            if a4 not in self.mep.internet and a6 not in self.mep.internet:
                break

        def mk(a):
            ep = self.mep.MockEndpoint(a, a)
            ep.open()
            return ep
        saved = dict(dmod.INTERFACES)
        dmod.INTERFACES["UDPIPv4"] = lambda: mk(a4)
        dmod.INTERFACES["UDPIPv6"] = lambda: mk(a6)
        try:
            endpoint = dmod.DispatcherEndpoint(["UDPIPv4", "UDPIPv6"])
        finally:
            dmod.INTERFACES.clear()
            dmod.INTERFACES.update(saved)
        my_peer = Peer(default_eccrypto.generate_key("curve25519"), a4)
        fwd = community_cls.settings_class(my_peer=my_peer, endpoint=endpoint, network=Network())
        settings.__dict__.update(fwd.__dict__)
        overlay = community_cls(settings)
        overlay.my_estimated_wan = a4
        overlay.my_estimated_lan = a4
        endpoint.wan_address = a4          # convenience for the harness (the dispatcher itself has no address)
        endpoint.lan_address = a4
        self.v6[i] = a6

        class Shim:
            pass
        sh = Shim()
        sh.endpoint, sh.overlay, sh.my_peer, sh.network = endpoint, overlay, my_peer, overlay.network

        async def stop():
            for ep in endpoint.interfaces.values():
                ep.close()
            await overlay.unload()
        sh.stop = stop
        return sh

    async def inject_raw(self, idx, cell_bytes, iface, src, line):
        """a datagram that did NOT come out of anybody's onion encryption is handed to one interface of node idx; the
        handshake handlers that need an authentic cell (EXTEND, EXTENDED) must not be entered"""
        self.step_no += 1
        self.calls, self.sent = [], []
        before = self.snapshot()
        self.tampered = True
        ep = self.nodes[idx].endpoint.interfaces[iface] if idx in self.dual else self.nodes[idx].endpoint
        try:
            ep.notify_listeners((src, cell_bytes))
        except Exception as e:  # noqa: BLE001
            self.raised += 1
            self.ctx.count(f"deliver-raised:{type(e).__name__}")
        await self.settle()
        entered = [(i, m) for i, m, p, _s in self.calls if m in (4, 5)]
        self.ctx.count(f"raw-cell:{iface if idx in self.dual else 'single'}:" + ("HANDLED" if entered else "dropped"))
        if entered:
            self.ctx.oracle_fail("TunnelCommunity.on_cell:unauthenticated-cell-reached-handler",
                                 f"a cell that was not encrypted under the keys of the circuit it names was handed to "
                                 f"{'on_extend' if entered[0][1] == 4 else 'on_extended'} of node {idx + 1} "
                                 f"(interface {iface})", self.replay_of("unauthenticated cell reached a handler"))
        self._post()
        # the model drops it before any handler: nothing emitted, state unchanged
        self._record(f"{idx} raw {line}", "[] | " + self.state_s(idx))
        self.oracle_after(before, [])
        self.ctx.case((self.desc, self.step_no), True)

    def _gate(self, idx, ov):
        """override should_join_circuit (the hook is documented as meant to be overwritten) with a policy that really
        awaits: the join resumes only when the harness releases it; join_circuit invocations are recorded"""
        self.gated.add(idx)

        async def should_join_circuit(create_payload, previous_node_address):
            fut = asyncio.get_running_loop().create_future()
            self.gates.append((idx, fut))
            return await fut
        ov.should_join_circuit = should_join_circuit
        orig_join = ov.join_circuit

        def join_circuit(create_payload, previous_node_address, _orig=orig_join):
            self.joins.append((idx, create_payload))
            return _orig(create_payload, previous_node_address)
        ov.join_circuit = join_circuit

    async def release_join(self, which: int = 0, accept: bool = True):
        """let one suspended should_join_circuit return: one step of its own"""
        if not self.gates:
            return False
        idx, fut = self.gates.pop(which if which < len(self.gates) else 0)
        self.step_no += 1
        self.calls, self.sent, self.joins = [], [], []
        before = self.snapshot()
        fut.set_result(accept)
        await self.settle()
        self.note_sends()
        P = self.pl
        if not self.joins:
            # on_create's re-check after the await (fix 82c67e3) or the policy's "no" ended it before join_circuit
            self.ctx.count("join-resumed:" + ("refused-id-taken" if accept else "policy-declined"))
            self._record(f"{idx} show", "[] | " + self.state_s(idx))
        for jidx, p in self.joins:
            emitted = [q for i, t, q in self.sent if i == jidx and isinstance(q, P.CreatedPayload)
                       and q.circuit_id == p.circuit_id]
            y, offered = 0, "[]"
            if emitted:
                w = self.sym.wire(emitted[0].key)
                y = w[0] if w else 0
                b = self.blob_s(emitted[0].candidates_enc)
                offered = b.split("/")[2] if b.startswith("E/") else "[]"
            outs = ",".join(self.out_s(t, q) for i, t, q in self.sent if i == jidx)
            self.track(jidx, [p.circuit_id])
            self._record(f"{jidx} join {p.circuit_id} {p.identifier} {self.sym.static_of_bin(p.node_public_key)} "
                         f"{self.sym.wire_s(p.key)} {y} {offered}", f"[{outs}] | " + self.state_s(jidx))
            self.ctx.count("join-resumed:" + ("joined" if emitted else "refused"))
        self.oracle_after(before, [])
        self.ctx.case((self.desc, self.step_no), True)
        return True

    def node_ep(self, idx, via=None):
        """the endpoint object a datagram for node idx is handed to: the given interface, else its (IPv4) endpoint"""
        if via is not None:
            return via
        ep = self.nodes[idx].endpoint
        return ep.interfaces["UDPIPv4"] if idx in self.dual else ep

    def on_wire(self, dst_idx, packet, via=None):
        src, data = packet
        if data.startswith(self.prefix) and len(data) > 29 and data[22] == 0:
            cid, plain, _early = struct.unpack_from("!I??", data, 23)
            kind = data[29] if plain else -1
            self.seq += 1
            self.pending.append(Held(src, dst_idx, data, self.seq, kind, cid, self.addr_idx.get(src, -1), via))
        else:
            self.node_ep(dst_idx, via).notify_listeners(packet)

    async def settle(self):
        for _ in range(3):
            await asyncio.sleep(0.001)

    async def introduce(self):
        for n in self.nodes:
            for o in self.nodes:
                if o is not n:
                    n.overlay.walk_to(o.endpoint.wan_address)
        await asyncio.sleep(0.05)

    async def close(self):
        for i, n in enumerate(self.nodes):
            addrs = [ep.wan_address for ep in n.endpoint.interfaces.values()] if i in self.dual \
                else [n.endpoint.wan_address, n.endpoint.lan_address]
            for a in addrs:
                self.mep.internet.pop(a, None)
            try:
                await n.stop()
            except Exception:
                pass

    # ---- symbols -------------------------------------------------------------------------------------------
    def peer_sym(self, peer) -> int:
        try:
            return self.sym.static_of_bin(peer.public_key.key_to_bin())
        except Exception:
            return 0

    def addr_sym(self, addr) -> int:
        i = self.addr_idx.get(addr)
        return 0 if i is None else i + 1

    def track(self, idx, ids):
        cur = set(self.tracked[idx])
        cur.update(ids)
        self.tracked[idx] = sorted(cur)

    def unpack_cands(self, plain: bytes):
        lst, _ = self.ser.unpack("varlenH-list", plain)
        return lst

    def cand_sym(self, b: bytes) -> int:
        """candidate key -> model symbol: a node's static key, 0 (`badKey`) if it cannot be parsed, else 9999"""
        k = self.sym.static_of_bin(b)
        if k:
            return k
        try:
            self.nodes[0].overlay.crypto.key_from_public_bin(b)
        except Exception:  # noqa: BLE001
            return 0
        return 9999

    def blob_s(self, data: bytes) -> str:
        return self.sym.blob(data, self.unpack_cands, self.cand_sym)

    def hop_s(self, hop) -> str:
        return f"{self.peer_sym(hop.peer)}@{self.sym.session(hop.keys) if hop.keys else '-'}"

    def state_s(self, idx) -> str:
        ov = self.nodes[idx].overlay
        ids = self.tracked[idx]
        cs, cr, ce, ex, rl = [], [], [], [], []
        for i in ids:
            c = ov.circuits.get(i)
            if c is not None and c.state != self.tn.CIRCUIT_STATE_CLOSING:
                u = "u-"
                if c.unverified_hop is not None:
                    x = self.sym.reg_priv(c.unverified_hop.dh_secret) if c.unverified_hop.dh_secret else 0
                    u = f"u({self.peer_sym(c.unverified_hop.peer)},{x})"
                cache = ov.request_cache.get("retry", i)
                r = "r-"
                if cache is not None:
                    if cache.retry_func.__name__ == "send_initial_create":
                        kind, cands = "c", [self.peer_sym(p) for p in cache.candidates]
                    else:
                        kind, cands = "e", [self.sym.static_of_bin(b) for b in cache.candidates]
                    r = f"r({cache.packet_identifier},[{','.join(map(str, cands))}],{cache.max_tries},{kind})"
                e = f"e{self.peer_sym(c.required_exit)}" if c.required_exit else "e-"
                cs.append(f"C{i}:g{c.goal_hops}:h[{';'.join(self.hop_s(h) for h in c.hops)}]:{u}:{r}:{e}")
            cc = ov.request_cache.get("created", i)
            if cc is not None:
                cr.append(f"{i}:[{','.join(map(str, sorted({self.sym.static_of_bin(b) for b in cc.candidates})))}]")
            cq = ov.request_cache.get("create", i)
            if cq is not None:
                ce.append(f"{i}:{cq.extend_identifier}:{cq.to_circuit_id}:{cq.from_circuit_id}:"
                          f"{self.peer_sym(cq.peer)}:{self.peer_sym(cq.to_peer)}")
            es = ov.exit_sockets.get(i)
            if es is not None:
                ex.append(f"{i}:{self.hop_s(es.hop)}")
            rr = ov.relay_from_to.get(i)
            if rr is not None:
                rl.append(f"{i}>{rr.circuit_id}:{self.hop_s(rr.hop)}:{'F' if rr.direction == FORWARD else 'B'}")
        return (f"{' '.join(cs)} created[{','.join(cr)}] creates[{','.join(ce)}] exits[{','.join(ex)}] "
                f"relays[{','.join(rl)}]")

    def out_s(self, target_addr, p) -> str:
        to = self.addr_sym(target_addr)
        P = self.pl
        if isinstance(p, P.CreatePayload):
            return f"create:{p.circuit_id}:{p.identifier}:{self.sym.static_of_bin(p.node_public_key)}:{self.sym.wire_s(p.key)}>{to}"
        if isinstance(p, P.CreatedPayload):
            return (f"created:{p.circuit_id}:{p.identifier}:{self.sym.wire_s(p.key)}:{self.sym.tag(p.auth, p.key)}:"
                    f"{self.blob_s(p.candidates_enc)}>{to}")
        if isinstance(p, P.ExtendPayload):
            ag = 0 if tuple(p.node_addr) == ("0.0.0.0", 0) else 1
            return (f"extend:{p.circuit_id}:{p.identifier}:{self.sym.static_of_bin(p.node_public_key)}:"
                    f"{self.sym.wire_s(p.key)}:{ag}>{to}")
        if isinstance(p, P.ExtendedPayload):
            return (f"extended:{p.circuit_id}:{p.identifier}:{self.sym.wire_s(p.key)}:{self.sym.tag(p.auth, p.key)}:"
                    f"{self.blob_s(p.candidates_enc)}>{to}")
        return f"other:{type(p).__name__}>{to}"

    def env_s(self, idx, cid) -> str:
        ov = self.nodes[idx].overlay
        c = ov.circuits.get(cid)
        x, ident, fb = 0, 0, "-"
        if c is not None and c.unverified_hop is not None and c.unverified_hop.dh_secret is not None:
            x = self.sym.reg_priv(c.unverified_hop.dh_secret)
            fb = str(self.peer_sym(c.unverified_hop.peer))
        cache = ov.request_cache.get("retry", cid)
        if cache is not None:
            ident = cache.packet_identifier
        return f"{x} {ident} {fb}"

    # ---- originator bookkeeping for the oracle ---------------------------------------------------------------
    def snapshot(self):
        ov = self.nodes[0].overlay
        snap = {}
        for cid, c in ov.circuits.items():
            snap[cid] = [(h, h.peer, h.keys, (h.keys.key_forward, h.keys.key_backward, h.keys.salt_forward,
                                              h.keys.salt_backward) if h.keys else None) for h in c.hops]
        self.att_before = {cid: lst[-1] for cid, lst in self.attempts.items() if lst}
        return snap

    def note_sends(self):
        """register attempts (originator) and CREATED emissions (responders) from the send hook"""
        P = self.pl
        self.sym.learn()
        for idx, target, p in self.sent:
            if idx == 0 and isinstance(p, (P.CreatePayload, P.ExtendPayload)):
                ov = self.nodes[0].overlay
                c = ov.circuits.get(p.circuit_id)
                hop = c.unverified_hop if c is not None else None
                if hop is None or hop.dh_first_part != p.key:
                    continue      # not an attempt of the code under test (a cell a scenario made this node send)
                att = {"cid": p.circuit_id, "ident": p.identifier, "X": p.key, "expired": False, "step": self.step_no,
                       "x": hop.dh_secret if hop is not None else None,
                       "target_pk": hop.peer.public_key.get_crypt_pk() if hop is not None else None,
                       "target_bin": hop.peer.public_key.key_to_bin() if hop is not None else None,
                       "kind": "create" if isinstance(p, P.CreatePayload) else "extend"}
                prev = [a for lst in self.attempts.values() for a in lst]
                if any(a["X"] == p.key for a in prev):
                    self.ctx.disagree("the originator re-used an ephemeral key for a new attempt (model assumes fresh)",
                                      {"scenario": self.desc, "step": self.step_no})
                self.attempts.setdefault(p.circuit_id, []).append(att)
            if isinstance(p, P.CreatedPayload):
                es = self.nodes[idx].overlay.exit_sockets.get(p.circuit_id)
                if es is not None and es.hop.keys is not None:
                    self.sym.session(es.hop.keys)
                self.emitted_created.setdefault(p.key, {"idx": idx, "cid": p.circuit_id, "auth": p.auth,
                                                        "cands": p.candidates_enc, "ident": p.identifier,
                                                        "step": self.step_no})

    def responder_keys(self, info):
        ov = self.nodes[info["idx"]].overlay
        es = ov.exit_sockets.get(info["cid"])
        if es is not None:
            return es.hop.keys
        rr = ov.relay_from_to.get(info["cid"])
        if rr is not None:
            return rr.hop.keys
        return None

    def replay_of(self, what):
        return {"scenario": self.desc, "step": self.step_no, "what": what}

    def oracle_after(self, before, answer_calls):
        """property checks on the real originator after one step"""
        ctx, rt = self.ctx, self.rt
        ov = self.nodes[0].overlay
        for cid, old in before.items():
            c = ov.circuits.get(cid)
            if c is None:
                continue
            new = list(c.hops)
            # O1: established hops never change
            if len(new) < len(old) or any(new[i].peer.public_key.key_to_bin() != o[1].public_key.key_to_bin()
                                          or self._fp(new[i].keys) != o[3] for i, o in enumerate(old)):
                ctx.oracle_fail("Circuit.hops:established-hop-changed",
                                f"an already established hop of circuit {cid} was changed or removed",
                                self.replay_of("established hop changed"))
                continue
            if len(new) > len(old) + 1:
                ctx.oracle_fail("Circuit.hops:more-than-one-hop-appended", "two hops appended by one message",
                                self.replay_of("two hops appended"))
                continue
            if len(new) == len(old):
                continue
            # O2: a hop was appended -> what acceptance requires
            self.accepts += 1
            hop = new[-1]
            ans = [a for a in answer_calls if a[2] is not None and a[2].circuit_id == cid]
            site = "TunnelCommunity._ours_on_created_extended"
            if len(ans) != 1:
                ctx.oracle_fail(f"{site}:hop-appended-without-answer",
                                f"a hop was appended to circuit {cid} without a created/extended answer for it",
                                self.replay_of("hop appended without an answer for that circuit"))
                continue
            p = ans[0][2]
            site = "TunnelCommunity.on_created" if ans[0][1] == 3 else "TunnelCommunity.on_extended"
            att = self.att_before.get(cid)
            if att is None:
                ctx.oracle_fail(f"{site}:accepted-without-attempt", "hop accepted without any outstanding attempt",
                                self.replay_of("accepted without attempt"))
                continue
            if att["kind"] == "create" and len(old) > 0:
                # hop k > 1 must be reached THROUGH hop k-1 (extend); a first-hop CREATE goes out directly, in the clear
                ctx.oracle_fail(f"{site}:later-hop-keyed-by-direct-create",
                                f"circuit {cid} already had {len(old)} hop(s), yet the originator sent a first-hop CREATE "
                                "straight to another peer and recorded its answer as the next hop: the hop list does "
                                "not name a path (that peer talks to the originator directly, not through the hops "
                                "listed before it)", self.replay_of("later hop keyed by a direct create"))
            if att["ident"] != p.identifier:
                ctx.oracle_fail(f"{site}:accepted-wrong-identifier",
                                f"answer with identifier {p.identifier} accepted while the outstanding attempt has "
                                f"identifier {att['ident']}", self.replay_of("wrong identifier accepted"))
            if att["expired"]:
                ctx.oracle_fail(f"{site}:accepted-after-timeout",
                                "answer accepted for an attempt whose retry cache had already timed out",
                                self.replay_of("answer accepted after timeout"))
            x = att["x"]
            ok_auth = False
            s1 = None
            if x is not None and len(p.key) == 32:
                try:
                    s1 = x.diffie_hellman(p.key)
                    ok_auth = rt.crypto_auth_verify(p.auth, s1[:32], p.key)
                except ValueError:
                    ok_auth = False
            if not ok_auth:
                ctx.oracle_fail(f"{site}:accepted-bad-auth",
                                "answer accepted although its auth is not the MAC of the received key under "
                                "DH(ephemeral of this attempt, received key)", self.replay_of("bad auth accepted"))
            if hop.peer.public_key.get_crypt_pk() != att["target_pk"]:
                ctx.oracle_fail(f"{site}:hop-names-unselected-peer",
                                "the appended hop names a peer other than the one selected for this attempt",
                                self.replay_of("hop names unselected peer"))
            if s1 is not None:
                want = rt.generate_session_keys(s1 + x.diffie_hellman(att["target_pk"]))
                if (hop.keys is None or hop.keys.key_forward != want.key_forward
                        or hop.keys.key_backward != want.key_backward or hop.keys.salt_forward != want.salt_forward
                        or hop.keys.salt_backward != want.salt_backward):
                    ctx.oracle_fail(f"{site}:hop-keys-not-bound-to-selected-static-key",
                                    "accepted session keys are not KDF(DH(x,key) || DH(x, static key of the selected "
                                    "peer))", self.replay_of("keys not bound to the selected peer's static key"))
                # nobody else: what an attacker who chose the received key can derive
                for ak in self.attacker_keys:
                    for other in [att["X"]]:
                        try:
                            guesses = [ak.diffie_hellman(other) * 2]
                            guesses += [ak.diffie_hellman(other) + a2.diffie_hellman(other) for a2 in self.attacker_keys]
                        except ValueError:
                            continue
                        for g in guesses:
                            k = rt.generate_session_keys(g)
                            if hop.keys is not None and k.key_forward == hop.keys.key_forward:
                                ctx.oracle_fail(f"{site}:attacker-holds-accepted-keys",
                                                "the attacker can derive the session keys the originator accepted",
                                                self.replay_of("attacker derives accepted keys"))
            info = self.emitted_created.get(p.key)
            # an answer produced BEFORE the outstanding attempt was even sent belongs to an earlier attempt
            if info is not None and info["step"] < att["step"]:
                ctx.oracle_fail(f"{site}:accepted-answer-of-earlier-attempt",
                                "the accepted answer was produced by its responder before the outstanding attempt was "
                                "sent: an answer to an earlier attempt was taken for the current one",
                                self.replay_of("answer of an earlier attempt accepted"))
            # O4: genuine answer -> both ends hold identical keys, a cell crosses
            if info is not None and info["auth"] == p.auth and p.key not in self.forged_keys and ok_auth \
                    and self.nodes[info["idx"]].my_peer.public_key.get_crypt_pk() == att["target_pk"]:
                rk = self.responder_keys(info)
                good = rk is not None and hop.keys is not None and rk.key_forward == hop.keys.key_forward \
                    and rk.key_backward == hop.keys.key_backward and rk.salt_forward == hop.keys.salt_forward \
                    and rk.salt_backward == hop.keys.salt_backward
                if good:
                    try:
                        good = rk.decrypt_str(hop.keys.encrypt_str(b"c08 probe", FORWARD), FORWARD) == b"c08 probe" \
                            and hop.keys.decrypt_str(rk.encrypt_str(b"c08 back", BACKWARD), BACKWARD) == b"c08 back"
                    except Exception:
                        good = False
                if not good:
                    ctx.oracle_fail(f"{site}:honest-ends-disagree",
                                    "after a genuine answer the originator and the selected peer hold different "
                                    "session keys", self.replay_of("honest ends disagree"))
                else:
                    self.established[(cid, len(new))] = {"idx": info["idx"], "rcid": info["cid"], "kind": att["kind"]}
                ctx.count("accept:genuine")
            else:
                self.nongenuine.add(cid)
                ctx.count("accept:non-genuine-material")
                if not self.tampered:
                    # nobody altered, forged or redirected anything (only delays / drops / replays of genuine cells,
                    # timeouts, API calls): every accepted hop must be the product of an exchange with the selected peer
                    who = f"node {info['idx'] + 1}" if info is not None else "nobody known"
                    ctx.oracle_fail(f"{site}:honest-exchange-keyed-with-another-node",
                                    f"all parties honest, yet the hop recorded for the selected peer was completed by "
                                    f"an answer of {who}: the two ends of the hop do not hold identical keys",
                                    self.replay_of("honest exchange keyed with another node"))
        # circuits that appeared with hops already set
        for cid, c in ov.circuits.items():
            if cid not in before and len(c.hops) > 0:
                ctx.oracle_fail("Circuit.hops:new-circuit-with-hops", "a new circuit appeared with verified hops",
                                self.replay_of("new circuit with hops"))
        self.link_oracle()

    @staticmethod
    def _fp(keys):
        return None if keys is None else (keys.key_forward, keys.key_backward, keys.salt_forward, keys.salt_backward)

    def well_formed(self, cid, c) -> int:
        """number of leading hops of circuit c that were established by genuine exchanges in the regular way
        (hop 1 by a create, hop k > 1 by an extend through hop k-1)"""
        if cid in self.nongenuine:
            return 0
        n = 0
        for k in range(1, len(c.hops) + 1):
            e = self.established.get((cid, k))
            if e is None or e["kind"] != ("create" if k == 1 else "extend"):
                break
            n = k
        return n

    def count_overlaps(self):
        for n in self.nodes[1:]:
            ov = n.overlay
            if any(i in ov.exit_sockets for i in ov.relay_from_to):
                self.ctx.count("state:id-is-exit-socket-and-relay-route")
                return

    def link_oracle(self):
        """after EVERY step, for every hop established by a genuine exchange: the responder end still holds the same
        keys as the originator, and the relay in front of it still routes the hop to the selected node"""
        ctx = self.ctx
        ov = self.nodes[0].overlay
        for cid, c in ov.circuits.items():
            if c.state == self.tn.CIRCUIT_STATE_CLOSING:
                continue
            for k in range(1, self.well_formed(cid, c) + 1):
                e = self.established[(cid, k)]
                node = self.nodes[e["idx"]].overlay
                es, rr = node.exit_sockets.get(e["rcid"]), node.relay_from_to.get(e["rcid"])
                held = [x.hop.keys for x in (es, rr) if x is not None]
                want = self._fp(c.hops[k - 1].keys)
                if held and k == len(c.hops) and c.state == self.tn.CIRCUIT_STATE_READY and es is None:
                    ctx.oracle_fail("TunnelCommunity.on_created:last-hop-turned-into-relay",
                                    f"circuit {cid} is READY with {k} hop(s), yet its last hop's entry at the selected "
                                    "peer was converted into a relay route towards another node (nobody the originator "
                                    "selected): an established hop was changed",
                                    self.replay_of("last hop of a ready circuit turned into a relay"))
                    continue
                if not held or any(self._fp(x) != want for x in held):
                    ctx.oracle_fail("TunnelCommunity.join_circuit:established-hop-rekeyed-at-responder",
                                    f"hop {k} of circuit {cid}: the selected peer no longer holds the session keys the "
                                    "originator holds for this established hop (entry replaced or removed)",
                                    self.replay_of("established hop re-keyed at the responder"))
                    continue
                if k < len(c.hops) and (cid, k + 1) in self.established and k + 1 <= self.well_formed(cid, c):
                    nxt = self.established[(cid, k + 1)]
                    ok = rr is not None and rr.direction == FORWARD and rr.circuit_id == nxt["rcid"] \
                        and self.addr_idx.get(rr.hop.peer.address) == nxt["idx"]
                    back = self.nodes[e["idx"]].overlay.relay_from_to.get(nxt["rcid"])
                    ok = ok and back is not None and back.direction == BACKWARD and back.circuit_id == e["rcid"]
                    if not ok:
                        ctx.oracle_fail("TunnelCommunity.on_created:relay-reroutes-established-hop",
                                        f"hop {k + 1} of circuit {cid}: the relay in front of it no longer forwards "
                                        "the circuit to the peer the originator selected",
                                        self.replay_of("relay re-routed an established hop"))

    async def finish(self):
        """end of a scenario: every READY circuit whose hops were all established by genuine exchanges must carry a
        request to its last hop and the answer back (keys agree at every layer AND every relay routes to the
        selected node)"""
        ctx = self.ctx
        ov = self.nodes[0].overlay
        await self.flush()
        self.count_overlaps()
        for cid, c in list(ov.circuits.items()):
            if c.state != self.tn.CIRCUIT_STATE_READY or self.well_formed(cid, c) != len(c.hops) or not c.hops:
                continue
            if self.squatter_on_path:
                continue
            fut = ov.send_test_request(c, 8, 8)
            await self.settle()
            await self.flush()
            ctx.count("e2e:probe")
            if not fut.done():
                fut.cancel()
                ctx.oracle_fail("TunnelCommunity.send_cell:established-circuit-carries-no-traffic",
                                f"circuit {cid} is READY, every hop was accepted on a genuine answer of the selected "
                                "peer, yet a request sent into it is not answered by its last hop",
                                self.replay_of("established circuit carries no traffic"))

    async def flush(self, max_steps=60):
        n = 0
        while (self.pending or self.gates) and n < max_steps:
            n += 1
            if self.pending:
                await self.deliver(self.pending.pop(0))
            else:
                await self.release_join()

    # ---- steps ---------------------------------------------------------------------------------------------
    def _record(self, line, expected):
        # a node the scenario turned into an adversary by poking its tables (outside any API) is not code under test
        if line.split(" ", 1)[0].isdigit() and int(line.split(" ", 1)[0]) in self.adversaries:
            expected = None
        self.lines.append(line)
        self.expect.append(expected)

    def _post(self, touched_default=None):
        """after a step: model lines for handler calls, compare outs+state; returns answer calls at the originator"""
        P = self.pl
        self.note_sends()
        answer_calls = []
        handled = set()
        for idx, mid, p, src in self.calls:
            handled.add(idx)
            if p is None:
                self._record(f"{idx} show", "[] | " + self.state_s(idx))
                continue
            outs = ",".join(self.out_s(t, q) for i, t, q in self.sent if i == idx)
            if mid == 2 and idx in self.gated:
                # the guards of on_create ran, the join itself is suspended in should_join_circuit
                self.track(idx, [p.circuit_id])
                self.ctx.count("handler:on_create:suspended-or-refused")
                self._record(f"{idx} show", "[] | " + self.state_s(idx))
                continue
            if mid == 2:
                self.track(idx, [p.circuit_id])
                emitted = [q for i, t, q in self.sent if i == idx and isinstance(q, P.CreatedPayload)]
                y, offered = 0, "[]"
                if emitted:
                    w = self.sym.wire(emitted[0].key)
                    y = w[0] if w else 0
                    b = self.blob_s(emitted[0].candidates_enc)
                    offered = b.split("/")[2] if b.startswith("E/") else "[]"
                line = (f"{idx} oncreate {p.circuit_id} {p.identifier} {self.sym.static_of_bin(p.node_public_key)} "
                        f"{self.sym.wire_s(p.key)} {y} {offered}")
                self.ctx.count("handler:on_create:" + ("joined" if emitted else "ignored"))
            elif mid == 4:
                emitted = [q for i, t, q in self.sent if i == idx and isinstance(q, P.CreatePayload)]
                to_cid, number = (emitted[0].circuit_id, emitted[0].identifier) if emitted else (0, 0)
                self.track(idx, [p.circuit_id, to_cid, number])
                ag = 0 if tuple(p.node_addr) == ("0.0.0.0", 0) else 1
                line = (f"{idx} onextend {p.circuit_id} {p.identifier} {self.sym.static_of_bin(p.node_public_key)} "
                        f"{self.sym.wire_s(p.key)} {ag} {to_cid} {number}")
                self.ctx.count("handler:on_extend:" + ("forwarded" if emitted else "ignored"))
                cc = self.nodes[idx].overlay.request_cache.get("created", p.circuit_id)
                if cc is not None:
                    self.ctx.count("extend:" + ("cached-candidate" if p.node_public_key in cc.candidates
                                                else ("address-given" if ag else "unknown-key-no-address")))
            else:
                op = "created" if mid == 3 else "extended"
                self.track(idx, [p.circuit_id, p.identifier] if mid == 3 else [p.circuit_id])
                line = (f"{idx} {op} {p.circuit_id} {p.identifier} {self.sym.wire_s(p.key)} "
                        f"{self.sym.tag(p.auth, p.key)} {self.blob_s(p.candidates_enc)} {self.env_s(idx, p.circuit_id)}")
                if idx == 0:
                    answer_calls.append((idx, mid, p))
                relay_fw = any(isinstance(q, P.ExtendedPayload) for i, t, q in self.sent if i == idx)
                self.ctx.count(f"handler:on_{op}:" + ("relay-forwarded" if relay_fw else ("origin" if idx == 0 else "unexpected")))
            self._record(line, f"[{outs}] | " + self.state_s(idx))
        return answer_calls, handled

    async def deliver(self, h: Held, data: bytes | None = None, src=None, note: str = "", tight: bool = False):
        """hand one datagram to its node and let the node settle; `tight`: only ONE event-loop iteration passes before the
        step ends (the next datagram is the next thing in the socket buffer), instead of letting every task finish"""
        self.step_no += 1
        self.calls, self.sent = [], []
        before = self.snapshot()
        if data is not None or src is not None:
            self.tampered = True
        self.history.append(Held(src or h.src, h.dst, h.data if data is None else data, h.seq, h.kind, h.cid,
                                 h.from_idx))
        try:
            self.node_ep(h.dst, h.via).notify_listeners((src or h.src, h.data if data is None else data))
        except Exception as e:  # noqa: BLE001
            self.raised += 1
            self.ctx.count(f"deliver-raised:{type(e).__name__}")
        if tight:
            self.ctx.count("schedule:next-datagram-after-one-loop-iteration")
            await asyncio.sleep(0)
        else:
            await self.settle()
        answer_calls, handled = self._post()
        self.classify_after_accept()
        if h.dst not in handled:
            self._record(f"{h.dst} show", "[] | " + self.state_s(h.dst))
        if 0 not in handled and h.dst != 0:
            pass
        self.oracle_after(before, answer_calls)
        self.ctx.case((self.desc, self.step_no), bool(self.calls))
        return answer_calls

    async def api(self, fn, line_fn):
        """an API call on the originator (create_circuit / send_extend / send_initial_create / forged sends)"""
        self.step_no += 1
        self.calls, self.sent = [], []
        before = self.snapshot()
        res = fn()
        await self.settle()
        self.note_sends()
        line = line_fn(res)
        if line is not None:
            idx = int(line.split(" ", 1)[0])
            outs = ",".join(self.out_s(t, q) for i, t, q in self.sent if i == idx)
            self._record(line, f"[{outs}] | " + self.state_s(idx))
        self.oracle_after(before, [])
        self.ctx.case((self.desc, self.step_no), True)
        return res

    def t_retry(self) -> float:
        """just past the lifetime of a retry cache / create cache"""
        return max(self.life_retry, self.life_create) + 0.2

    def t_created(self) -> float:
        """just past the lifetime of a created cache"""
        return self.life_created + 1.0

    async def advance(self, dt: float):
        """let dt virtual seconds pass in slices shorter than any cache lifetime (a cache created inside a slice
        cannot expire in the same slice, so each slice sees every expiry exactly once)"""
        fired = 0
        while dt > 1e-9:
            d = min(dt, self.slice)
            fired += await self._advance(d)
            dt -= d
        return fired

    async def _advance(self, dt: float):
        self.step_no += 1
        self.calls, self.sent = [], []
        before = self.snapshot()
        caches = {}
        for idx, n in enumerate(self.nodes):
            rc = n.overlay.request_cache
            for i in self.tracked[idx]:
                for pre in ("retry", "create", "created"):
                    c = rc.get(pre, i)
                    if c is not None:
                        caches[(idx, pre, i)] = c
        await asyncio.sleep(dt)
        await self.settle()
        self.note_sends()
        fired = 0
        for idx in range(len(self.nodes)):
            rc = self.nodes[idx].overlay.request_cache
            n_lines = 0
            for (j, pre, i), c in caches.items():
                if j != idx or rc.get(pre, i) is c:
                    continue
                fired += 1
                self.ctx.count(f"timeout:{pre}")
                if pre == "retry":
                    circ = self.nodes[idx].overlay.circuits.get(i)
                    gone = circ is None or circ.state == self.tn.CIRCUIT_STATE_CLOSING
                    kind = "create" if c.retry_func.__name__ == "send_initial_create" else "extend"
                    self.ctx.count(f"branch:retry-timeout:{'dropped' if gone else 'resend-' + kind}")
                    for a in self.attempts.get(i, []):
                        a["expired"] = True
                    # attempts created by the retry itself are fresh again
                    for k, t, q in self.sent:
                        if k == 0 and getattr(q, "circuit_id", None) == i and self.attempts.get(i):
                            self.attempts[i][-1]["expired"] = False
                    outs = ",".join(self.out_s(t, q) for k, t, q in self.sent
                                    if k == idx and getattr(q, "circuit_id", None) == i)
                    self._record(f"{idx} timeout {i} {self.env_s(idx, i)}", ("outs", f"[{outs}]"))
                elif pre == "create":
                    self._record(f"{idx} createexpire {i}", None)
                else:
                    self._record(f"{idx} createdexpire {i}", None)
                n_lines += 1
            if n_lines:
                self._record(f"{idx} show", "[] | " + self.state_s(idx))
        self.oracle_after(before, [])
        self.ctx.case((self.desc, self.step_no), fired > 0)
        return fired

    # ---- cell helpers ----------------------------------------------------------------------------------------
    def parse_created(self, data: bytes):
        """plaintext CREATED cell -> (cid, ident, key, auth, cands)"""
        cid, = struct.unpack_from("!I", data, 23)
        msg = data[29:]
        ident, klen = struct.unpack_from("!HH", msg, 1)
        key = msg[5:5 + klen]
        auth = msg[5 + klen:5 + klen + 32]
        cands = msg[5 + klen + 32:]
        return cid, ident, key, auth, cands

    def build_created(self, cid, ident, key, auth, cands, relay_early=False) -> bytes:
        msg = bytes([3]) + struct.pack("!HH", ident & 0xFFFF, len(key)) + key + auth + cands
        return self.prefix + bytes([0]) + struct.pack("!I??", cid & 0xFFFFFFFF, True, relay_early) + msg

    def parse_create(self, data: bytes):
        cid, = struct.unpack_from("!I", data, 23)
        msg = data[29:]
        ident, nlen = struct.unpack_from("!HH", msg, 1)
        npk = msg[5:5 + nlen]
        klen, = struct.unpack_from("!H", msg, 5 + nlen)
        key = msg[7 + nlen:7 + nlen + klen]
        return cid, ident, npk, key

    def build_create(self, cid, ident, npk, key, relay_early=False) -> bytes:
        msg = bytes([2]) + struct.pack("!HH", ident & 0xFFFF, len(npk)) + npk + struct.pack("!H", len(key)) + key
        return self.prefix + bytes([0]) + struct.pack("!I??", cid & 0xFFFFFFFF, True, relay_early) + msg

    def new_attacker_key(self):
        k = _PATCHED["gen"]("curve25519")
        self.attacker_keys.append(k)
        self.sym.reg_priv(k)
        return k


# ------------------------------------------------------------------------------------------------------------------
# manipulations of a plaintext CREATED (cid, ident, key, auth, cands) -> list of variants
MANIPS = ["key-flip-rand", "key-flip-bit255", "key-flip-bit0", "auth-flip", "cands-flip", "ident-plus1", "ident-rand",
          "cid-rand", "key-short", "key-long", "key-empty", "key-zero", "eph-subst-remac", "eph-subst-keep-auth",
          "eph-subst-remac-static", "auth-zero", "key-is-own-X", "ident-and-key-flip", "remac-over-canonical",
          "ident-zero", "ident-ffff", "ident-xor-8000"]


def flip(b: bytes, bit: int) -> bytes:
    i, j = divmod(bit, 8)
    return b[:i] + bytes([b[i] ^ (1 << j)]) + b[i + 1:]


def manipulate(w: World, rng, manip: str, created, X: bytes):
    """returns (cid, ident, key, auth, cands) of the forged answer; X = ephemeral public key seen in the CREATE"""
    cid, ident, key, auth, cands = created
    rt = w.rt
    if manip == "key-flip-rand":
        key = flip(key, rng.randrange(0, 255))
    elif manip == "key-flip-bit255":
        key = flip(key, 255)
    elif manip == "key-flip-bit0":
        key = flip(key, 0)
    elif manip == "auth-flip":
        auth = flip(auth, rng.randrange(256))
    elif manip == "cands-flip":
        if cands:
            cands = flip(cands, rng.randrange(len(cands) * 8))
    elif manip == "ident-plus1":
        ident = (ident + 1) & 0xFFFF
    elif manip == "ident-rand":
        ident = (ident + rng.randrange(1, 0xFFFF)) & 0xFFFF
    elif manip in ("ident-zero", "ident-ffff", "ident-xor-8000"):
        new = {"ident-zero": 0, "ident-ffff": 0xFFFF, "ident-xor-8000": ident ^ 0x8000}[manip]
        ident = new if new != ident else (ident ^ 1)      # boundary values; never the genuine identifier itself
    elif manip == "cid-rand":
        cid = (cid + rng.randrange(1, 2 ** 32 - 1)) & 0xFFFFFFFF
    elif manip == "key-short":
        key = key[:31]
    elif manip == "key-long":
        key = key + b"\x00"
    elif manip == "key-empty":
        key = b""
    elif manip == "key-zero":
        key = b"\x00" * 32
    elif manip in ("eph-subst-remac", "eph-subst-remac-static"):
        a = w.new_attacker_key()
        key = a.get_crypt_pk()
        auth = rt.crypto_auth(a.diffie_hellman(X)[:32], key)
        if manip == "eph-subst-remac-static":
            sec = a.diffie_hellman(X) * 2
        else:
            a2 = w.new_attacker_key()
            sec = a.diffie_hellman(X) + a2.diffie_hellman(X)
        cands = rt.generate_session_keys(sec).encrypt_str(b"\x00\x00", FORWARD)
        w.forged_keys.add(key)
    elif manip == "eph-subst-keep-auth":
        a = w.new_attacker_key()
        key = a.get_crypt_pk()
        w.forged_keys.add(key)
    elif manip == "auth-zero":
        auth = b"\x00" * 32
    elif manip == "key-is-own-X":
        key = X
    elif manip == "ident-and-key-flip":
        ident = (ident + 7) & 0xFFFF
        key = flip(key, 9)
    elif manip == "remac-over-canonical":
        # non-canonical encoding of the same point, MAC left as computed over the canonical bytes
        key = flip(key, 255)
        w.forged_keys.add(key)
    else:
        raise ValueError(manip)
    return cid, ident, key, auth, cands


# ------------------------------------------------------------------------------------------------------------------
def r_idx_of(w, h):
    return h.dst


async def build_world(ctx, rng, desc, n_relays=3, n_exits=2):
    w = World(ctx, rng, n_relays, n_exits, desc, rtd=desc.get("rtd", 0), nht=desc.get("nht"),
              hidden=desc.get("hidden", False), gated=desc.get("gated", False))
    await w.introduce()
    return w


def pick_required_exit(w: World, rng, exclude=None):
    exits = [n for i, (n, fl) in enumerate(zip(w.nodes, w.flags)) if w.tn.PEER_FLAG_EXIT_BT in fl and i != exclude]
    return rng.choice(exits).my_peer


async def start_circuit(w: World, hops: int, required_exit=None, idx: int = 0):
    ov = w.nodes[idx].overlay
    if w.desc.get("uncached") and hops > 1 and required_exit is None:
        # the relays do not list the required exit among their candidates (it never introduced its flags to them):
        # on_extend must take the branch "key not in the cached candidates, address given"
        required_exit = pick_required_exit(w, w.rng, exclude=idx)
        for n in w.nodes[1:]:
            for peer in list(n.overlay.candidates):
                if peer.public_key.key_to_bin() == required_exit.public_key.key_to_bin():
                    n.overlay.candidates.pop(peer)
        w.ctx.count("extend:required-exit-not-cached-at-relays")
    if required_exit is None and hops > 1 and w.desc.get("req"):
        required_exit = pick_required_exit(w, w.rng, exclude=idx)
        w.ctx.count("required-exit:multi-hop")

    def line(c):
        if c is None:
            return None
        w.track(idx, [c.circuit_id])
        cache = ov.request_cache.get("retry", c.circuit_id)
        first = [w.peer_sym(c.unverified_hop.peer)] + [w.peer_sym(p) for p in cache.candidates]
        req = w.peer_sym(c.required_exit) if c.required_exit else "-"
        return (f"{idx} cc {c.circuit_id} {hops} {req} [{','.join(map(str, first))}] "
                f"{w.env_s(idx, c.circuit_id)}")
    return await w.api(lambda: ov.create_circuit(hops, required_exit=required_exit), line)


async def run_fifo(w: World, max_steps=60, on_msg=None):
    """deliver held cells first-in first-out; on_msg(h) may return 'hold'/'drop' or a list of deliveries; suspended
    joins (gated worlds) are released when nothing else is in flight"""
    steps = 0
    while (w.pending or w.gates) and steps < max_steps:
        if not w.pending:
            steps += 1
            await w.release_join()
            continue
        h = w.pending.pop(0)
        steps += 1
        if on_msg is not None:
            r = await on_msg(h)
            if r == "handled":
                continue
        await w.deliver(h)
    return steps


def final_honest_checks(w: World, circuits, expect_ready=True):
    ctx = w.ctx
    ov = w.nodes[0].overlay
    for c in circuits:
        cur = ov.circuits.get(c.circuit_id)
        if cur is None or cur.state != w.tn.CIRCUIT_STATE_READY:
            if expect_ready:
                ctx.oracle_fail("TunnelCommunity.create_circuit:honest-build-not-ready",
                                "an undisturbed build did not reach READY", w.replay_of("honest build not ready"))
            continue
        sel = [a for a in w.attempts.get(c.circuit_id, [])]
        # in an undisturbed run every attempt is answered: hops = selected peers in order
        if [h.peer.public_key.get_crypt_pk() for h in cur.hops] != [a["target_pk"] for a in sel]:
            ctx.oracle_fail("Circuit.hops:not-the-selected-peers-in-order",
                            "hop list differs from the sequence of selected peers", w.replay_of("hops != selected"))


# ---- scenarios ------------------------------------------------------------------------------------------------------
async def sc_honest(ctx, rng, desc, hops, shuffle=False, dup=False, two=False):
    w = await build_world(ctx, rng, desc)
    try:
        circuits = [await start_circuit(w, hops)]
        if two:
            circuits.append(await start_circuit(w, hops))
        circuits = [c for c in circuits if c is not None]
        steps = 0
        while w.pending and steps < 120:
            i = rng.randrange(len(w.pending)) if shuffle else 0
            h = w.pending.pop(i)
            steps += 1
            await w.deliver(h)
            if dup and rng.random() < 0.5:
                await w.deliver(h)
        final_honest_checks(w, circuits, expect_ready=True)
        await w.finish()
        return w
    finally:
        await w.close()


async def sc_tamper(ctx, rng, desc, hops, pos, manip, follow):
    """rewrite the plaintext CREATED answering the CREATE of hop `pos` (network attacker on that link, or the relay/
    responder itself); follow: none | genuine-after | genuine-before | forged-twice"""
    w = await build_world(ctx, rng, desc)
    try:
        c = await start_circuit(w, hops)
        seen_create = {}
        n_created = [0]

        async def on_msg(h: Held):
            if h.kind == 2:
                cid, ident, npk, key = w.parse_create(h.data)
                seen_create[cid] = key
            if h.kind == 3:
                n_created[0] += 1
                if n_created[0] == pos:
                    created = w.parse_created(h.data)
                    X = seen_create.get(created[0], b"\x09" * 32)
                    forged = manipulate(w, rng, manip, created, X)
                    fdata = w.build_created(*forged)
                    if follow == "genuine-before":
                        await w.deliver(h)
                        await w.deliver(h, data=fdata)
                    elif follow == "genuine-after":
                        await w.deliver(h, data=fdata)
                        await w.deliver(h)
                    elif follow == "forged-twice":
                        await w.deliver(h, data=fdata)
                        await w.deliver(h, data=fdata)
                    else:
                        await w.deliver(h, data=fdata)
                    return "handled"
            return None
        await run_fifo(w, 80, on_msg)
        if follow == "none" and rng.random() < 0.5:
            await w.advance(w.t_retry())
            await run_fifo(w, 80)
        await w.finish()
        return w
    finally:
        await w.close()


async def sc_late(ctx, rng, desc, hops, pos, variant):
    """hold the answer of hop `pos`, let the retry cache time out (retry with another candidate or circuit dropped),
    then deliver the old answer: as is / with the identifier of the new attempt / twice"""
    w = await build_world(ctx, rng, desc)
    try:
        c = await start_circuit(w, hops)
        held = []
        n_ans = [0]

        async def on_msg(h: Held):
            # the answer toward the originator for hop pos: CREATED (pos 1) or the encrypted EXTENDED cell
            if h.dst == 0 and not held:
                n_ans[0] += 1
                if n_ans[0] == pos:
                    held.append(h)
                    return "handled"
            return None
        await run_fifo(w, 80, on_msg)
        await w.advance(w.t_retry())
        if held:
            h = held[0]
            data = None
            if variant == "new-ident" and h.kind == 3 and c is not None:
                cache = w.nodes[0].overlay.request_cache.get("retry", c.circuit_id)
                if cache is not None:
                    cid, ident, key, auth, cands = w.parse_created(h.data)
                    data = w.build_created(cid, cache.packet_identifier, key, auth, cands)
            if variant == "before-retry-answer":
                await w.deliver(h, data=data)
                await run_fifo(w, 80)
            else:
                await run_fifo(w, 80)
                await w.deliver(h, data=data)
            if variant == "twice":
                await w.deliver(h, data=data)
        await run_fifo(w, 80)
        await w.finish()
        return w
    finally:
        await w.close()


async def sc_api_retry(ctx, rng, desc, hops, variant):
    """the application re-sends the create/extend for the SAME peer (public API, as the test-suite does); the answer to
    the first attempt is then replayed, optionally carrying the identifier of the second attempt"""
    w = await build_world(ctx, rng, desc)
    try:
        c = await start_circuit(w, hops, required_exit=pick_required_exit(w, rng) if hops == 1 else None)
        ov = w.nodes[0].overlay
        held = []

        async def on_msg(h: Held):
            if h.dst == 0 and h.kind == 3 and not held:
                held.append(h)
                return "handled"
            return None
        await run_fifo(w, 40, on_msg)
        if held and c is not None and c.unverified_hop is not None:
            peer = c.unverified_hop.peer

            def line(_):
                return (f"0 sendcreate {c.circuit_id} [{w.peer_sym(peer)}] 2 {w.env_s(0, c.circuit_id)}")
            await w.api(lambda: ov.send_initial_create(c, [peer], 2), line)
            h = held[0]
            cid, ident, key, auth, cands = w.parse_created(h.data)
            cache = ov.request_cache.get("retry", c.circuit_id)
            if variant == "old-ident":
                await w.deliver(h)
            elif variant == "new-ident" and cache is not None:
                await w.deliver(h, data=w.build_created(cid, cache.packet_identifier, key, auth, cands))
            elif variant == "new-ident-after-genuine" and cache is not None:
                await run_fifo(w, 80)
                await w.deliver(h, data=w.build_created(cid, cache.packet_identifier, key, auth, cands))
        await run_fifo(w, 80)
        await w.finish()
        return w
    finally:
        await w.close()


async def sc_api_retarget(ctx, rng, desc, hops, pos, order):
    """all parties honest: the answer for hop `pos` is slow; before the retry cache times out the application
    re-targets the pending hop through the public API (send_initial_create / send_extend with another candidate, or the
    same one); the slow answer of the first attempt then arrives before / after the answer of the second attempt"""
    w = await build_world(ctx, rng, desc)
    try:
        c = await start_circuit(w, hops)
        ov = w.nodes[0].overlay
        held = []
        n_created = [0]

        async def on_msg(h: Held):
            if h.kind == 3 and not held:
                n_created[0] += 1
                if n_created[0] == pos:
                    held.append(h)
                    return "handled"
            return None
        await run_fifo(w, 80, on_msg)
        if held and c is not None and c.unverified_hop is not None and ov.request_cache.get("retry", c.circuit_id):
            old = c.unverified_hop.peer
            used = {h.peer.public_key.key_to_bin() for h in c.hops} | {old.public_key.key_to_bin()}
            final = len(c.hops) + 1 == c.goal_hops
            pool = [n for n, fl in zip(w.nodes[1:], w.flags[1:])
                    if (w.tn.PEER_FLAG_EXIT_BT in fl) == final and n.my_peer.public_key.key_to_bin() not in used]
            same = desc.get("same", False) or not pool or c.required_exit is not None
            target = old if same else rng.choice(pool).my_peer
            ctx.count("retarget:" + ("same-peer" if same else "other-peer") + (":first-hop" if pos == 1 else ":extend"))
            if pos == 1:
                def line(_):
                    return f"0 sendcreate {c.circuit_id} [{w.peer_sym(target)}] 2 {w.env_s(0, c.circuit_id)}"
                await w.api(lambda: ov.send_initial_create(c, [target], 2), line)
            else:
                tbin = target.public_key.key_to_bin()

                def line(_):
                    return f"0 sendextend {c.circuit_id} [{w.sym.static_of_bin(tbin)}] 2 {w.env_s(0, c.circuit_id)}"
                await w.api(lambda: ov.send_extend(c, [tbin], 2), line)
            if order == "old-first":
                await w.deliver(held[0])
                await run_fifo(w, 80)
            elif order == "new-first":
                await run_fifo(w, 80)
                await w.deliver(held[0])
            elif order == "old-twice":
                await w.deliver(held[0])
                await w.deliver(held[0])
                await run_fifo(w, 80)
            else:  # interleaved: the old answer overtakes the new one on the last link
                seen = [0]

                async def overtake(h: Held):
                    if h.kind == 3 and not seen[0]:
                        seen[0] = 1
                        await w.deliver(held[0])
                        await w.deliver(h)
                        return "handled"
                    return None
                await run_fifo(w, 80, overtake)
        await run_fifo(w, 80)
        if rng.random() < 0.5:
            await w.advance(w.t_retry())
            await run_fifo(w, 80)
        await w.finish()
        return w
    finally:
        await w.close()


async def sc_id_squat(ctx, rng, desc, hops, pos, order):
    """misbehaving next hop (or anyone reading the plaintext CREATE on that link): the relay's fresh outgoing circuit id
    is re-used as the id of a circuit of the attacker's own that runs through the same relay; the attacker's circuit is
    then extended so that the relay pairs a second CREATED under that id"""
    w = await build_world(ctx, rng, desc)
    try:
        await start_circuit(w, hops)
        held = []
        n_created = [0]

        async def on_msg(h: Held):
            if h.kind == 3 and not held:
                n_created[0] += 1
                if n_created[0] == pos and h.dst != 0:
                    held.append(h)
                    return "handled"
            return None
        await run_fifo(w, 80, on_msg)
        if held:
            gen = held[0]
            r_idx, to_cid = gen.dst, gen.cid
            # the squatter read the id off the plaintext CREATE; in half of the runs it is the next hop itself, else a
            # node that is not on the victim's path (then the victim's hops are all honest and the probe is fair)
            others = [i for i in range(1, len(w.nodes)) if i not in (r_idx, gen.from_idx)]
            on_path = desc.get("squatter") == "next-hop"
            a_idx = gen.from_idx if on_path else rng.choice(others)
            w.squatter_on_path = on_path
            if on_path:
                w.adversaries.add(a_idx)
            aov = w.nodes[a_idx].overlay
            w.tampered = True
            w.track(a_idx, [to_cid])

            def mk():
                circ = w.tn.Circuit(to_cid, 2)
                aov.circuits[to_cid] = circ
                aov.send_initial_create(circ, [w.nodes[r_idx].my_peer], 6)
                return circ

            def line(_):
                return f"{a_idx} cc {to_cid} 2 - [{r_idx + 1}] {w.env_s(a_idx, to_cid)}"
            await w.api(mk, line)
            second = []
            if order == "suspended" and w.pending:
                # the relay's should_join_circuit really suspends: the squatting CREATE passes the guards of on_create
                # (the id is only reserved), the victim's CREATED is paired meanwhile, then the join resumes
                await w.deliver(w.pending.pop(0))
                ctx.count("squat:join-suspended-gates:%d" % len(w.gates))
                await w.deliver(gen)

            async def hold_second(h: Held):
                # the CREATED answering the attacker's own extension through the relay
                if h.kind == 3 and h.dst == r_idx and not second:
                    second.append(h)
                    return "handled"
                return None
            await run_fifo(w, 80, hold_second)
            ctx.count("squat:" + order + (":second-created" if second else ":no-second"))
            if order == "victim-first":
                await w.deliver(gen)
                await run_fifo(w, 80, hold_second)
                for h in second:
                    await w.deliver(h)
            elif order == "attacker-first":
                for h in second:
                    await w.deliver(h)
                await w.deliver(gen)
            elif order == "suspended":
                await run_fifo(w, 160)
            else:  # the attacker never completes its own extension, only squats on the id
                await w.deliver(gen)
        await run_fifo(w, 120)
        await w.finish()
        return w
    finally:
        await w.close()


async def sc_forged_create(ctx, rng, desc, hops, pos, variant):
    """the CREATE itself is attacked: rewritten on its (plaintext) link, or forged towards the originator under the
    originator's own circuit id"""
    w = await build_world(ctx, rng, desc)
    try:
        c = await start_circuit(w, hops)
        n_create = [0]

        async def on_msg(h: Held):
            if h.kind == 2:
                n_create[0] += 1
                if n_create[0] == pos and variant != "own-cid-to-originator":
                    cid, ident, npk, key = w.parse_create(h.data)
                    if variant == "key-short":
                        key = key[:31]
                    elif variant == "key-zero":
                        key = b"\x00" * 32
                    elif variant == "key-swap":
                        key = w.new_attacker_key().get_crypt_pk()
                    elif variant == "key-flip-bit255":
                        key = flip(key, 255)
                    elif variant == "ident-change":
                        ident = (ident + 1 + rng.randrange(100)) & 0xFFFF
                    ctx.count("forged-create:" + variant)
                    await w.deliver(h, data=w.build_create(cid, ident, npk, key))
                    if rng.random() < 0.5:
                        await w.deliver(h)          # the genuine CREATE follows
                    return "handled"
            return None
        await run_fifo(w, 120, on_msg)
        if variant == "own-cid-to-originator" and c is not None and c.hops:
            first = c.hops[0].peer
            a = w.new_attacker_key()
            data = w.build_create(c.circuit_id, rng.randrange(0xFFFF), first.public_key.key_to_bin(), a.get_crypt_pk())
            ctx.count("forged-create:" + variant)
            await w.deliver(Held(first.address, 0, data, 0, 2, c.circuit_id, w.addr_idx.get(first.address, -1)), data=data)
            await run_fifo(w, 40)
        if rng.random() < 0.5:
            await w.advance(w.t_retry())
            await run_fifo(w, 80)
        await w.finish()
        return w
    finally:
        await w.close()


async def sc_two_originators(ctx, rng, desc, hops, shuffle):
    """all honest: node 0 and a relay node both originate circuits at the same time, through each other"""
    w = await build_world(ctx, rng, desc)
    try:
        circuits = [await start_circuit(w, hops)]
        other = rng.choice([1, 2, 3])
        await start_circuit(w, rng.choice([2, 3]), idx=other)
        if rng.random() < 0.5:
            await start_circuit(w, 2, idx=rng.choice([i for i in (1, 2, 3) if i != other]))
        steps = 0
        while w.pending and steps < 200:
            steps += 1
            await w.deliver(w.pending.pop(rng.randrange(len(w.pending)) if shuffle and rng.random() < 0.4 else 0))
        final_honest_checks(w, [c for c in circuits if c is not None], expect_ready=True)
        await w.finish()
        return w
    finally:
        await w.close()


async def sc_slow_join(ctx, rng, desc, hops, pos, variant):
    """responders run an overridden should_join_circuit that really suspends (policy decision pending): the CREATE of
    hop `pos` is duplicated / replayed while the first copy is suspended, after it resumed, or both; joins resume in
    arrival order, reversed, or interleaved with the answer's delivery"""
    w = await build_world(ctx, rng, desc)
    try:
        circuits = [await start_circuit(w, hops)]
        n_create = [0]
        extra = []

        async def on_msg(h: Held):
            if h.kind == 2:
                n_create[0] += 1
                if n_create[0] == pos:
                    await w.deliver(h)
                    if variant in ("dup-while-suspended", "dup-reversed", "triple"):
                        await w.deliver(h)
                        ctx.count("slow-join:duplicate-while-suspended")
                        if variant == "triple":
                            await w.deliver(h)
                        if variant == "dup-reversed" and len(w.gates) >= 2:
                            await w.release_join(1)
                    elif variant == "dup-after-resume":
                        await w.release_join()
                        await w.deliver(h)
                        ctx.count("slow-join:duplicate-after-resume")
                    elif variant == "dup-after-answer":
                        extra.append(h)
                    elif variant == "refuse-then-accept":
                        await w.release_join(0, accept=False)
                        await w.deliver(h)
                    return "handled"
            return None
        await run_fifo(w, 160, on_msg)
        for h in extra:
            await w.deliver(h)
            ctx.count("slow-join:duplicate-after-answer")
        await run_fifo(w, 160)
        if variant not in ("refuse-then-accept",) or True:
            pass
        if not w.tampered:
            final_honest_checks(w, [c for c in circuits if c is not None], expect_ready=True)
        await w.finish()
        return w
    finally:
        await w.close()


async def sc_bad_candidates(ctx, rng, desc, hops, pos, variant):
    """misbehaving hop `pos` (not the last): its answer is genuine but the CORRECTLY ENCRYPTED candidate list it offers
    is unusable (unparseable keys / only excluded keys / empty), so the originator accepts the hop and then cannot
    extend; afterwards every retry cache lifetime passes"""
    w = await build_world(ctx, rng, desc)
    try:
        await start_circuit(w, hops)
        n_created = [0]

        async def on_msg(h: Held):
            if h.kind == 3:
                n_created[0] += 1
                if n_created[0] == pos:
                    cid, ident, key, auth, cands = w.parse_created(h.data)
                    info = w.emitted_created.get(key)
                    rk = w.responder_keys(info) if info else None
                    sec = w.sym.sess.get(rk.key_forward, (None,))[0] if rk is not None else None
                    if sec is None:
                        return None
                    bad = b"LibNaCLPK:" + bytes(rng.randrange(256) for _ in range(20))
                    good = [n.my_peer.public_key.key_to_bin() for n in w.nodes[1:]]
                    me = w.nodes[0].my_peer.public_key.key_to_bin()
                    lst = {"bad-only": [bad, bad], "relays-then-bad": good[:2] + [bad, bad], "bad-relay": [bad] + good[3:4] * 2,
                           "empty": [], "only-me": [me, me], "garbage-bytes": None}[variant]
                    plain = bytes(rng.randrange(256) for _ in range(9)) if lst is None else w.ser.pack("varlenH-list", lst)
                    enc = w.rt.generate_session_keys(sec).encrypt_str(plain, FORWARD)
                    ctx.count("bad-candidates:" + variant)
                    await w.deliver(h, data=w.build_created(cid, ident, key, auth, enc))
                    return "handled"
            return None
        await run_fifo(w, 120, on_msg)
        await w.advance(w.t_retry())
        await run_fifo(w, 120)
        await w.advance(w.t_retry())
        await run_fifo(w, 120)
        await w.finish()
        return w
    finally:
        await w.close()


async def sc_third_party_extend(ctx, rng, desc, order):
    """a THIRD PARTY (another circuit owner using the same relay) names, in its own EXTEND, the key of peer P together
    with the address of another node; the relay does not have P among the candidates it cached for that owner.  The
    victim then builds relay -> P.  Nothing on the victim's path is altered."""
    w = await build_world(ctx, rng, desc)
    try:
        r_idx = rng.choice([1, 2, 3])
        exits = [i for i, fl in enumerate(w.flags) if w.tn.PEER_FLAG_EXIT_BT in fl]
        p_idx = rng.choice(exits)
        q_idx = rng.choice([i for i in range(1, len(w.nodes)) if i not in (r_idx, p_idx)])
        a_idx = rng.choice([i for i in (1, 2, 3) if i not in (r_idx, q_idx)] or [i for i in (1, 2, 3) if i != r_idx])
        rov = w.nodes[r_idx].overlay
        P, R = w.nodes[p_idx].my_peer, w.nodes[r_idx].my_peer
        from ipv8.peer import Peer

        async def owner_circuit(idx, required_exit):
            ov = w.nodes[idx].overlay
            cid = ov._generate_circuit_id()

            def mk():
                circ = w.tn.Circuit(cid, 2, required_exit=required_exit)
                ov.circuits[cid] = circ
                ov.send_initial_create(circ, [R], 6)
                return circ

            def line(_):
                return f"{idx} cc {cid} 2 {w.peer_sym(required_exit)} [{r_idx + 1}] {w.env_s(idx, cid)}"
            w.track(idx, [cid])
            return await w.api(mk, line)

        async def third_party():
            # the relay has not (yet) heard P's flags when the third party's circuit joins it
            removed = [(peer, rov.candidates.pop(peer)) for peer in list(rov.candidates)
                       if peer.public_key.key_to_bin() == P.public_key.key_to_bin()]
            wrong = Peer(P.public_key, w.nodes[q_idx].endpoint.wan_address)
            await owner_circuit(a_idx, wrong)
            # deliver the third party's CREATE to the relay, then the relay learns P again
            while w.pending and w.pending[0].kind == 2:
                await w.deliver(w.pending.pop(0))
            for peer, flags in removed:
                rov.candidates[peer] = flags
            ctx.count("third-party-extend:address-of-another-node")
            await run_fifo(w, 80)

        async def victim():
            c = await owner_circuit(0, P)
            await run_fifo(w, 80)
            return c
        if order == "third-party-first":
            await third_party()
            c = await victim()
        else:
            c = await victim()
            await third_party()
        final_honest_checks(w, [c], expect_ready=True)
        await w.finish()
        return w
    finally:
        await w.close()


async def sc_flags(ctx, rng, desc):
    """nodes that do not take part: a CREATE to a node without any peer flag, a circuit whose first hop is an exit that
    does not relay (its EXTEND is ignored), an EXTEND naming an unknown key without an address"""
    w = await build_world(ctx, rng, desc)
    try:
        flagless, exit_only = len(w.nodes) - 2, len(w.nodes) - 1
        ov = w.nodes[0].overlay
        a = w.new_attacker_key()
        data = w.build_create(rng.getrandbits(32), rng.randrange(0xFFFF), w.nodes[0].my_peer.public_key.key_to_bin(),
                              a.get_crypt_pk())
        cidf, = struct.unpack_from("!I", data, 23)
        w.tampered = True
        await w.deliver(Held(w.nodes[0].endpoint.wan_address, flagless, data, 0, 2, cidf, 0), data=data)
        cid = ov._generate_circuit_id()
        peer = w.nodes[exit_only].my_peer

        def mk():
            circ = w.tn.Circuit(cid, 2)
            ov.circuits[cid] = circ
            ov.send_initial_create(circ, [peer], 6)
            return circ

        def line(_):
            return f"0 cc {cid} 2 - [{exit_only + 1}] {w.env_s(0, cid)}"
        w.track(0, [cid])
        await w.api(mk, line)
        await run_fifo(w, 40)
        # drop the first circuit again: create_circuit would otherwise offer its (non-relaying) first hop as a first hop
        await w.api(lambda: ov.remove_circuit(cid, "done", remove_now=True), lambda _: f"0 remove {cid}")
        # a second, regular circuit; once its first hop is there the owner also names a key nobody knows, no address
        c2 = await start_circuit(w, 3)
        sent = [False]
        allow = [False]
        stale = []

        async def on_msg(h: Held):
            if h.kind == -1 and h.from_idx == 0 and c2 is not None and h.cid == c2.circuit_id:
                if allow[0]:
                    allow[0] = False
                    return None
                # every EXTEND of the second circuit is delayed beyond the relay's created cache (unstable_timeout)
                stale.append(h)
                return "handled"
            if c2 is not None and c2.hops and not sent[0]:
                sent[0] = True
                allow[0] = True
                bogus = w.new_attacker_key().pub().key_to_bin()
                x = w.new_attacker_key()

                def send():
                    ov.send_cell(c2.hop.address, w.pl.ExtendPayload(c2.circuit_id, rng.randrange(0xFFFF), bogus,
                                                                    x.get_crypt_pk(), ("0.0.0.0", 0)))
                await w.api(send, lambda _: None)
            return None
        await run_fifo(w, 120, on_msg)
        if c2 is not None and c2.hops and not sent[0]:
            sent[0] = True
            allow[0] = True
            bogus = w.new_attacker_key().pub().key_to_bin()
            x = w.new_attacker_key()
            await w.api(lambda: ov.send_cell(c2.hop.address, w.pl.ExtendPayload(
                c2.circuit_id, rng.randrange(0xFFFF), bogus, x.get_crypt_pk(), ("0.0.0.0", 0))), lambda _: None)
            await run_fifo(w, 40, on_msg)
        await w.advance(w.t_retry())
        await run_fifo(w, 80, on_msg)
        await w.advance(w.t_created())
        for h in stale[:1]:
            await w.deliver(h)
        await run_fifo(w, 80)
        await w.finish()
        return w
    finally:
        await w.close()


async def sc_raw_inject(ctx, rng, desc, hops, when):
    """somebody who saw a circuit id on the wire sends cells that never went through the onion layer — an unencrypted
    EXTEND naming a node of his choice, with and without the plaintext flag, and an unencrypted EXTENDED — to every
    interface (IPv4, IPv6) of every node on the path, while the hop is fresh (created cache alive) or later"""
    w = await build_world(ctx, rng, desc)
    try:
        c = await start_circuit(w, hops)
        await run_fifo(w, 120)
        if when == "after-expiry":
            await w.advance(w.t_created())
        if c is not None:
            ov = w.nodes[0].overlay
            path = []           # (node idx, circuit id on its incoming link)
            cid = c.circuit_id
            for h in c.hops:
                i = w.addr_idx.get(h.peer.address)
                if i is None:
                    break
                path.append((i, cid))
                rr = w.nodes[i].overlay.relay_from_to.get(cid)
                if rr is None:
                    break
                cid = rr.circuit_id
            others = [i for i in range(1, len(w.nodes)) if i not in [p for p, _ in path]]
            for idx, lcid in path + [(0, c.circuit_id)]:
                m = rng.choice(others)
                mpeer = w.nodes[m].my_peer
                x = w.new_attacker_key()
                ident = rng.randrange(0xFFFF)
                w.track(idx, [lcid])
                ext = bytes([4]) + struct.pack("!HH", ident, len(mpeer.public_key.key_to_bin())) \
                    + mpeer.public_key.key_to_bin() + struct.pack("!H", 32) + x.get_crypt_pk() \
                    + w.ser.pack("ip_address", mpeer.address)
                extd = bytes([5]) + struct.pack("!HH", ident, 32) + x.get_crypt_pk() + bytes(32) + b"\x00" * 8
                ifaces = ["UDPIPv4", "UDPIPv6"] if idx in w.dual else ["single"]
                for iface in ifaces:
                    src = w.v6[m] if (iface == "UDPIPv6" and m in w.dual) else w.nodes[m].endpoint.wan_address
                    for plain in (False, True):
                        for msg, ln in ((ext, f"onextend {lcid} {ident} {m + 1} {w.sym.wire_s(x.get_crypt_pk())} 1 0 0"),
                                        (extd, f"extended {lcid} {ident} {w.sym.wire_s(x.get_crypt_pk())} J/0 J/0 0 0 -")):
                            cell = w.prefix + bytes([0]) + struct.pack("!I??", lcid, plain, True) + msg
                            await w.inject_raw(idx, cell, iface, src, ln)
                            await run_fifo(w, 40)
        await w.finish()
        return w
    finally:
        await w.close()


async def sc_id_reuse(ctx, rng, desc, variant):
    """a misbehaving relay P re-uses a circuit id at its neighbour R: P's own circuit c ends at R, P asks R to extend it to
    a slow node X, destroys c, and later gives the SAME id c to the hop of an honest originator that extends through P
    to R; then X's late CREATED (answer to the extend of the dead circuit) reaches R"""
    w = await build_world(ctx, rng, desc)
    try:
        p_idx = rng.choice([1, 2, 3])
        exits = [i for i, fl in enumerate(w.flags) if w.tn.PEER_FLAG_EXIT_BT in fl]
        r_idx = rng.choice(exits)
        x_idx = rng.choice([i for i in range(1, len(w.nodes)) if i not in (p_idx, r_idx)])
        pov, rov, ov = w.nodes[p_idx].overlay, w.nodes[r_idx].overlay, w.nodes[0].overlay
        R, P, X = w.nodes[r_idx].my_peer, w.nodes[p_idx].my_peer, w.nodes[x_idx].my_peer
        c = pov._generate_circuit_id()
        w.track(p_idx, [c])
        w.track(r_idx, [c])

        def mk():
            circ = w.tn.Circuit(c, 1, required_exit=R)
            pov.circuits[c] = circ
            pov.send_initial_create(circ, [R], 6)
            return circ
        pc = await w.api(mk, lambda _: f"{p_idx} cc {c} 1 {r_idx + 1} [{r_idx + 1}] {w.env_s(p_idx, c)}")
        await run_fifo(w, 40)
        if variant == "after-reservation":
            await w.advance(w.life_created - 8.0)          # the extend is sent late, shortly before R's reservation ends
        # P (owner of c) asks R to extend c to X; X is slow
        w.tampered = True
        xk = w.new_attacker_key()
        ident = rng.randrange(0xFFFF)
        lookups = []
        named = X.public_key.key_to_bin()
        if variant == "pending-lookup":
            # R's DHT provider really awaits (a lookup takes time): on_extend for a peer R has never heard of is
            # suspended in dht_peer_lookup; the model has no suspended on_extend, so R is not compared in this variant
            class SlowDHT:
                async def peer_lookup(self, mid, peer=None):
                    fut = asyncio.get_running_loop().create_future()
                    lookups.append(fut)
                    await fut
            rov.dht_provider = SlowDHT()
            w.adversaries.add(r_idx)
            named = w.new_attacker_key().pub().key_to_bin()
        await w.api(lambda: pov.send_cell(pc.hop.address, w.pl.ExtendPayload(c, ident, named,
                                                                        xk.get_crypt_pk(), X.address)), lambda _: None)
        slow = []

        async def hold_x(h: Held):
            if h.kind == 3 and h.dst == r_idx and h.from_idx == x_idx and not slow:
                slow.append(h)
                return "handled"
            return None
        await run_fifo(w, 40, hold_x)
        # P destroys c: R drops its exit socket
        def destroy():
            pov.remove_circuit(c, "done", remove_now=True, destroy=w.tn.DESTROY_REASON_UNNEEDED)
        await w.api(destroy, lambda _: f"{p_idx} remove {c}")
        gone = [False]

        def sync_removed():
            if not gone[0] and c not in rov.exit_sockets:
                gone[0] = True
                w._record(f"{r_idx} removeexit {c}", "[] | " + w.state_s(r_idx))
                ctx.count("id-reuse:exit-socket-destroyed")
        sync_removed()
        if variant in ("after-reservation", "pending-lookup") and not gone[0]:
            await w.advance(float(rov.settings.remove_tunnel_delay) + 0.05)
            sync_removed()
        if variant == "after-reservation":
            if not gone[0]:
                # remove_tunnel_delay: the destroyed socket lingers; tell the model as soon as it is gone
                waited = float(rov.settings.remove_tunnel_delay) + 0.05
                await w.advance(waited)
                sync_removed()
            else:
                waited = 0.0
            # R's created cache for c runs out (the create cache of the pending extend lives on)
            await w.advance(max(0.5, 8.6 - waited))
        # the honest originator's hop O -> P -> R gets the same id c from P
        pov._generate_circuit_id = lambda: c
        # from here on the model cannot follow R: it compares peers by key, the code by object identity
        w.adversaries.add(r_idx)
        cid_o = ov._generate_circuit_id()
        w.track(0, [cid_o])

        def mk_o():
            circ = w.tn.Circuit(cid_o, 2, required_exit=R)
            ov.circuits[cid_o] = circ
            ov.send_initial_create(circ, [P], 6)
            return circ
        await w.api(mk_o, lambda _: f"0 cc {cid_o} 2 {r_idx + 1} [{p_idx + 1}] {w.env_s(0, cid_o)}")
        await run_fifo(w, 80, hold_x)
        if lookups:
            # the lookup of the dead circuit's extend completes now: on_extend resumes
            ctx.count("id-reuse:suspended-on_extend-resumed")
            w.step_no += 1
            before = w.snapshot()
            for f in lookups:
                if not f.done():
                    f.set_result(None)
            await w.settle()
            w.oracle_after(before, [])
            await run_fifo(w, 80)
        co = ov.circuits.get(cid_o)
        ctx.count("id-reuse:victim-" + ("ready" if co is not None and co.state == w.tn.CIRCUIT_STATE_READY else "not-ready"))
        for h in slow:
            ctx.count("id-reuse:late-created-of-dead-circuit")
            await w.deliver(h)
        await run_fifo(w, 80)
        await w.finish()
        return w
    finally:
        await w.close()


async def sc_candidate_moves(ctx, rng, desc, hops):
    """everyone honest: between the relay's join (when it offered its candidates) and the originator's extend, the
    selected candidate B changes its address (the relay learns the new one, as after a new introduction) and another
    tunnel node becomes reachable at B's old address"""
    w = await build_world(ctx, rng, desc)
    try:
        c = await start_circuit(w, hops)
        moved = [False]

        async def on_msg(h: Held):
            # the EXTEND for the LAST hop is about to reach the relay: move the selected peer first
            if (not moved[0] and c is not None and h.kind == -1 and h.from_idx == 0 and c.unverified_hop is not None
                    and len(c.hops) == hops - 1 and len(c.hops) >= 1):
                b_idx = w.addr_idx.get(c.unverified_hop.peer.address)
                if b_idx is None:      # address unknown to the originator (0.0.0.0): find the node by key
                    kb = c.unverified_hop.peer.public_key.key_to_bin()
                    b_idx = next((i for i, n in enumerate(w.nodes) if n.my_peer.public_key.key_to_bin() == kb), None)
                on_path = {w.addr_idx.get(hp.peer.address) for hp in c.hops} | {0, b_idx}
                others = [i for i in range(1, len(w.nodes)) if i not in on_path]
                if b_idx is None or not others:
                    return None
                moved[0] = True
                c_idx = rng.choice(others)
                bn, cn = w.nodes[b_idx], w.nodes[c_idx]
                old = bn.endpoint.wan_address
                new = type(old)("10.%d.%d.%d" % (rng.randrange(1, 250), rng.randrange(250), rng.randrange(1, 250)),
                                rng.randrange(1024, 60000))
                # B now lives at `new`; the node C is (also) reachable at B's old address
                bn.endpoint.wan_address = new
                bn.endpoint.lan_address = new
                bn.my_peer.address = new
                w.mep.internet[new] = Proxy(w, b_idx, bn.endpoint)
                w.addr_idx[new] = b_idx
                w.mep.internet[old] = Proxy(w, c_idx, cn.endpoint)
                w.addr_idx[old] = c_idx
                # every node that knows B learns the new address (what a fresh introduction does to the live Peer object)
                kb = bn.my_peer.public_key.key_to_bin()
                for n in w.nodes:
                    for peer in list(n.overlay.network.verified_peers):
                        if peer.public_key.key_to_bin() == kb:
                            peer.address = new
                ctx.count("candidate-moves:address-changed-between-join-and-extend")
            return None
        await run_fifo(w, 160, on_msg)
        if moved[0]:
            final_honest_checks(w, [c], expect_ready=True)
        await w.finish()
        return w
    finally:
        await w.close()


async def sc_own_id_collision(ctx, rng, desc, order):
    """WHITE-BOX: node 0 relays somebody else's circuit and has reserved an outgoing circuit id for its extension (next
    hop slow); node 0's own `_generate_circuit_id` is then FORCED to hand out that very id for a circuit node 0
    originates itself (a 2^-32 coincidence in reality: the generator only avoids ids of existing circuits, not reserved
    ones); afterwards the late CREATED of the relayed extension arrives"""
    w = await build_world(ctx, rng, desc)
    try:
        ov = w.nodes[0].overlay
        a_idx = rng.choice([1, 2, 3])
        aov = w.nodes[a_idx].overlay
        exits = [i for i, fl in enumerate(w.flags) if w.tn.PEER_FLAG_EXIT_BT in fl]
        x_idx = rng.choice(exits)
        X, O = w.nodes[x_idx].my_peer, w.nodes[0].my_peer
        ca = aov._generate_circuit_id()
        w.track(a_idx, [ca])
        w.track(0, [ca])

        def mk():
            circ = w.tn.Circuit(ca, 2, required_exit=X)
            aov.circuits[ca] = circ
            aov.send_initial_create(circ, [O], 6)
            return circ
        await w.api(mk, lambda _: f"{a_idx} cc {ca} 2 {x_idx + 1} [1] {w.env_s(a_idx, ca)}")
        slow = []

        async def hold_x(h: Held):
            if h.kind == 3 and h.dst == 0 and h.from_idx == x_idx and not slow:
                slow.append(h)
                return "handled"
            return None
        await run_fifo(w, 60, hold_x)
        if slow:
            reserved = slow[0].cid
            w.tampered = True
            ctx.count("whitebox:forced-circuit-id-collision")
            real_gen = ov._generate_circuit_id
            ov._generate_circuit_id = lambda: reserved
            try:
                own = await start_circuit(w, rng.choice([1, 2]))
            finally:
                ov._generate_circuit_id = real_gen
            if order == "late-created-after-ready":
                await run_fifo(w, 120, hold_x)
                await w.deliver(slow[0])
            else:
                await w.deliver(slow[0])
            await run_fifo(w, 120)
        await w.finish()
        return w
    finally:
        await w.close()


async def sc_cross(ctx, rng, desc, hops, variant):
    """two circuits built at once; the first answers are exchanged between them (circuit id only / id + identifier)"""
    w = await build_world(ctx, rng, desc)
    try:
        c1 = await start_circuit(w, hops)
        c2 = await start_circuit(w, hops)
        answers = []

        async def on_msg(h: Held):
            if h.dst == 0 and h.kind == 3 and len(answers) < 2:
                answers.append(h)
                return "handled"
            return None
        await run_fifo(w, 40, on_msg)
        if len(answers) == 2:
            a, b = answers
            pa, pb = w.parse_created(a.data), w.parse_created(b.data)
            if variant == "swap-cid":
                fa = w.build_created(pb[0], pa[1], pa[2], pa[3], pa[4])
                fb = w.build_created(pa[0], pb[1], pb[2], pb[3], pb[4])
            elif variant == "swap-cid-ident":
                fa = w.build_created(pb[0], pb[1], pa[2], pa[3], pa[4])
                fb = w.build_created(pa[0], pa[1], pb[2], pb[3], pb[4])
            else:  # swap key material only
                fa = w.build_created(pa[0], pa[1], pb[2], pb[3], pb[4])
                fb = w.build_created(pb[0], pb[1], pa[2], pa[3], pa[4])
            await w.deliver(a, data=fa)
            await w.deliver(b, data=fb)
            if rng.random() < 0.7:
                await w.deliver(a)
                await w.deliver(b)
        await run_fifo(w, 120)
        await w.finish()
        return w
    finally:
        await w.close()


async def sc_relay(ctx, rng, desc, hops, pos, variant):
    """the relay in front of hop `pos` (pos >= 2) misbehaves: forges the EXTENDED itself with its real keys"""
    w = await build_world(ctx, rng, desc)
    try:
        c = await start_circuit(w, hops)
        P = w.pl
        n_created = [0]
        state = {}

        async def on_msg(h: Held):
            if h.kind == 2:
                cid, ident, npk, key = w.parse_create(h.data)
                state[("X", cid)] = key
                state["create"] = h
            if h.kind == 2 and variant == "redirect" and state.get("n_create", 0) + 1 == pos and h.from_idx != 0:
                # the relay sends the CREATE to another peer than the one selected by the originator
                state["n_create"] = state.get("n_create", 0) + 1
                others = [i for i in range(1, len(w.nodes)) if i != h.dst and i != h.from_idx]
                tgt = rng.choice(others)
                h2 = Held(h.src, tgt, h.data, h.seq, h.kind, h.cid, h.from_idx)
                w.tampered = True
                await w.deliver(h2)
                return "handled"
            if h.kind == 2:
                state["n_create"] = state.get("n_create", 0) + 1
            if h.kind == 3:
                n_created[0] += 1
                if n_created[0] == pos and h.dst != 0 and variant != "redirect":
                    relay_idx = h.dst
                    rov = w.nodes[relay_idx].overlay
                    cid, ident, key, auth, cands = w.parse_created(h.data)
                    cq = rov.request_cache.get("create", ident)
                    if cq is None:
                        return None
                    from_cid, ext_ident = cq.from_circuit_id, cq.extend_identifier
                    prev_addr = cq.peer.address
                    X = state.get(("X", cid), b"\x09" * 32)
                    if variant == "wrong-ident":
                        forged = (from_cid, (ext_ident + 1) & 0xFFFF, key, auth, cands)
                    elif variant == "ident-rand":
                        forged = (from_cid, (ext_ident + rng.randrange(1, 0xFFFF)) & 0xFFFF, key, auth, cands)
                    elif variant in ("ident-zero", "ident-ffff"):
                        b = 0 if variant == "ident-zero" else 0xFFFF
                        forged = (from_cid, b if b != ext_ident else b ^ 1, key, auth, cands)
                    elif variant == "relay-number-as-ident":
                        forged = (from_cid, ident, key, auth, cands)
                    elif variant == "eph-subst-remac":
                        _, _, k2, a2, c2 = manipulate(w, rng, "eph-subst-remac", (cid, ident, key, auth, cands), X)
                        forged = (from_cid, ext_ident, k2, a2, c2)
                    elif variant == "auth-flip":
                        forged = (from_cid, ext_ident, key, flip(auth, rng.randrange(256)), cands)
                    elif variant == "key-flip-bit255":
                        forged = (from_cid, ext_ident, flip(key, 255), auth, cands)
                    elif variant == "premature-dup":
                        forged = (from_cid, ext_ident, key, auth, cands)
                    else:
                        raise ValueError(variant)

                    w.tampered = True

                    def send():
                        rov.send_cell(prev_addr, P.ExtendedPayload(*forged))
                    await w.api(send, lambda _: None)
                    if variant == "premature-dup":
                        await w.api(send, lambda _: None)
                    # the relay then also processes the genuine CREATED (pairs and forwards) in half of the runs
                    if rng.random() < 0.5 or variant == "premature-dup":
                        await w.deliver(h)
                    return "handled"
            return None
        await run_fifo(w, 120, on_msg)
        if rng.random() < 0.4:
            await w.advance(w.t_retry())
            await run_fifo(w, 80)
        await w.finish()
        return w
    finally:
        await w.close()


async def sc_cipher_noise(ctx, rng, desc, hops):
    """network attacker on encrypted links: bit flips, duplicates and drops of EXTEND/EXTENDED cells"""
    w = await build_world(ctx, rng, desc)
    try:
        c = await start_circuit(w, hops)
        steps = 0
        while w.pending and steps < 150:
            h = w.pending.pop(rng.randrange(len(w.pending)) if rng.random() < 0.3 else 0)
            steps += 1
            r = rng.random()
            if h.kind == -1 and r < 0.25:
                pos = rng.randrange(29, len(h.data))
                await w.deliver(h, data=flip(h.data, pos * 8 + rng.randrange(8)))
                await w.deliver(h)
            elif h.kind == -1 and r < 0.35:
                await w.deliver(h)
                await w.deliver(h)
            elif r < 0.42:
                ctx.count("net:drop")
                continue
            else:
                await w.deliver(h)
            if rng.random() < 0.05:
                await w.advance(w.t_retry())
        if rng.random() < 0.5:
            await w.advance(w.t_retry())
            await run_fifo(w, 100)
        await w.finish()
        return w
    finally:
        await w.close()


async def sc_replay_expired(ctx, rng, desc, hops, variant):
    """undisturbed build, then the recorded handshake cells are REPLAYED to the responders / relays / originator: right
    away (caches alive), after the created caches expired (unstable_timeout, 60 s), or both; the established hops must
    stay keyed as they are at both ends and the circuit must keep carrying traffic"""
    w = await build_world(ctx, rng, desc)
    try:
        circuits = [await start_circuit(w, hops)]
        if variant == "two-circuits":
            circuits.append(await start_circuit(w, rng.choice([1, 2, 3])))
        await run_fifo(w, 120)
        recorded = list(w.history)

        async def replay_all(which):
            cells = [h for h in recorded if which == "all" or h.kind == 2 or (which == "to-joined" and h.dst != 0)]
            if variant == "shuffled":
                rng.shuffle(cells)
            for h in cells:
                ctx.count("replay:" + ("create" if h.kind == 2 else "created" if h.kind == 3 else "encrypted"))
                await w.deliver(h)
            await w.flush()
        if variant in ("early-and-late", "two-circuits"):
            await replay_all("all")
        await w.advance(w.t_created())
        await replay_all("creates" if variant == "creates-only" else "to-joined" if variant == "to-joined" else "all")
        if rng.random() < 0.5:
            await w.advance(w.t_retry())
            await replay_all("creates")
        await w.finish()
        return w
    finally:
        await w.close()


async def sc_relay_late(ctx, rng, desc, hops, pos):
    """answer after timeout/retry seen from the RELAY: the first candidate for hop `pos` (>= 2) answers slowly, the
    originator times out and extends to another candidate through the same relay, then the late CREATED of the first
    candidate reaches the relay (its create cache is still alive because the originator's next_hop_timeout is shorter
    than the relay's 10 s cache)"""
    w = await build_world(ctx, rng, desc)
    try:
        await start_circuit(w, hops)
        held = []
        n_created = [0]

        async def on_msg(h: Held):
            if h.kind == 3 and not held:
                n_created[0] += 1
                if n_created[0] == pos and h.dst != 0:
                    held.append(h)
                    return "handled"
            return None
        await run_fifo(w, 80, on_msg)
        await w.advance(w.nodes[0].overlay.settings.next_hop_timeout + 0.2)
        moment = desc.get("moment", "after-ready")
        if moment == "before-retry-answer" and held:
            # deliver the retry's EXTEND and CREATE, then the late answer overtakes the new candidate's CREATED
            seen = [0]

            async def until_created(h: Held):
                if h.kind == 3 and h.dst != 0 and not seen[0]:
                    seen[0] = 1
                    await w.deliver(held[0])
                    await w.deliver(h)
                    return "handled"
                return None
            await run_fifo(w, 80, until_created)
        elif moment == "back-to-back" and held:
            # the new candidate's CREATED and the late one of the first candidate are neighbours in the relay's socket
            # buffer: exactly one loop iteration lies between them
            seen = [0]

            async def tight_pair(h: Held):
                if h.kind == 3 and h.dst != 0 and not seen[0]:
                    seen[0] = 1
                    await w.deliver(h, tight=True)
                    await w.deliver(held[0], tight=True)
                    await w.settle()
                    return "handled"
                return None
            await run_fifo(w, 80, tight_pair)
        else:
            await run_fifo(w, 80)
            if held:
                if moment == "after-delay":
                    await w.advance(w.nodes[r_idx_of(w, held[0])].overlay.settings.remove_tunnel_delay + 0.5)
                await w.deliver(held[0])
        if held and desc.get("twice"):
            await w.deliver(held[0])
        await run_fifo(w, 80)
        await w.finish()
        return w
    finally:
        await w.close()


async def sc_random(ctx, rng, desc):
    """random schedule mixing everything"""
    hops = rng.choice([1, 2, 2, 3, 3])
    w = await build_world(ctx, rng, desc)
    try:
        circuits = [await start_circuit(w, hops)]
        if rng.random() < 0.3:
            circuits.append(await start_circuit(w, rng.choice([1, 2, 3])))
        seen_create = {}
        stash = []
        steps = 0
        while (w.pending or stash) and steps < 160:
            steps += 1
            if not w.pending or (stash and rng.random() < 0.15):
                h = stash.pop(rng.randrange(len(stash)))
                await w.deliver(h)
                continue
            h = w.pending.pop(rng.randrange(len(w.pending)) if rng.random() < 0.25 else 0)
            if h.kind == 2:
                cid, ident, npk, key = w.parse_create(h.data)
                seen_create[cid] = key
            r = rng.random()
            if h.kind == 3 and r < 0.45:
                created = w.parse_created(h.data)
                m = rng.choice(MANIPS)
                ctx.count("random:manip:" + m)
                forged = manipulate(w, rng, m, created, seen_create.get(created[0], b"\x09" * 32))
                await w.deliver(h, data=w.build_created(*forged))
                if rng.random() < 0.6:
                    stash.append(h)
            elif r < 0.55:
                stash.append(h)
            elif r < 0.60:
                ctx.count("net:drop")
            elif r < 0.70:
                await w.deliver(h)
                stash.append(h)
            else:
                await w.deliver(h)
            if rng.random() < 0.06:
                await w.advance(rng.choice([0.3 * w.t_retry(), w.t_retry(), w.t_retry(), w.t_created()]))
        await w.advance(w.t_retry())
        await run_fifo(w, 60)
        await w.finish()
        return w
    finally:
        await w.close()


# ------------------------------------------------------------------------------------------------------------------
def scenario_list(ctx: Ctx, tier: str):
    """the fixed enumeration (descriptor dicts)"""
    out = []
    for hops in (1, 2, 3):
        out.append({"k": "honest", "hops": hops})
        out.append({"k": "honest", "hops": hops, "shuffle": True})
        out.append({"k": "honest", "hops": hops, "dup": True})
        out.append({"k": "honest", "hops": hops, "two": True, "shuffle": True})
    follows = ["none", "genuine-after", "genuine-before", "forged-twice"]
    for hops in (1, 2, 3):
        for pos in range(1, hops + 1):
            for mi, m in enumerate(MANIPS):
                if tier == "thorough":
                    fl = follows
                else:
                    fl = [follows[(mi + hops + pos) % 4], "genuine-after"] if (hops, pos) in ((1, 1), (2, 2), (3, 2)) \
                        else [follows[(mi + hops + pos) % 4]]
                for f in dict.fromkeys(fl):
                    out.append({"k": "tamper", "hops": hops, "pos": pos, "manip": m, "follow": f})
            for v in ("as-is", "new-ident", "twice", "before-retry-answer"):
                out.append({"k": "late", "hops": hops, "pos": pos, "variant": v})
        for v in ("old-ident", "new-ident", "new-ident-after-genuine"):
            out.append({"k": "api-retry", "hops": hops, "variant": v})
        for v in ("swap-cid", "swap-cid-ident", "swap-material"):
            out.append({"k": "cross", "hops": hops, "variant": v})
        for pos in range(2, hops + 1):
            for v in ("wrong-ident", "ident-rand", "ident-zero", "ident-ffff", "relay-number-as-ident",
                      "eph-subst-remac", "auth-flip",
                      "key-flip-bit255", "premature-dup", "redirect"):
                out.append({"k": "relay", "hops": hops, "pos": pos, "variant": v})
        out.append({"k": "cipher-noise", "hops": hops})
        for pos in range(1, hops + 1):
            for order in ("old-first", "new-first", "old-twice", "overtake"):
                out.append({"k": "api-retarget", "hops": hops, "pos": pos, "order": order})
            out.append({"k": "api-retarget", "hops": hops, "pos": pos, "order": "old-first", "same": True})
        for pos in range(1, hops + 1):
            for v in ("key-short", "key-zero", "key-swap", "key-flip-bit255", "ident-change"):
                out.append({"k": "forged-create", "hops": hops, "pos": pos, "variant": v})
        out.append({"k": "forged-create", "hops": hops, "pos": 1, "variant": "own-cid-to-originator"})
        for pos in range(1, hops + 1):
            for v in ("none", "dup-while-suspended", "dup-reversed", "triple", "dup-after-resume", "dup-after-answer",
                      "refuse-then-accept"):
                out.append({"k": "slow-join", "hops": hops, "pos": pos, "variant": v, "gated": True})
        for pos in range(1, hops):
            for v in ("bad-only", "relays-then-bad", "bad-relay", "empty", "only-me", "garbage-bytes"):
                out.append({"k": "bad-candidates", "hops": hops, "pos": pos, "variant": v})
        out.append({"k": "flags", "extra_nodes": True, "n": hops})
        if hops > 1:
            out.append({"k": "candidate-moves", "hops": hops, "rtd": 0})
            out.append({"k": "candidate-moves", "hops": hops, "rtd": None, "hidden": True})
        for order in ("late-created-after-ready", "late-created-first"):
            out.append({"k": "own-id-collision", "order": order, "n": hops})
        out.append({"k": "id-reuse", "variant": "after-reservation", "n": hops, "rtd": 0})
        out.append({"k": "id-reuse", "variant": "after-reservation", "n": hops, "rtd": None})
        out.append({"k": "id-reuse", "variant": "at-once", "n": hops})
        out.append({"k": "id-reuse", "variant": "pending-lookup", "n": hops, "hidden": hops != 2})
        for when in ("fresh", "after-expiry"):
            out.append({"k": "raw-inject", "hops": hops, "when": when, "dual": [1, 2, 3, 4, 5]})
            out.append({"k": "raw-inject", "hops": hops, "when": when})
        out.append({"k": "honest", "hops": hops, "dual": [1, 2, 3, 4, 5]})
        out.append({"k": "honest", "hops": hops, "dual": [2, 4], "shuffle": True})
        if hops == 2:
            for order in ("third-party-first", "victim-first"):
                for rep_ in range(2):
                    out.append({"k": "third-party-extend", "order": order, "n": rep_})
        out.append({"k": "two-originators", "hops": hops, "shuffle": False})
        out.append({"k": "two-originators", "hops": hops, "shuffle": True})
        if hops > 1:
            out.append({"k": "honest", "hops": hops, "uncached": True})
            out.append({"k": "honest", "hops": hops, "uncached": True, "dup": True})
            out.append({"k": "late", "hops": hops, "pos": hops, "variant": "as-is", "uncached": True})
            out.append({"k": "slow-join", "hops": hops, "pos": hops, "variant": "dup-while-suspended", "gated": True,
                        "uncached": True})
            out.append({"k": "honest", "hops": hops, "req": True})
            out.append({"k": "honest", "hops": hops, "req": True, "shuffle": True})
            out.append({"k": "late", "hops": hops, "pos": hops, "variant": "as-is", "req": True})
            out.append({"k": "api-retarget", "hops": hops, "pos": hops, "order": "old-first", "req": True})
            out.append({"k": "relay-late", "hops": hops, "pos": hops, "moment": "after-ready", "rtd": None, "nht": 3,
                        "req": True})
            out.append({"k": "tamper", "hops": hops, "pos": hops, "manip": "eph-subst-remac", "follow": "genuine-after",
                        "req": True})
        for pos in range(2, hops + 1):
            for order in ("victim-first", "attacker-first", "squat-only"):
                out.append({"k": "id-squat", "hops": hops, "pos": pos, "order": order})
            out.append({"k": "id-squat", "hops": hops, "pos": pos, "order": "victim-first", "squatter": "next-hop"})
            out.append({"k": "id-squat", "hops": hops, "pos": pos, "order": "suspended", "gated": True})
            out.append({"k": "id-squat", "hops": hops, "pos": pos, "order": "suspended", "gated": True,
                        "squatter": "next-hop"})
            out.append({"k": "id-squat", "hops": hops, "pos": pos, "order": "victim-first", "gated": True})
        for v in ("creates-only", "to-joined", "all", "shuffled", "early-and-late", "two-circuits"):
            out.append({"k": "replay-expired", "hops": hops, "variant": v})
        for pos in range(2, hops + 1):
            for moment in ("after-ready", "before-retry-answer", "after-delay", "back-to-back"):
                for rtd in (0, None):
                    for hidden in (False, True):
                        out.append({"k": "relay-late", "hops": hops, "pos": pos, "moment": moment, "rtd": rtd,
                                    "nht": 3, "hidden": hidden, "twice": moment == "after-ready" and rtd is None})
    # remove_tunnel_delay: the test-suite value 0 and the shipped default (None) alternate over the enumeration
    # ... and the overlay class between TunnelCommunity and the shipped subclass HiddenTunnelCommunity
    for i, d in enumerate(out):
        d.setdefault("rtd", 0 if i % 2 == 0 else None)
        d.setdefault("hidden", (i // 2) % 2 == 1)
    return out


async def run_scenario(ctx, d: dict, sub_seed: int):
    rng = _random.Random(sub_seed)
    _random.seed(sub_seed)
    desc = {**d, "seed": sub_seed}
    k = d["k"]
    ctx.count("scenario:" + k)
    if "hops" in d:
        ctx.count(f"hops:{d['hops']}")
    if "pos" in d:
        ctx.count(f"position:{d['pos']}")
    if "manip" in d:
        ctx.count("manip:" + d["manip"])
    if "follow" in d:
        ctx.count("follow:" + d["follow"])
    if k == "honest":
        return await sc_honest(ctx, rng, desc, d["hops"], d.get("shuffle", False), d.get("dup", False), d.get("two", False))
    if k == "tamper":
        return await sc_tamper(ctx, rng, desc, d["hops"], d["pos"], d["manip"], d["follow"])
    if k == "late":
        return await sc_late(ctx, rng, desc, d["hops"], d["pos"], d["variant"])
    if k == "api-retry":
        return await sc_api_retry(ctx, rng, desc, d["hops"], d["variant"])
    if k == "cross":
        return await sc_cross(ctx, rng, desc, d["hops"], d["variant"])
    if k == "relay":
        return await sc_relay(ctx, rng, desc, d["hops"], d["pos"], d["variant"])
    if k == "cipher-noise":
        return await sc_cipher_noise(ctx, rng, desc, d["hops"])
    if k == "api-retarget":
        return await sc_api_retarget(ctx, rng, desc, d["hops"], d["pos"], d["order"])
    if k == "forged-create":
        return await sc_forged_create(ctx, rng, desc, d["hops"], d["pos"], d["variant"])
    if k == "two-originators":
        return await sc_two_originators(ctx, rng, desc, d["hops"], d["shuffle"])
    if k == "slow-join":
        return await sc_slow_join(ctx, rng, desc, d["hops"], d["pos"], d["variant"])
    if k == "bad-candidates":
        return await sc_bad_candidates(ctx, rng, desc, d["hops"], d["pos"], d["variant"])
    if k == "third-party-extend":
        return await sc_third_party_extend(ctx, rng, desc, d["order"])
    if k == "raw-inject":
        return await sc_raw_inject(ctx, rng, desc, d["hops"], d["when"])
    if k == "id-reuse":
        return await sc_id_reuse(ctx, rng, desc, d["variant"])
    if k == "candidate-moves":
        return await sc_candidate_moves(ctx, rng, desc, d["hops"])
    if k == "own-id-collision":
        return await sc_own_id_collision(ctx, rng, desc, d["order"])
    if k == "flags":
        return await sc_flags(ctx, rng, desc)
    if k == "id-squat":
        return await sc_id_squat(ctx, rng, desc, d["hops"], d["pos"], d["order"])
    if k == "replay-expired":
        return await sc_replay_expired(ctx, rng, desc, d["hops"], d["variant"])
    if k == "relay-late":
        return await sc_relay_late(ctx, rng, desc, d["hops"], d["pos"])
    if k == "random":
        return await sc_random(ctx, rng, desc)
    raise ValueError(k)


def run_all(ctx: Ctx, scenarios: list[tuple[dict, int]], use_model: bool):
    OpenSSLSK, comm, pl, tn, mep, MockIPv8, rt, ser = _imports()
    mep.AutoMockEndpoint.SEND_INET_EXCEPTION_TO_LOOP = False
    logging.disable(logging.CRITICAL)
    _patch_keygen(OpenSSLSK)
    from ipv8.messaging.anonymization import caches as _caches
    _real_secrets = _caches.secrets
    loop = vclock.new_loop()
    all_lines, all_expect, all_desc = [], [], []
    accepts = 0
    untampered = 0
    try:
        for d, sub in scenarios:
            # packet identifiers (secrets.randbelow in caches.py) are drawn from the scenario's seed: replayable
            _ids = _random.Random(sub ^ 0x5EED)
            _caches.secrets = type("SeededSecrets", (), {"randbelow": staticmethod(lambda n, _r=_ids: _r.randrange(n))})
            w = loop.run_until_complete(run_scenario(ctx, d, sub))
            accepts += w.accepts
            untampered += 0 if w.tampered else 1
            ctx.count("tampered:%s" % ("yes" if w.tampered else "no"))
            ctx.count("scenario-accepts:%d" % min(w.accepts, 4))
            all_lines += w.lines
            all_expect += w.expect
            all_desc += [w.desc] * len(w.lines)
            if len(ctx.samples) < 4 and len(w.lines) > 8:
                ctx.sample({"scenario": w.desc, "lines": w.lines[7:11], "implementation": w.expect[7:11]})
            del KEYLOG[:]
    finally:
        _caches.secrets = _real_secrets
        vclock.uninstall()
        _unpatch_keygen()
        logging.disable(logging.NOTSET)
        try:
            loop.close()
        except Exception:
            pass
        asyncio.set_event_loop(None)
    ctx.extra["hops_accepted_total"] = ctx.extra.get("hops_accepted_total", 0) + accepts
    ctx.extra["untampered_scenarios"] = ctx.extra.get("untampered_scenarios", 0) + untampered
    if use_model and all_lines:
        replies = ctx.driver().batch(all_lines)
        n_cmp = 0
        for ln, model, impl, desc in zip(all_lines, replies, all_expect, all_desc):
            if impl is None:
                if model in ("bad-op", "no-node"):
                    ctx.disagree(f"driver rejected line `{ln}`", {"scenario": desc, "line": ln})
                continue
            n_cmp += 1
            if isinstance(impl, tuple):      # compare the emitted messages only (state is compared by the next line)
                if model.split(" | ", 1)[0] != impl[1]:
                    ctx.disagree(f"model emits {model.split(' | ', 1)[0]!r} != implementation {impl[1]!r} on `{ln}`",
                                 {"scenario": desc, "line": ln, "model": model, "impl": impl[1]})
                continue
            if model != impl:
                ctx.disagree(f"model {model!r} != implementation {impl!r} on `{ln}`",
                             {"scenario": desc, "line": ln, "model": model, "impl": impl})
        ctx.extra["compared_steps"] = ctx.extra.get("compared_steps", 0) + n_cmp


# Branch classes of the hand-written model definitions (and of the code they mirror) that every quick/thorough run must
# reach at least once; if one stays at zero the run ends with exit 2 (infrastructure), never with a pass.
REQUIRED_BRANCHES = [
    "branch:answer:no-circuit", "branch:answer:no-retry-cache", "branch:answer:wrong-identifier",
    "branch:answer:malformed-key", "branch:answer:bad-auth", "branch:answer:accept-ready",
    "branch:answer:accept-extending",
    "branch:extend-after-accept:candidate", "branch:extend-after-accept:required-exit",
    "branch:extend-after-accept:send_extend-raised", "branch:extend-after-accept:undecodable-list-circuit-dropped",
    "branch:extend-after-accept:no-candidate-circuit-dropped",
    "branch:on_create:no-flags", "branch:on_create:already-joining", "branch:on_create:id-in-use-circuit",
    "branch:on_create:id-in-use-exit", "branch:on_create:malformed-key", "branch:on_create:join",
    "branch:on_create:join-suspended",
    "branch:on_extend:no-relay-flag", "branch:on_extend:no-created-cache", "branch:on_extend:unknown-key-no-address",
    "branch:on_extend:forward-cached", "branch:on_extend:forward-address",
    "branch:pairing:paired", "branch:pairing:unknown-exit-socket", "branch:pairing:outgoing-id-in-use",
    "branch:pairing:other-circuit-id",
    "branch:retry-timeout:dropped", "branch:retry-timeout:resend-create", "branch:retry-timeout:resend-extend",
    "join-resumed:joined", "join-resumed:refused-id-taken", "join-resumed:policy-declined", "timeout:create", "timeout:created",
    "accept:genuine", "accept:non-genuine-material", "tampered:no", "tampered:yes", "e2e:probe",
    "overlay-class:TunnelCommunity", "overlay-class:HiddenTunnelCommunity",
    "raw-cell:UDPIPv4:dropped", "raw-cell:UDPIPv6:dropped", "raw-cell:single:dropped",
    "schedule:next-datagram-after-one-loop-iteration",
    "id-reuse:exit-socket-destroyed", "id-reuse:late-created-of-dead-circuit", "id-reuse:suspended-on_extend-resumed",
    "candidate-moves:address-changed-between-join-and-extend", "whitebox:forced-circuit-id-collision",
]
# listed in the design but NOT required: unreachable behind the Python dispatcher / after fix 4ca5f25
UNREACHABLE_BRANCHES = ["branch:on_create:id-in-use-relay", "branch:answer:no-unverified-hop"]


def require_coverage(ctx: Ctx):
    missing = [k for k in REQUIRED_BRANCHES if not ctx.counts.get(k)]
    ctx.extra["required_branch_classes"] = {"required": len(REQUIRED_BRANCHES), "missing": missing}
    if missing:
        raise InfraError("coverage lost: branch classes never reached in this run: " + ", ".join(missing))


def generate(ctx: Ctx):
    src, _ = gen_c08.translate()
    return [("Ipv8/C08/GenCrypto.lean", src)]


def run(ctx: Ctx):
    if ctx.replay_input is not None:
        return replay(ctx, ctx.replay_input)
    sc = [(d, ctx.rng.getrandbits(32)) for d in scenario_list(ctx, ctx.tier)]
    sc += [({"k": "random", "rtd": [0, None][i % 2], "hidden": (i // 2) % 2 == 1}, ctx.rng.getrandbits(32)) for i in range(ctx.scale(60, 900))]
    if ctx.thorough():
        for _rep in range(2):
            sc += [(d, ctx.rng.getrandbits(32)) for d in scenario_list(ctx, "thorough")]
    run_all(ctx, sc, ctx.model_ok)
    if not ctx.failures and not ctx.disagreements and not ctx.broken:
        # only an otherwise green run is turned into exit 2 by lost coverage; a red verdict is never masked
        require_coverage(ctx)


def search(ctx: Ctx, reason: str):
    # a second pass over the enumeration with other seeds plus random schedules; sized so that a failing quick run stays
    # under about three minutes also on a loaded machine
    sc = [(d, ctx.rng.getrandbits(32)) for d in scenario_list(ctx, "quick")]
    sc += [({"k": "random", "rtd": [0, None][i % 2], "hidden": (i // 2) % 2 == 1}, ctx.rng.getrandbits(32)) for i in range(120)]
    run_all(ctx, sc, False)


def replay(ctx: Ctx, rec: dict):
    r = rec.get("replay", rec)
    d = dict(r.get("scenario", r))
    sub = d.pop("seed", 0)
    run_all(ctx, [(d, sub)], ctx.model_ok)
    print(f"replay: scenario {d} seed {sub}: oracle failures {len(ctx.failures)}, disagreements {len(ctx.disagreements)}; "
          f"property {'FAILS' if ctx.failures else 'holds'}")
