"""
C12 — the peer graph's lookups always agree with its membership (ipv8/peerdiscovery/network.py, ipv8/peer.py).

Link to the code:
  * translator tools/gen_c12.py regenerates lean/Ipv8/C12/Gen.lean (address type bytes of the snapshot codec,
    Peer.INTERFACE_ORDER, default cache caps) from the working tree on every run;
  * correspondence: seeded op sequences (mutators, queries with their LRU side effects, tiny cache caps, snapshots) are
    executed on a real `Network` with real `Peer` objects and, line by line, on the Lean model (driver drv_c12);
    answers are compared as sorted sets; which peer `get_verified_by_address` picks among several on one address is
    passed to the model as a hint and checked there for legality;
  * oracle (independent of the Lean model): a cache-free reference graph (`Spec`, below) is driven by the same lines;
    every query answer of the real code must be what the reference graph implies, returned Peer objects must be the
    objects held in `verified_peers`, and no query may change the graph.
"""
from __future__ import annotations

import itertools
import socket

import gen_c12
from vlib import Ctx

PROPERTY = "C12"
LEAN_TARGETS = ["Ipv8.C12.Props"]
PROPS_FILE = "Ipv8/C12/Props.lean"
DRIVER = "drv_c12"
RULE = ("op sequences over a pool of 3-5 keys x (4 IPv4 + 3 IPv6 + 2 host-name addresses + 0.0.0.0:0) x 3 services: "
        "add_verified_peer / discover_address / discover_services / remove_peer (canonical object or a fresh one) / "
        "remove_by_address / blacklist appends / load_snapshot, interleaved with all get_* queries and snapshot, cache "
        "caps drawn from {1,2,3,500}; random sequences of length 10..200 plus exhaustive enumeration of all sequences "
        "over a 20 op alphabet to depth 3 (quick) / 4 (thorough) and over a 10 op alphabet to depth 5 (thorough), each "
        "followed by a sweep of 14 queries and a second sweep of 8 (asking again); a scripted corpus of 15 shapes; distinct = "
        "distinct op-line sequence; non-trivial = contains a query after a removal/address update/service change "
        "that follows an earlier query (the stale-cache shape)")
TRUSTED_BASE = [
    "tools/gen_c12.py: reads ADDRESS_TYPE_* constants, the struct formats of Address.pack/unpack (AST), Peer.INTERFACE_ORDER and the three cache caps",
    "hand-written model of every Network mutator/query incl. LRU side effects (Ipv8/C12/Model.lean), tied by the correspondence run",
    "object identity of Peer instances is abstracted in the model (one record per key, a generation number where the code tests `is`); the harness checks identity on the real objects",
    "PeerObserver callbacks are checked by the oracle only (exactly one on_peer_added/on_peer_removed per key entering/leaving the membership); they are not in the Lean model",
    "socket.inet_pton/inet_ntop and the UTF-8 codec (text form <-> bytes of an address) are outside the model",
]
ASSUMPTIONS = [
    "Peer.mid (SHA-1 of the key) is injective on the keys in use; the model identifies a mid with its key",
    "addresses are in canonical text form (inet_ntop output), ports < 65536, host names < 65536 bytes and not parseable as IP",
    "callers do not mutate Peer.addresses of a stored peer behind the Network's back and only append to the blacklists",
    "single-threaded use (graph_lock not modelled)",
]

KEYS_HEX = [
    "4c69624e61434c504b3a20ff2047412d461b5f48f10ac5bc246d80216fd8940b75ef194bbedc54161c709085edd9c810cf39399e1399f4e0055c0202d55f1bb6cbca6d0bd77d911c8a77",
    "4c69624e61434c504b3aea6f1774e72aa38d44c14783f12a998a632e5f94cda27529e052a413f831144c5650dce761829e212f2b11fb86184f896896ec8fcefd3ee75ce6b3b4dc1b0700",
    "4c69624e61434c504b3af700332c2dbbd7d85518fcf3065669064ada476995febf5cfa1b07f8d18de93fb326727ce1cdb4dd6e8afacc1f64bd2e2931ca7a1f1d2cbbcfa16f9779b8dd62",
    "4c69624e61434c504b3aaab6bf331b03d8e8c3f37065ebe39fb0b14931293c09f8e710ca7a120fa92c3e8403abad78e078044b444988843e85aa85c8fa5be3817d98b0af3a4e0824b0c0",
    "4c69624e61434c504b3a0badf3b439113b6b5b729fa277fa6891045170fdd4e20721a93c4aa4c0a219557734b64ad736a4cca546d42ac9d2aa1b4af2cf7cc6fdd41ee1f2406022913809",
    "4c69624e61434c504b3a987758690fb4b091c26b9cfe8119ba8946f12d50d0e5935154babb0c5bd24617b4db1cebfa3892ca83ad9d10ffa68d0dc5018a4fae2f442deea03dcc9d81de60",
]

# address tokens: <kind>.<hex of packed host>.<port>; kind 4 = IPv4 text, 6 = IPv6 text, 0 = host name
V4 = ["4.0a00000%d.%d" % (i, 4000 + i) for i in range(1, 5)]
V6 = ["6.20010db80000000000000000000000%02x.%d" % (i, 6000 + i) for i in range(1, 4)]
DOM = ["0.%s.%d" % (("node%d.example.org" % i).encode().hex(), 5000 + i) for i in range(1, 3)]
ZERO = "4.00000000.0"
POOL = V4 + V6 + DOM + [ZERO]
SVCS = ["s1", "s2", "s3"]


def generate(ctx: Ctx):
    return [("Ipv8/C12/Gen.lean", gen_c12.translate())]


# ---------------------------------------------------------------------------------------------------------------
# tokens <-> python values
def addr_value(tok: str):
    kind, hx, port = tok.split(".")
    raw = bytes.fromhex(hx) if hx != "-" else b""
    if kind == "4":
        return (socket.inet_ntop(socket.AF_INET, raw), int(port))
    if kind == "6":
        return (socket.inet_ntop(socket.AF_INET6, raw), int(port))
    return (raw.decode(), int(port))


def addr_token(value) -> str:
    host, port = value[0], value[1]
    try:
        return "4.%s.%d" % (socket.inet_pton(socket.AF_INET, host).hex(), port)
    except OSError:
        pass
    try:
        return "6.%s.%d" % (socket.inet_pton(socket.AF_INET6, host).hex(), port)
    except OSError:
        pass
    return "0.%s.%d" % (host.encode().hex() or "-", port)


def parse_peer(tok: str):
    """'p1:0=<addr>,2=<addr>' -> (1, {0: addrtok, 2: addrtok})"""
    k, rest = tok.split(":", 1)
    slots = {}
    if rest != "-":
        for item in rest.split(","):
            s, a = item.split("=")
            slots[int(s)] = a
    return int(k[1:]), slots


def peer_token(k: int, slots: dict) -> str:
    return "p%d:%s" % (k, ",".join("%d=%s" % (s, slots[s]) for s in sorted(slots)) or "-")


def show_peer(k: int, slots: dict) -> str:
    return "p%d{%s}" % (k, ",".join("%d=%s" % (s, slots[s]) for s in sorted(slots)))


def show_list(items) -> str:
    return "[" + ",".join(sorted(set(items))) + "]"


def svc_bytes(tok: str) -> bytes:
    return tok.encode() * 10


class World:
    """real-code side constants (imported lazily so VERIF_REPO is honoured)"""

    def __init__(self):
        import logging
        logging.getLogger("ipv8.peerdiscovery.network").disabled = True
        from ipv8.keyvault.crypto import default_eccrypto
        from ipv8.messaging.interfaces.udp.endpoint import UDPv4Address, UDPv6Address
        from ipv8.peer import Peer
        from ipv8.peerdiscovery.network import Network
        self.Peer, self.Network = Peer, Network
        self.keys = [default_eccrypto.key_from_public_bin(bytes.fromhex(h)) for h in KEYS_HEX]
        self.key_bins = [k.key_to_bin() for k in self.keys]
        self.key_index = {kb: i for i, kb in enumerate(self.key_bins)}
        self.slot_cls = {0: UDPv4Address, 1: UDPv6Address, 2: tuple}
        self.cls_slot = {v: k for k, v in self.slot_cls.items()}
        self.mids = [Peer(k).mid for k in self.keys]

    def make_peer(self, k: int, slots: dict):
        p = self.Peer(self.keys[k])
        for s in sorted(slots):
            v = addr_value(slots[s])
            p.add_address(self.slot_cls[s](*v) if s != 2 else tuple(v))
        return p

    def peer_slots(self, peer) -> dict:
        return {self.cls_slot.get(cls, 9): addr_token(a) for cls, a in peer.addresses.items()}

    def peer_key(self, peer) -> int:
        return self.key_index[peer.public_key.key_to_bin()]


_WORLD = None


def world() -> World:
    global _WORLD
    if _WORLD is None:
        _WORLD = World()
    return _WORLD


# ---------------------------------------------------------------------------------------------------------------
# reference graph: what the set of verified peers, their addresses and advertised services imply (no caches, no
# indices).  Written from the documented meaning of each mutator; independent of the Lean model.
def snapshot_chunks(data: bytes):
    """split a snapshot into per-address chunks (independent re-implementation of the documented codec)"""
    out, off = [], 0
    while off < len(data):
        t = data[off]
        if t == 1:
            n = 7
        elif t == 3:
            n = 19
        elif t == 2:
            if off + 3 > len(data):
                break
            n = 5 + int.from_bytes(data[off + 1:off + 3], "big")
        else:
            break
        if off + n > len(data):
            break
        out.append(data[off:off + n])
        off += n
    return out, off


def chunk_addr_token(chunk: bytes) -> str:
    t = chunk[0]
    if t == 1:
        return "4.%s.%d" % (chunk[1:5].hex(), int.from_bytes(chunk[5:7], "big"))
    if t == 3:
        return "6.%s.%d" % (chunk[1:17].hex(), int.from_bytes(chunk[17:19], "big"))
    n = int.from_bytes(chunk[1:3], "big")
    return "0.%s.%d" % (chunk[3:3 + n].hex() or "-", int.from_bytes(chunk[3 + n:5 + n], "big"))


def addr_chunk(tok: str) -> bytes:
    kind, hx, port = tok.split(".")
    raw = bytes.fromhex(hx) if hx != "-" else b""
    p = int(port).to_bytes(2, "big")
    if kind == "4":
        return b"\x01" + raw + p
    if kind == "6":
        return b"\x03" + raw + p
    return b"\x02" + len(raw).to_bytes(2, "big") + raw + p


class Spec:
    ORDER = (1, 0, 2)   # preferred address: IPv6, IPv4, plain tuple

    def __init__(self):
        self.V = {}      # key -> {slot: addr}
        self.SV = {}     # key -> set(service)
        self.AA = {}     # addr -> (introducer key | None, service | None, new_style)
        self.BL = set()
        self.BLM = set()

    def add(self, k, slots):
        if k in self.BLM:
            return
        if k in self.V:
            self.V[k].update(slots)
            return
        if any(a in self.AA for a in slots.values()):
            self.V[k] = dict(slots)
        elif all(a not in self.BL for a in slots.values()):
            for a in slots.values():
                self.AA.setdefault(a, (None, None, False))
            self.V[k] = dict(slots)

    def mutate(self, t):
        op = t[0]
        if op == "add":
            self.add(*parse_peer(t[1]))
        elif op == "disc":
            k, slots = parse_peer(t[1])
            a = t[2]
            if a not in self.BL and (a not in self.AA or self.AA[a][0] not in self.V):
                self.AA[a] = (k, None if t[3] == "-" else t[3], t[4] == "1")
            self.add(k, slots)
        elif op == "svcs":
            k, _ = parse_peer(t[1])
            self.SV.setdefault(k, set()).update(parse_list(t[2]))
        elif op == "rmp":
            k, slots = parse_peer(t[1])
            for a in slots.values():
                self.AA.pop(a, None)
            self.V.pop(k, None)
            self.SV.pop(k, None)
        elif op == "rma":
            self.AA.pop(t[1], None)
            for k in [k for k, sl in self.V.items() if t[1] in sl.values()]:
                del self.V[k]
                self.SV.pop(k, None)
        elif op == "bla":
            self.BL.add(t[1])
        elif op == "blm":
            self.BLM.add(int(t[1][1:]))
        elif op == "load":
            data = bytes.fromhex(t[1]) if t[1] != "-" else b""
            chunks, _ = snapshot_chunks(data)
            for c in chunks:
                self.AA[chunk_addr_token(c)] = (None, None, False)
        elif op == "caps":
            pass
        else:
            raise ValueError(op)

    # --- answers ---
    def peers_at(self, a):
        return {k for k, sl in self.V.items() if a in sl.values()}

    def peers_for(self, s):
        return {k for k in self.V if s in self.SV.get(k, ())}

    def walkable(self, s, old_style):
        known = self.V if s is None else self.peers_for(s)
        taken = {a for k in known for a in self.V[k].values()}
        out = set(self.AA) - taken
        if s is not None:
            keep = set()
            for a in out:
                intro, svc, ns = self.AA[a]
                if old_style and ns:
                    continue
                if s in (set(self.SV.get(intro, ())) | ({svc} if svc else set())):
                    keep.add(a)
            out = keep
        return out

    def intros(self, k):
        return {a for a, w in self.AA.items() if w[0] == k}

    def preferred(self, k):
        for s in self.ORDER:
            if s in self.V[k]:
                return self.V[k][s]
        return None

    def snapshot_addrs(self):
        out = []
        for k in self.V:
            a = self.preferred(k)
            if a is not None and a != ZERO:
                out.append(a)
        return out

    def digest(self):
        return (show_list(show_peer(k, sl) for k, sl in self.V.items()),
                show_list("%s>%s/%s/%d" % (a, "-" if w[0] is None else "p%d" % w[0], w[1] or "-", w[2])
                          for a, w in self.AA.items()),
                show_list("p%d:%s" % (k, "+".join(sorted(v))) for k, v in self.SV.items()))


def parse_list(tok: str):
    inner = tok[1:-1]
    return inner.split(",") if inner else []


MUTATORS = {"add", "disc", "svcs", "rmp", "rma", "bla", "blm", "load", "caps"}
SITE = {"qa": "get_verified_by_address", "qk": "get_verified_by_public_key_bin", "qs": "get_peers_for_service",
        "qw": "get_walkable_addresses", "qi": "get_introductions_from", "qsp": "get_services_for_peer",
        "qn": "is_new_style", "snap": "snapshot"}


# ---------------------------------------------------------------------------------------------------------------
class Real:
    """the real Network driven by protocol lines"""

    def __init__(self):
        self.W = world()
        self.net = self.W.Network()

    def observe(self):
        """attach a PeerObserver; returns the (live) event list"""
        from ipv8.peerdiscovery.network import PeerObserver
        W, log = self.W, []

        class Obs(PeerObserver):
            def on_peer_added(self, peer):
                log.append(("added", W.peer_key(peer)))

            def on_peer_removed(self, peer):
                log.append(("removed", W.peer_key(peer)))
        self.net.add_peer_observer(Obs())
        return log

    def digest(self):
        W, n = self.W, self.net
        return (show_list(show_peer(W.peer_key(p), W.peer_slots(p)) for p in n.verified_peers),
                show_list("%s>%s/%s/%d" % (addr_token(a), "-" if not w.introduced_by else "p%d" % W.key_index[w.introduced_by],
                                           (w.services[:2].decode() if w.services else "-"), bool(w.new_style))
                          for a, w in n._all_addresses.items()),
                show_list("p%d:%s" % (W.key_index[k], "+".join(sorted(s[:2].decode() for s in v)))
                          for k, v in n.services_per_peer.items()))

    def peer_arg(self, tok, canonical=False):
        k, slots = parse_peer(tok)
        if canonical:
            obj = self.net.verified_by_public_key_bin.get(self.W.key_bins[k])
            if obj is not None and self.W.peer_slots(obj) == slots:
                return obj
        return self.W.make_peer(k, slots)

    def canonical_token(self, k):
        """token of the stored object for key k (None when there is none)"""
        obj = self.net.verified_by_public_key_bin.get(self.W.key_bins[k])
        if obj is None:
            for p in self.net.verified_peers:
                if self.W.peer_key(p) == k:
                    obj = p
        return None if obj is None else peer_token(k, self.W.peer_slots(obj))

    def mutate(self, t):
        n, W = self.net, self.W
        op = t[0]
        if op == "caps":
            n.reverse_ip_cache_size, n.reverse_intro_cache_size, n.reverse_service_cache_size = map(int, t[1:4])
        elif op == "add":
            n.add_verified_peer(self.peer_arg(t[1]))
        elif op == "disc":
            v = addr_value(t[2])
            a = W.slot_cls[0](*v) if t[2][0] == "4" else W.slot_cls[1](*v) if t[2][0] == "6" else tuple(v)
            n.discover_address(self.peer_arg(t[1]), a, None if t[3] == "-" else svc_bytes(t[3]), t[4] == "1")
        elif op == "svcs":
            n.discover_services(self.peer_arg(t[1]), [svc_bytes(s) for s in parse_list(t[2])])
        elif op == "rmp":
            n.remove_peer(self.peer_arg(t[1], canonical=True))
        elif op == "rma":
            n.remove_by_address(tuple(addr_value(t[1])))
        elif op == "bla":
            n.blacklist.append(tuple(addr_value(t[1])))
        elif op == "blm":
            n.blacklist_mids.append(W.mids[int(t[1][1:])])
        elif op == "load":
            n.load_snapshot(bytes.fromhex(t[1]) if t[1] != "-" else b"")
        else:
            raise ValueError(op)

    def query(self, t):
        """returns (canonical answer string, list of returned Peer objects)"""
        n, W = self.net, self.W
        op = t[0]
        if op == "qa":
            p = n.get_verified_by_address(tuple(addr_value(t[1])))
            return ("none" if p is None else show_peer(W.peer_key(p), W.peer_slots(p))), ([p] if p is not None else [])
        if op == "qk":
            p = n.get_verified_by_public_key_bin(W.key_bins[int(t[1][1:])])
            return ("none" if p is None else show_peer(W.peer_key(p), W.peer_slots(p))), ([p] if p is not None else [])
        if op == "qs":
            ps = n.get_peers_for_service(svc_bytes(t[1]))
            return show_list(show_peer(W.peer_key(p), W.peer_slots(p)) for p in ps), list(ps)
        if op == "qw":
            r = n.get_walkable_addresses(None if t[1] == "-" else svc_bytes(t[1]), t[2] == "1")
            return show_list(addr_token(a) for a in r), []
        if op == "qi":
            r = n.get_introductions_from(W.make_peer(int(t[1][1:]), {}))
            return show_list(addr_token(a) for a in r), []
        if op == "qsp":
            r = n.get_services_for_peer(W.make_peer(int(t[1][1:]), {}))
            return show_list(s[:2].decode() for s in r), []
        if op == "qn":
            return ("1" if n.is_new_style(tuple(addr_value(t[1]))) else "0"), []
        if op == "snap":
            data = n.snapshot()
            chunks, end = snapshot_chunks(data)
            if end != len(data):
                return "undecodable:" + data.hex(), []
            return "[" + ",".join(sorted(c.hex() for c in chunks)) + "]", []
        raise ValueError(op)


# ---------------------------------------------------------------------------------------------------------------
def check_query(ctx: Ctx, spec: Spec, real: Real, t, got: str, objs, history, line_no):
    """the property itself, evaluated on the implementation's answer (independent of the Lean model)"""
    op = t[0]
    site = SITE[op]
    W = real.W

    def fail(kind, what):
        ctx.oracle_fail(f"{site}:{kind}", f"{what} (line {line_no}: `{' '.join(t)}`)",
                        {"lines": history[:line_no + 1], "failing_line": line_no, "answer": got})
        ctx.count(f"oracle_fail:{site}:{kind}")

    # returned Peer objects must be verified and be the stored objects
    for p in objs:
        k = W.peer_key(p)
        if k not in spec.V:
            fail("unverified-peer", f"returns p{k}, which is not a verified peer")
            return
        held = [q for q in real.net.verified_peers if q == p]
        if not held or held[0] is not p:
            fail("stale-object", f"returns a Peer object for p{k} that is not the one in verified_peers")
            return
    if op == "qa":
        allowed = {show_peer(k, spec.V[k]) for k in spec.peers_at(t[1])}
        if got == "none":
            if allowed:
                fail("missing", f"no peer returned although {sorted(allowed)} use the address")
        elif got not in allowed:
            fail("not-at-address", f"returns {got}, the peers at the address are {sorted(allowed)}")
    elif op == "qk":
        k = int(t[1][1:])
        exp = show_peer(k, spec.V[k]) if k in spec.V else "none"
        if got != exp:
            fail("missing" if got == "none" else "wrong-peer", f"returns {got}, expected {exp}")
    elif op == "qs":
        exp = show_list(show_peer(k, spec.V[k]) for k in spec.peers_for(t[1]))
        if got != exp:
            g, e = set(parse_list(got)), set(parse_list(exp))
            fail("extra" if g - e else "missing", f"returns {got}, expected {exp}")
    elif op == "qw":
        exp = show_list(spec.walkable(None if t[1] == "-" else t[1], t[2] == "1"))
        if got != exp:
            g, e = set(parse_list(got)), set(parse_list(exp))
            fail("extra" if g - e else "missing", f"returns {got}, expected {exp}")
    elif op == "qi":
        exp = show_list(spec.intros(int(t[1][1:])))
        if got != exp:
            g, e = set(parse_list(got)), set(parse_list(exp))
            fail("extra" if g - e else "missing", f"returns {got}, expected {exp}")
    elif op == "qsp":
        exp = show_list(spec.SV.get(int(t[1][1:]), ()))
        if got != exp:
            fail("mismatch", f"returns {got}, expected {exp}")
    elif op == "qn":
        exp = "1" if spec.AA.get(t[1], (None, None, False))[2] else "0"
        if got != exp:
            fail("mismatch", f"returns {got}, expected {exp}")
    elif op == "snap":
        exp = "[" + ",".join(sorted(addr_chunk(a).hex() for a in spec.snapshot_addrs())) + "]"
        if got != exp:
            fail("mismatch", f"returns {got}, expected {exp}")


def classify(spec: "Spec", real: "Real", t) -> list:
    """input class / branch of one protocol line, derived from the reference graph before the line is executed
    (evidence only: which branches of network.py the generators reach, and how often)"""
    op = t[0]
    out = []
    if op in ("add", "disc"):
        k, slots = parse_peer(t[1])
        vals = list(slots.values())

        def add_branch():
            if k in spec.BLM:
                return "blacklisted-mid"
            if k in spec.V:
                return "address-update" if any(spec.V[k].get(s_) != a for s_, a in slots.items()) else "known-no-change"
            if any(a in spec.AA for a in vals):
                return "some-address-known" + ("+blacklisted-address" if any(a in spec.BL for a in vals) else "")
            if all(a not in spec.BL for a in vals):
                return "all-addresses-new" if vals else "no-address"
            return "refused-blacklisted-address"
        if op == "disc":
            a = t[2]
            if a in spec.BL:
                out.append("disc:blacklisted-address")
            elif a not in spec.AA:
                out.append("disc:new-address")
            elif spec.AA[a][0] not in spec.V:
                out.append("disc:reassigned(introducer-gone)")
            else:
                out.append("disc:kept(introducer-verified)")
            if k in spec.V and a in spec.V[k].values():
                out.append("disc:own-address")
        out.append(f"{op}>add:{add_branch()}")
    elif op == "rmp":
        k, slots = parse_peer(t[1])
        if k not in spec.V:
            out.append("rmp:key-not-verified")
        elif spec.V[k] == slots:
            out.append("rmp:stored-object")
        else:
            out.append("rmp:fresh-object-other-addresses")
    elif op == "rma":
        n = len(spec.peers_at(t[1]))
        out.append("rma:removes-%s-peers" % (n if n < 2 else "2+"))
        if n and t[1] not in spec.AA:
            out.append("rma:address-used-by-verified-peer-but-not-in-_all_addresses")
    elif op == "load":
        data = bytes.fromhex(t[1]) if t[1] != "-" else b""
        chunks, end = snapshot_chunks(data)
        out.append("load:%s-addresses" % (len(chunks) if len(chunks) < 3 else "3+"))
        if end != len(data):
            out.append("load:garbage-tail")
        if any(chunk_addr_token(c) in spec.BL for c in chunks):
            out.append("load:blacklisted-address")
        if any(spec.AA.get(chunk_addr_token(c), (None,))[0] is not None for c in chunks):
            out.append("load:overwrites-introduced-address")
    elif op == "svcs":
        k, _ = parse_peer(t[1])
        out.append("svcs:" + ("verified-peer" if k in spec.V else "unverified-peer"))
    elif op == "qa":
        n = len(spec.peers_at(t[1]))
        out.append("qa:%s-candidates" % (n if n < 2 else "2+"))
        c = real.net.reverse_ip_lookup
        out.append("qa:cache-" + ("hit" if tuple(addr_value(t[1])) in c else "miss")
                   + ("+full" if len(c) >= real.net.reverse_ip_cache_size else ""))
    elif op == "qs" or (op == "qw" and t[1] != "-"):
        c = real.net.reverse_service_lookup
        out.append(f"{op}:cache-" + ("hit" if svc_bytes(t[1]) in c else "miss")
                   + ("+full" if len(c) >= real.net.reverse_service_cache_size else ""))
    elif op == "qi":
        c = real.net.reverse_intro_lookup
        hit = any(real.W.peer_key(p) == int(t[1][1:]) for p in c)
        out.append("qi:cache-" + ("hit" if hit else "miss") + ("+full" if len(c) >= real.net.reverse_intro_cache_size else ""))
    elif op == "snap":
        miss = sum(1 for k in spec.V if spec.preferred(k) is not None and spec.preferred(k) not in spec.AA)
        out.append("snap:%s-verified-peers" % (len(spec.V) if len(spec.V) < 3 else "3+"))
        if miss:
            out.append("snap:peer-address-not-in-_all_addresses")
        if any(spec.preferred(k) in (None, ZERO) for k in spec.V):
            out.append("snap:peer-without-usable-address")
    return out


def sweep_lines(keys, addrs):
    """every query once"""
    out = []
    for k in keys:
        out.append(f"qk p{k}")
        out.append(f"qi p{k}")
        out.append(f"qsp p{k}")
    for a in addrs:
        out.append(f"qa {a} ?")
        out.append(f"qn {a}")
    for s in SVCS:
        out.append(f"qs {s}")
        out.append(f"qw {s} 0")
        out.append(f"qw {s} 1")
    out.append("qw - 0")
    out.append("snap")
    return out


def execute(ctx: Ctx, lines, tag: str):
    """run one sequence on the real code and the reference graph; returns the lines actually sent to the model
    (rmp '*' resolved to the stored object's addresses, qa hints filled in) and the implementation's answers"""
    spec, real = Spec(), Real()
    sent, answers = [], []
    last = real.digest()
    events = real.observe()
    for i, ln in enumerate(lines):
        t = ln.split()
        if t[0] == "rmp" and t[1].endswith(":*"):
            k = int(t[1][1:-2])
            tok = real.canonical_token(k)
            t[1] = tok if tok is not None else f"p{k}:-"
        if t[0] != "caps":
            for c in classify(spec, real, t):
                ctx.count("class:" + c)
        if t[0] in MUTATORS:
            del events[:]
            keys_before = set(spec.V)
            try:
                real.mutate(t)
                ans = "ok"
            except Exception as e:  # no mutator may raise on these inputs
                ans = "raised:" + type(e).__name__
                ctx.oracle_fail(f"{t[0]}:raised", f"{ln} raised {e!r}", {"lines": sent + [" ".join(t)], "failing_line": i})
            spec.mutate(t)
            sent.append(" ".join(t))
            answers.append(ans)
            # PeerObserver callbacks: exactly the keys that entered / left the membership, once each
            want = sorted([("added", k) for k in set(spec.V) - keys_before] + [("removed", k) for k in keys_before - set(spec.V)])
            if sorted(events) != want:
                ctx.oracle_fail(f"{_MUT_SITE[t[0]]}:observer-events", f"after `{' '.join(t)}` observers saw {sorted(events)}, "
                                f"membership changed by {want}", {"lines": sent[:], "failing_line": i})
                ctx.count(f"oracle_fail:{_MUT_SITE[t[0]]}:observer-events")
                return sent, answers, False
            for ev, _k in want:
                ctx.count("class:observer:" + ev)
            last = real.digest()
            if last != spec.digest():
                d_r, d_s = last, spec.digest()
                part = ["verified_peers", "_all_addresses", "services_per_peer"][[a == b for a, b in zip(d_r, d_s)].index(False)]
                ctx.oracle_fail(f"{_MUT_SITE[t[0]]}:{part}", f"after `{' '.join(t)}` {part} is "
                                f"{d_r[['verified_peers', '_all_addresses', 'services_per_peer'].index(part)]}, the graph implies "
                                f"{d_s[['verified_peers', '_all_addresses', 'services_per_peer'].index(part)]}",
                                {"lines": sent[:], "failing_line": i})
                ctx.count(f"oracle_fail:{_MUT_SITE[t[0]]}:{part}")
                return sent, answers, False
        else:
            before = last
            try:
                got, objs = real.query(t)
            except Exception as e:
                got, objs = "raised:" + type(e).__name__, []
                ctx.oracle_fail(f"{SITE[t[0]]}:raised", f"{ln} raised {e!r}", {"lines": sent + [ln], "failing_line": i})
            if t[0] == "qa":
                t[2] = got.split("{")[0] if got != "none" else "-"
            sent.append(" ".join(t))
            answers.append(got)
            last = real.digest()
            if last != before:
                ctx.oracle_fail(f"{SITE[t[0]]}:query-mutates-state", f"`{' '.join(t)}` changed the graph: {before} -> {last}",
                                {"lines": sent[:], "failing_line": i})
                ctx.count(f"oracle_fail:{SITE[t[0]]}:query-mutates-state")
                return sent, answers, False
            if not got.startswith("raised:"):
                check_query(ctx, spec, real, t, got, objs, sent, i)
    return sent, answers, True


_MUT_SITE = {"add": "add_verified_peer", "disc": "discover_address", "svcs": "discover_services", "rmp": "remove_peer",
             "rma": "remove_by_address", "bla": "blacklist", "blm": "blacklist_mids", "load": "load_snapshot",
             "caps": "caps"}


# ---------------------------------------------------------------------------------------------------------------
# generators
def rand_slots(rng, rich=True):
    slots = {}
    r = rng.random()
    if r < 0.04:
        return slots
    if r < 0.7:
        slots[0] = rng.choice(V4 if rng.random() < 0.95 else [ZERO])
    if rng.random() < 0.25 or not slots:
        slots[1] = rng.choice(V6)
    if rng.random() < 0.15:
        slots[2] = rng.choice(V4 + DOM)
    return slots


def random_sequence(rng, length, nkeys):
    caps = [rng.choice([1, 2, 3, 500]) for _ in range(3)]
    lines = ["caps %d %d %d" % tuple(caps)]
    keys = list(range(nkeys))
    addrs = POOL
    # occasionally blacklist up front
    if rng.random() < 0.3:
        lines.append("blm p%d" % rng.choice(keys))
    if rng.random() < 0.3:
        lines.append("bla %s" % rng.choice(addrs))
    if rng.random() < 0.15:
        n = rng.randrange(0, 4)
        data = b"".join(addr_chunk(rng.choice(addrs)) for _ in range(n))
        if rng.random() < 0.3:
            data += bytes(rng.randrange(256) for _ in range(rng.randrange(1, 9)))
        lines.append("load %s" % (data.hex() or "-"))
    weights = [("add", 14), ("disc", 12), ("svcs", 9), ("rmp", 7), ("rma", 6), ("bla", 1), ("blm", 1), ("load", 1),
               ("qa", 12), ("qk", 6), ("qs", 8), ("qw", 9), ("qi", 8), ("qsp", 2), ("qn", 1), ("snap", 2)]
    names = [w[0] for w in weights]
    ws = [w[1] for w in weights]
    for _ in range(length):
        op = rng.choices(names, ws)[0]
        k = rng.choice(keys)
        if op == "add":
            lines.append("add " + peer_token(k, rand_slots(rng)))
        elif op == "disc":
            lines.append("disc %s %s %s %d" % (peer_token(k, rand_slots(rng)), rng.choice(addrs),
                                               rng.choice(SVCS + ["-"]), rng.random() < 0.4))
        elif op == "svcs":
            n = rng.choice([0, 1, 1, 1, 2, 3])
            lines.append("svcs %s [%s]" % (peer_token(k, rand_slots(rng)), ",".join(rng.sample(SVCS, n))))
        elif op == "rmp":
            lines.append("rmp " + (f"p{k}:*" if rng.random() < 0.7 else peer_token(k, rand_slots(rng))))
        elif op == "rma":
            lines.append("rma " + rng.choice(addrs))
        elif op == "bla":
            lines.append("bla " + rng.choice(addrs))
        elif op == "blm":
            lines.append("blm p%d" % k)
        elif op == "load":
            data = b"".join(addr_chunk(rng.choice(addrs)) for _ in range(rng.randrange(0, 3)))
            lines.append("load %s" % (data.hex() or "-"))
        elif op == "qa":
            lines.append("qa %s ?" % rng.choice(addrs))
        elif op == "qk":
            lines.append("qk p%d" % k)
        elif op == "qs":
            lines.append("qs " + rng.choice(SVCS))
        elif op == "qw":
            lines.append("qw %s %d" % (rng.choice(SVCS + ["-"]), rng.random() < 0.3))
        elif op == "qi":
            lines.append("qi p%d" % k)
        elif op == "qsp":
            lines.append("qsp p%d" % k)
        elif op == "qn":
            lines.append("qn " + rng.choice(addrs))
        else:
            lines.append("snap")
    sw = sweep_lines(keys, addrs)
    return lines + sw + sw


A0, A1, A2 = V4[0], V4[1], V4[2]
EXH_ALPHABET = [
    f"add p0:0={A0}", f"add p0:0={A1}", f"add p1:0={A0}", f"add p1:0={A1}",
    f"disc p0:0={A0} {A2} s1 0", f"disc p1:0={A1} {A2} s2 1",
    "svcs p0:- [s1]", "svcs p1:- [s1,s2]",
    "rmp p0:*", "rmp p1:*", f"rma {A0}", f"rma {A2}",
    f"qa {A0} ?", f"qa {A1} ?", "qs s1", "qw s1 0", "qw s2 0", "qi p0", "qi p1", "qk p0",
]
EXH_SWEEP = ([f"qk p{k}" for k in (0, 1)] + [f"qi p{k}" for k in (0, 1)] + [f"qa {a} ?" for a in (A0, A1, A2)]
             + ["qs s1", "qs s2", "qw s1 0", "qw s2 0", "qw s1 1", "qw - 0", "snap"])
EXH_AGAIN = ["qk p0", "qi p0", "qi p1", f"qa {A0} ?", f"qa {A1} ?", "qs s1", "qw s1 0", "qw s2 0"]


def stale_shape(lines) -> bool:
    """a query, later a removal / update / service change, later another query"""
    st = 0
    for ln in lines:
        q = ln[0] == "q" or ln.startswith("snap")
        if st == 0 and q:
            st = 1
        elif st == 1 and not q and not ln.startswith("caps"):
            st = 2
        elif st == 2 and q:
            return True
    return False


def run_batch(ctx: Ctx, seqs, tag, use_model):
    """execute sequences on the implementation (+ oracle) and, in one driver batch, on the model"""
    all_lines, all_answers, marks = [], [], []
    for lines in seqs:
        sent, answers, _ok = execute(ctx, lines, tag)
        ctx.case("\n".join(sent), stale_shape(sent))
        ctx.count(f"{tag}:sequences")
        ctx.count(f"{tag}:len<=%d" % (10 if len(sent) <= 10 else 50 if len(sent) <= 50 else 100 if len(sent) <= 100 else 400))
        for ln, a in zip(sent, answers):
            op = ln.split(" ", 1)[0]
            ctx.count(f"op:{op}")
            if op == "qa":
                ctx.count("qa:" + ("none" if a == "none" else "some"))
            elif op in ("qs", "qw", "qi"):
                ctx.count(f"{op}:" + ("empty" if a == "[]" else "nonempty"))
        start = len(all_lines)
        all_lines.append("reset")
        all_answers.append("ok")
        all_lines += sent
        all_answers += answers
        marks.append((start, len(all_lines)))
    if use_model and ctx.model_ok and all_lines:
        replies = ctx.driver().batch(all_lines)
        for (s, e) in marks:
            for i in range(s, e):
                if replies[i] != all_answers[i]:
                    ctx.disagree(f"model {replies[i]!r} != implementation {all_answers[i]!r} on `{all_lines[i]}` "
                                 f"(line {i - s - 1} of a {tag} sequence)",
                                 {"lines": all_lines[s + 1:i + 1], "model": replies[i], "impl": all_answers[i]})
                    break
        # model-side cache statistics (informational): how often eviction happened in the model
        ctx.count(f"{tag}:driver_lines", len(all_lines))


def exhaustive(ctx: Ctx, depth: int, use_model: bool, alphabet=None):
    alphabet = alphabet or EXH_ALPHABET
    caps = "caps 1 1 1"
    batch = []
    for d in range(1, depth + 1):
        for combo in itertools.product(alphabet, repeat=d):
            # symmetry / redundancy pruning: a sequence that starts with a query on the empty graph adds nothing
            if combo[0][0] == "q" and d > 1:
                continue
            batch.append([caps] + list(combo) + EXH_SWEEP + EXH_AGAIN)
            if len(batch) >= 20000:
                run_batch(ctx, batch, f"exhaustive", use_model)
                batch = []
    if batch:
        run_batch(ctx, batch, f"exhaustive", use_model)


def scripted():
    """the hand-found shapes of DESIGN.md section 6 item 8, kept as a corpus"""
    a, b, x = V4[0], V4[1], V4[2]
    return [
        ["caps 500 500 500", f"add p0:0={a}", f"qa {a} ?", "rmp p0:*", f"qa {a} ?", "qk p0"],
        ["caps 500 500 500", f"add p0:0={a}", f"rma {a}", "qk p0", f"add p0:0={a}", f"qa {a} ?", "qk p0"],
        ["caps 500 500 500", f"add p0:0={a}", "svcs p0:- [s1]", f"disc p0:0={a} {x} s2 0", "qs s2", "qw s2 0", "qs s2",
         "qsp p0"],
        ["caps 500 500 500", f"add p0:0={a}", f"qa {a} ?", f"add p0:0={b}", f"qa {a} ?", f"qa {b} ?"],
        ["caps 500 500 500", f"add p0:0={a}", f"disc p0:0={a} {x} s1 0", "qi p0", f"rma {x}", "qi p0", "qw - 0"],
        ["caps 500 500 500", "svcs p0:- [s1]", "qs s1", f"add p0:0={a}", "qs s1"],
        ["caps 500 1 500", f"disc p0:0={a} {x} s1 0", f"disc p1:0={b} {V4[3]} s1 0", f"disc p0:0={a} {V6[0]} s1 0", "qi p0"],
        ["caps 500 500 500", f"disc p0:0={a} {x} s1 0", "qi p0", "rmp p0:*", f"disc p1:0={b} {x} s1 0", "qi p0", "qi p1"],
        # a re-added key is a new Peer object: a cached object of the old incarnation must not be returned
        ["caps 500 500 500", f"add p0:0={a}", f"qa {a} ?", "rmp p0:*", f"add p0:0={b}", f"qa {a} ?", f"qa {b} ?"],
        ["caps 500 500 500", f"add p0:0={a}", "svcs p0:- [s1]", "qs s1", "rmp p0:*", f"add p0:0={b}", "qs s1", "qw s1 0"],
        # a verified peer whose address is NOT in _all_addresses (address update / shared address + remove_peer):
        # removal by that address, lookups and the snapshot must still see it
        ["caps 1 1 1", f"add p0:0={b}", f"add p0:0={a}", f"qa {a} ?", f"rma {a}", "qk p0", f"qa {a} ?", f"add p0:0={a}", "qk p0"],
        ["caps 500 500 500", f"add p0:0={a}", f"add p0:0={b}", "snap", f"qa {b} ?", "qw - 0"],
        ["caps 500 500 500", f"add p0:0={a}", f"add p1:0={a}", "rmp p0:*", "snap", f"qa {a} ?", f"rma {a}", "qk p1", "snap"],
        # load_snapshot over an introduced address, eviction of the service and address caches
        ["caps 1 1 1", f"disc p0:0={a} {x} s1 0", "qi p0", "load " + addr_chunk(x).hex(), "qi p0", "qw - 0"],
        ["caps 1 1 1", f"add p0:0={a}", f"add p1:0={b}", "svcs p0:- [s1]", "svcs p1:- [s2]", "qs s1", "qs s2", "qs s1",
         f"qa {a} ?", f"qa {b} ?", f"qa {a} ?"],
    ]


def run(ctx: Ctx):
    if ctx.replay_input is not None:
        return replay(ctx, ctx.replay_input)
    use_model = ctx.model_ok
    run_batch(ctx, [s + EXH_SWEEP for s in scripted()], "scripted", use_model)
    exhaustive(ctx, ctx.scale(3, 4), use_model)
    rng = ctx.rng
    seqs = []
    for i in range(ctx.scale(1500, 10000)):
        length = rng.choice([10, 20, 40, 80, 200]) if i % 10 else 200
        seqs.append(random_sequence(rng, length, rng.choice([3, 3, 4, 5])))
        if len(seqs) >= 2000:
            run_batch(ctx, seqs, "random", use_model)
            seqs = []
    run_batch(ctx, seqs, "random", use_model)
    if ctx.thorough():
        # deeper enumeration over a reduced alphabet
        small = [EXH_ALPHABET[i] for i in (0, 1, 4, 6, 8, 10, 11, 12, 14, 17)]
        exhaustive(ctx, 5, use_model, small)


def search(ctx: Ctx, reason: str):
    run_batch(ctx, [s + EXH_SWEEP for s in scripted()], "search", False)
    exhaustive(ctx, 4, False)
    rng = ctx.rng
    run_batch(ctx, [random_sequence(rng, rng.choice([20, 60, 200]), rng.choice([3, 4, 5])) for _ in range(6000)],
              "search", False)


def replay(ctx: Ctx, rec: dict):
    r = rec.get("replay", rec)
    lines = r["lines"]
    before = len(ctx.failures)
    sent, answers, _ = execute(ctx, lines, "replay")
    for ln, a in zip(sent, answers):
        print(f"replay: {ln:60s} -> {a}")
    ctx.case("\n".join(sent), True)
    bad = ctx.failures[before:]
    print("replay: property " + ("FAILS: " + bad[0]["what"] if bad else "holds on this input"))
