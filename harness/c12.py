"""
C12 — the peer graph's lookups always agree with its membership (ipv8/peerdiscovery/network.py, ipv8/peer.py).

Link to the code:
  * translator tools/gen_c12.py regenerates lean/Ipv8/C12/Gen.lean (address type bytes of the snapshot codec,
    Peer.INTERFACE_ORDER, default cache caps) from the working tree on every run;
  * correspondence: seeded op sequences (mutators, in-place updates of stored Peer objects, queries with their LRU side
    effects, tiny cache caps, snapshots) are executed on a real `Network` with real `Peer` objects and, line by line, on
    the Lean model (driver drv_c12); list answers are compared as sorted MULTISETS (duplicates count); which peer
    `get_verified_by_address` picks among several on one address is passed to the model as a hint that is followed only
    if it is a legal answer;
  * oracle (independent of the Lean model): a cache-free reference graph (`Spec`, below) is driven by the same lines;
    every query answer of the real code must be what the reference graph implies (no duplicates), returned Peer objects
    must be the objects held in `verified_peers`, no query may change the graph, the caches must stay within their caps.
"""
from __future__ import annotations

import itertools
import signal
import socket

import gen_c12
from vlib import Ctx, InfraError

PROPERTY = "C12"
LEAN_TARGETS = ["Ipv8.C12.Props"]
PROPS_FILE = "Ipv8/C12/Props.lean"
DRIVER = "drv_c12"
RULE = ("op sequences over a pool of 3-6 keys x (4 IPv4 + 3 IPv6 + 2 host-name addresses + 0.0.0.0:0 + 3 boundary addresses) x 5 address "
        "classes (UDPv4Address, UDPv6Address, tuple, UDPv4LANAddress, DomainAddress; constructor address or add_address) x "
        "services s1-s3 and the empty service id: add_verified_peer / discover_address / discover_services with fresh Peer "
        "objects or with the stored object, in-place add_address on the stored object, remove_peer (stored object or a "
        "fresh one), remove_by_address, blacklist appends, load_snapshot (valid, truncated, corrupted, UTF-8 host names), "
        "address arguments passed as objects of any of the 5 classes, up to two blacklisted mids, the implementation's own "
        "snapshot fed back, services passed as list/tuple/one-shot generator/dict view/reused caller-owned set, discovery "
        "strategies (EdgeWalk, RandomWalk) run as consumers of the live objects the lookups return, re-entrant observers (a "
        "peer-limit observer removing the newcomer inside on_peer_added, an observer probing the lookups during the callback), "
        "IPv6 addresses with several text renderings (IPv4-mapped/-compatible, loopback, mid zero run), host names that lenient "
        "parsers read as IPv4 (10.1, 4242, 0x7f.1, 1.2.3), interleaved with all get_* queries and snapshot; cache caps from {1,2,3,500}, raised mid-history. Random sequences of length 10..200 "
        "are steered by a reference graph so that removals, updates and lookups mostly hit existing peers/addresses; "
        "exhaustive enumeration of all sequences over a 20 op alphabet (3 keys, 3 addresses, 2 services; caps 1/1/1) to "
        "depth 3 (quick) / 4 (thorough) and over a 10 op sub-alphabet to depth 5 (thorough), each followed by a sweep of "
        "14 queries and a second sweep of 8; a scripted corpus. distinct = distinct op-line sequence; non-trivial = "
        "contains a query after a removal/address update/service change that follows an earlier query (stale-cache shape). "
        "NOTE: the design promised exhaustive depth 6 over 3 peers; that is not delivered (cost), see design.d/C12.md")
TRUSTED_BASE = [
    "tools/gen_c12.py: reads ADDRESS_TYPE_* constants, the struct formats of Address.pack/unpack (AST), Peer.INTERFACE_ORDER, the three cache caps, and translates the guards / store effects of network.py's property-carrying paths into Lean Bool functions (atoms recognised structurally)",
    "hand-written model of every Network mutator/query incl. LRU side effects (Ipv8/C12/Model.lean), tied by the correspondence run; cache ORDER/eviction policy is tied only through answers and the cap bound",
    "the Python reference graph `Spec` (harness/c12.py) and the Lean `Graph.step` are transcriptions of what the code's mutators do to the membership (without index and caches), not an independent specification of the mutators; what is independent is the meaning of the by-key / by-address lookups; the per-service, walkable and introduction conditions restate the code's filters",
    "object identity of Peer instances is modelled as generation numbers (index, set, address cache); the service cache is by key; the harness checks identity on the real objects",
    "PeerObserver callbacks are checked by the oracle only; they are not in the Lean model",
    "socket.inet_pton/inet_ntop (text form <-> bytes of an address) are outside the model",
]
ASSUMPTIONS = [
    "Peer.mid (SHA-1 of the key) is injective on the keys in use; the model identifies a mid with its key",
    "addresses are in canonical text form (inet_ntop output; a non-canonical IPv6 text does not survive snapshot/load in the code), ports < 65536, host names < 65536 bytes and not parseable as IP",
    "callers mutate a stored Peer only through Peer.add_address on the object they got from the index (modelled as an op) and only append to the blacklists; a Peer object that was removed is not passed in again (production re-submits removed identities as fresh Peer objects)",
    "cache caps are not lowered during a history (raising them is generated)",
    "callers outside /repo's peerdiscovery package treat the lists/sets the Network returns as read-only (the Network hands out its live cache objects); the in-repo discovery strategies are exercised as consumers",
    "single-threaded use (graph_lock not modelled)",
]

KEYS_HEX = [
    "4c69624e61434c504b3a20ff2047412d461b5f48f10ac5bc246d80216fd8940b75ef194bbedc54161c709085edd9c810cf39399e1399f4e0055c0202d55f1bb6cbca6d0bd77d911c8a77",
    "4c69624e61434c504b3aea6f1774e72aa38d44c14783f12a998a632e5f94cda27529e052a413f831144c5650dce761829e212f2b11fb86184f896896ec8fcefd3ee75ce6b3b4dc1b0700",
    "4c69624e61434c504b3af700332c2dbbd7d85518fcf3065669064ada476995febf5cfa1b07f8d18de93fb326727ce1cdb4dd6e8afacc1f64bd2e2931ca7a1f1d2cbbcfa16f9779b8dd62",
    "4c69624e61434c504b3aaab6bf331b03d8e8c3f37065ebe39fb0b14931293c09f8e710ca7a120fa92c3e8403abad78e078044b444988843e85aa85c8fa5be3817d98b0af3a4e0824b0c0",
    "4c69624e61434c504b3a0badf3b439113b6b5b729fa277fa6891045170fdd4e20721a93c4aa4c0a219557734b64ad736a4cca546d42ac9d2aa1b4af2cf7cc6fdd41ee1f2406022913809",
    "4c69624e61434c504b3a987758690fb4b091c26b9cfe8119ba8946f12d50d0e5935154babb0c5bd24617b4db1cebfa3892ca83ad9d10ffa68d0dc5018a4fae2f442deea03dcc9d81de60",
]

# address tokens: <kind>.<hex of packed host>.<port>; kind 4 = IPv4 text, 6 = IPv6 text, 0 = host name
V4 = ["4.0a00000%d.%d" % (i, 4000 + i) for i in range(1, 5)]
V6 = ["6.20010db80000000000000000000000%02x.%d" % (i, 6000 + i) for i in range(1, 4)]
# IPv6 addresses whose text form has more than one plausible rendering: IPv4-mapped (what a dual-stack socket reports),
# IPv4-compatible, loopback, a zero run in the middle
V6_FORMS = ["6.00000000000000000000ffff01020304.7001", "6.00000000000000000000000005060708.7002",
            "6.00000000000000000000000000000001.7003", "6.20010db8000000000001000000000001.7004"]
DOM = ["0.%s.%d" % (("node%d.example.org" % i).encode().hex(), 5000 + i) for i in range(1, 3)]
# host NAMES that lenient parsers (inet_aton, int()) would read as IPv4 addresses although they are not dotted quads: they
# are names — strict inet_pton rejects them — and have to stay names through every conversion
DOM_NUMERIC = ["0.%s.%d" % (h.encode().hex(), 5100 + i) for i, h in enumerate(["10.1", "4242", "0x7f.1", "1.2.3"])]
ZERO = "4.00000000.0"
# boundary values: port 0 on a real host, the zero host with a real port, high host bytes and the highest port
EDGE = ["4.0a000009.0", "4.00000000.7", "4.c8c8c8c8.65535"]
POOL = V4 + V6 + DOM + [ZERO] + EDGE + V6_FORMS + DOM_NUMERIC
SVCS = ["s1", "s2", "s3"]
NSLOTS = 5          # 0 UDPv4Address, 1 UDPv6Address, 2 tuple, 3 UDPv4LANAddress, 4 DomainAddress


def generate(ctx: Ctx):
    return [("Ipv8/C12/Gen.lean", gen_c12.translate())]


# ---------------------------------------------------------------------------------------------------------------
# tokens <-> python values
def arg_class(tok: str):
    """'<addr>~3' -> 3: the class the address ARGUMENT of qa/rma/bla/disc is passed as (None: by text kind / plain tuple)"""
    return int(tok.split("~")[1]) if "~" in tok else None


def bare(tok: str) -> str:
    return tok.split("~")[0]


def addr_value(tok: str):
    kind, hx, port = bare(tok).split(".")
    raw = bytes.fromhex(hx) if hx != "-" else b""
    if kind == "4":
        return (socket.inet_ntop(socket.AF_INET, raw), int(port))
    if kind == "6":
        return (socket.inet_ntop(socket.AF_INET6, raw), int(port))
    return (raw.decode(), int(port))


def addr_token(value) -> str:
    """token of an address VALUE held by the implementation.  Addresses are compared as (text, port) tuples in Python, so a
    text that is not the form sockets report (inet_ntop) is a different address even if it packs to the same bytes: it
    gets a token of its own"""
    host, port = value[0], value[1]
    for fam, kind in ((socket.AF_INET, "4"), (socket.AF_INET6, "6")):
        try:
            raw = socket.inet_pton(fam, host)
        except OSError:
            continue
        if socket.inet_ntop(fam, raw) != host:
            return "%s.%s.%d!text=%s" % (kind, raw.hex(), port, host)
        return "%s.%s.%d" % (kind, raw.hex(), port)
    return "0.%s.%d" % (host.encode().hex() or "-", port)


def parse_peer(tok: str):
    """'[@]p1:[^]0=<addr>,2=<addr>' -> (1, {0: addrtok, 2: addrtok})"""
    k, rest = tok.lstrip("@").split(":", 1)
    slots = {}
    if rest not in ("-", "*"):
        for item in rest.split(","):
            s, a = item.lstrip("^").split("=")
            slots[int(s)] = a
    return int(k[1:]), slots


def peer_ctor(tok: str):
    """address token passed to the Peer constructor ('^' item), or None"""
    rest = tok.split(":", 1)[1]
    for item in rest.split(","):
        if item.startswith("^"):
            return item.split("=")[1]
    return None


def peer_token(k: int, slots: dict, ctor_slot=None, stored=False) -> str:
    items = ",".join(("^" if s == ctor_slot else "") + "%d=%s" % (s, slots[s]) for s in sorted(slots))
    return ("@" if stored else "") + "p%d:%s" % (k, items or "-")


def show_peer(k: int, slots: dict) -> str:
    return "p%d{%s}" % (k, ",".join("%d=%s" % (s, slots[s]) for s in sorted(slots)))


def show_list(items) -> str:
    """sorted, duplicates kept"""
    return "[" + ",".join(sorted(items)) + "]"


def svc_bytes(tok: str) -> bytes:
    return b"" if tok == "s0" else tok.encode() * 10


def svc_show(b: bytes) -> str:
    return "s0" if not b else b[:2].decode()


class World:
    """real-code side constants (imported lazily so VERIF_REPO is honoured)"""

    def __init__(self):
        import logging
        logging.getLogger("ipv8.peerdiscovery.network").disabled = True
        from ipv8.keyvault.crypto import default_eccrypto
        from ipv8.messaging.interfaces.udp.endpoint import DomainAddress, UDPv4Address, UDPv4LANAddress, UDPv6Address
        from ipv8.peer import Peer
        from ipv8.peerdiscovery.network import Network
        self.Peer, self.Network = Peer, Network
        self.keys = [default_eccrypto.key_from_public_bin(bytes.fromhex(h)) for h in KEYS_HEX]
        self.key_bins = [k.key_to_bin() for k in self.keys]
        self.key_index = {kb: i for i, kb in enumerate(self.key_bins)}
        self.slot_cls = {0: UDPv4Address, 1: UDPv6Address, 2: tuple, 3: UDPv4LANAddress, 4: DomainAddress}
        self.cls_slot = {v: k for k, v in self.slot_cls.items()}
        self.mids = [Peer(k).mid for k in self.keys]
        # Peer.address prefers the classes of INTERFACE_ORDER in that order (read from the tree, not hard-coded)
        self.order = tuple(self.cls_slot[c] for c in Peer.INTERFACE_ORDER if c in self.cls_slot)

    def addr_obj(self, slot: int, tok: str):
        v = addr_value(tok)
        return tuple(v) if slot == 2 else self.slot_cls[slot](*v)

    def addr_arg(self, tok: str):
        """address ARGUMENT of a Network call: the class named in the token, else what an endpoint would produce for
        this text kind (UDPv4Address / UDPv6Address / plain tuple for host names)"""
        c = arg_class(tok)
        if c is None:
            c = 0 if tok[0] == "4" else 1 if tok[0] == "6" else 2
        return self.addr_obj(c, tok)

    def make_peer(self, k: int, slots: dict, ctor=None):
        ctor_slot = next((s for s in sorted(slots) if slots[s] == ctor), None) if ctor is not None else None
        if ctor_slot is not None:
            p = self.Peer(self.keys[k], self.addr_obj(ctor_slot, slots[ctor_slot]))
        else:
            p = self.Peer(self.keys[k])
        for s in sorted(slots):
            if s != ctor_slot:
                p.add_address(self.addr_obj(s, slots[s]))
        return p

    def peer_slots(self, peer) -> dict:
        return {self.cls_slot.get(cls, 9): addr_token(a) for cls, a in peer.addresses.items()}

    def peer_key(self, peer) -> int:
        return self.key_index[peer.public_key.key_to_bin()]


_WORLD = None


def world() -> World:
    global _WORLD
    if _WORLD is None:
        _WORLD = World()
    return _WORLD


# ---------------------------------------------------------------------------------------------------------------
# the documented snapshot format (doc/reference/serialization.rst: address = type byte 1/2/3 + host + port), written
# independently of serialization.py
def snapshot_chunks(data: bytes):
    """split into per-address chunks; stops at the first entry that cannot be decoded (load_snapshot aborts there)"""
    out, off = [], 0
    while off < len(data):
        t = data[off]
        if t == 1:
            n = 7
        elif t == 3:
            n = 19
        elif t == 2:
            if off + 3 > len(data):
                break
            hl = int.from_bytes(data[off + 1:off + 3], "big")
            n = 5 + hl
            try:
                data[off + 3:off + 3 + hl].decode()
            except UnicodeDecodeError:
                break
        else:
            break
        if off + n > len(data):
            break
        out.append(data[off:off + n])
        off += n
    return out, off


def chunk_addr_token(chunk: bytes) -> str:
    t = chunk[0]
    if t == 1:
        return "4.%s.%d" % (chunk[1:5].hex(), int.from_bytes(chunk[5:7], "big"))
    if t == 3:
        return "6.%s.%d" % (chunk[1:17].hex(), int.from_bytes(chunk[17:19], "big"))
    n = int.from_bytes(chunk[1:3], "big")
    return "0.%s.%d" % (chunk[3:3 + n].hex() or "-", int.from_bytes(chunk[3 + n:5 + n], "big"))


def addr_chunk(tok: str) -> bytes:
    kind, hx, port = tok.split(".")
    raw = bytes.fromhex(hx) if hx != "-" else b""
    p = int(port).to_bytes(2, "big")
    if kind == "4":
        return b"\x01" + raw + p
    if kind == "6":
        return b"\x03" + raw + p
    return b"\x02" + len(raw).to_bytes(2, "big") + raw + p


def dom_chunk(host: bytes, port: int) -> bytes:
    return b"\x02" + len(host).to_bytes(2, "big") + host + port.to_bytes(2, "big")


def parse_list(tok: str):
    inner = tok[1:-1]
    return inner.split(",") if inner else []


# ---------------------------------------------------------------------------------------------------------------
class Spec:
    """Reference graph: membership (verified peers, their addresses, advertised services), known addresses, blacklists —
    no index, no caches.  The *answers* below are the specification (what each lookup means).  The *mutators* follow
    what network.py does to the membership; where network.py takes a decision that the property does not fix (`peek`
    points, marked TOLERANT) the reference graph follows the implementation instead of pinning today's behaviour (so the ORACLE does not claim a
    property failure there; the Lean model still mirrors today's code, so the run is red anyway: no-failing-input-found)."""

    def __init__(self, order=(1, 0, 2)):
        self.order = order
        self.V = {}      # key -> {slot: addr}
        self.CT = {}     # key -> address the stored Peer object was constructed with (Peer._address start value)
        self.SV = {}     # key -> set(service)
        self.AA = {}     # addr -> (introducer key | None, service | None, new_style)
        self.BL = set()
        self.BLM = set()

    def add(self, k, slots, ctor=None, peek=None):
        if k in self.BLM:
            return
        if k in self.V:
            self.V[k].update(slots)
            return
        if any(a in self.AA for a in slots.values()):
            self.V[k] = dict(slots)
            self.CT[k] = ctor
            if peek:   # TOLERANT: registering the peer's other addresses as well would be fine
                for a in slots.values():
                    if a not in self.AA and peek.has_addr(a):
                        self.AA[a] = (None, None, False)
        elif all(a not in self.BL for a in slots.values()):
            for a in slots.values():
                self.AA.setdefault(a, (None, None, False))
            self.V[k] = dict(slots)
            self.CT[k] = ctor

    def mutate(self, t, peek=None):
        op = t[0]
        if op == "add":
            self.add(*parse_peer(t[1]), peer_ctor(t[1]), peek)
        elif op == "disc":
            k, slots = parse_peer(t[1])
            a = t[2]
            if a not in self.BL and (a not in self.AA or self.AA[a][0] not in self.V):
                self.AA[a] = (k, None if t[3] == "-" else t[3], t[4] == "1")
            self.add(k, slots, peer_ctor(t[1]), peek)
        elif op == "svcs":
            k, _ = parse_peer(t[1])
            self.SV.setdefault(k, set()).update(parse_list(t[2]))
        elif op == "set":
            k = int(t[1][1:])
            if k in self.V:
                self.V[k][int(t[2])] = t[3]
        elif op == "rmp":
            k, slots = parse_peer(t[1])
            cands = set(slots.values()) | set(self.V.get(k, {}).values())
            for a in cands:
                if a in self.AA:
                    # TOLERANT: whether the passed object's or the stored object's addresses are forgotten
                    gone = (a in slots.values()) if peek is None else not peek.has_addr(a)
                    if gone:
                        del self.AA[a]
            self.V.pop(k, None)
            self.CT.pop(k, None)
            self.SV.pop(k, None)
        elif op == "rma":
            self.AA.pop(t[1], None)
            for k in [k for k, sl in self.V.items() if t[1] in sl.values()]:
                del self.V[k]
                self.CT.pop(k, None)
                # TOLERANT: forgetting the services of a peer removed by address
                if peek is None or not peek.has_services(k):
                    self.SV.pop(k, None)
        elif op == "bla":
            self.BL.add(t[1])
        elif op == "blm":
            self.BLM.add(int(t[1][1:]))
        elif op == "load":
            data = bytes.fromhex(t[1]) if t[1] != "-" else b""
            chunks, _ = snapshot_chunks(data)
            for c in chunks:
                a = chunk_addr_token(c)
                # TOLERANT: a load that skips blacklisted addresses would be fine
                if a in self.BL and peek is not None and not peek.is_blank(a):
                    continue
                self.AA[a] = (None, None, False)
        elif op == "caps":
            pass
        else:
            raise ValueError(op)

    # --- answers: the specification -------------------------------------------------------------------------
    def peers_at(self, a):
        return {k for k, sl in self.V.items() if a in sl.values()}

    def peers_for(self, s):
        return {k for k in self.V if s in self.SV.get(k, ())}

    def walkable(self, s, old_style, verified_introducers_only=False):
        """`verified_introducers_only`: the stricter reading in which only VERIFIED introducers lend their advertised
        services to the addresses they introduced (network.py today also counts identities that were never verified)"""
        if s == "s0":     # an empty service id means "no service" to network.py
            s = None
        known = self.V if s is None else self.peers_for(s)
        taken = {a for k in known for a in self.V[k].values()}
        out = set(self.AA) - taken
        if s is not None:
            keep = set()
            for a in out:
                intro, svc, ns = self.AA[a]
                if old_style and ns:
                    continue
                lent = set(self.SV.get(intro, ())) if (intro in self.V or not verified_introducers_only) else set()
                if s in (lent | ({svc} if svc and svc != "s0" else set())):
                    keep.add(a)
            out = keep
        return out

    def intros(self, k):
        return {a for a, w in self.AA.items() if w[0] == k}

    def preferred(self, k):
        for s in self.order:
            if s in self.V[k]:
                return self.V[k][s]
        return self.CT.get(k)

    def snapshot_addrs(self):
        out = []
        for k in self.V:
            a = self.preferred(k)
            if a is not None and a != ZERO:
                out.append(a)
        return out

    def digest(self):
        return (show_list(show_peer(k, sl) for k, sl in self.V.items()),
                show_list("%s>%s/%s/%d" % (a, "-" if w[0] is None else "p%d" % w[0], w[1] or "-", w[2])
                          for a, w in self.AA.items()),
                show_list("p%d:%s" % (k, "+".join(sorted(v))) for k, v in self.SV.items()))


MUTATORS = {"add", "disc", "svcs", "set", "rmp", "rma", "bla", "blm", "load", "caps"}
CONTAINERS = ["L", "T", "G", "D", "S0", "S1"]
SITE = {"qa": "get_verified_by_address", "qk": "get_verified_by_public_key_bin", "qs": "get_peers_for_service",
        "qw": "get_walkable_addresses", "qi": "get_introductions_from", "qsp": "get_services_for_peer",
        "qn": "is_new_style", "snap": "snapshot"}
_MUT_SITE = {"add": "add_verified_peer", "disc": "discover_address", "svcs": "discover_services", "rmp": "remove_peer",
             "rma": "remove_by_address", "bla": "blacklist", "blm": "blacklist_mids", "load": "load_snapshot",
             "caps": "caps", "set": "Peer.add_address"}
CACHES = (("reverse_ip_lookup", "reverse_ip_cache_size"), ("reverse_intro_lookup", "reverse_intro_cache_size"),
          ("reverse_service_lookup", "reverse_service_cache_size"))


# Every branch of the hand-written model definitions that carry a clause of the property, as the input class that reaches
# it (classify()).  A quick run in which one of these stays at zero has silently lost coverage of a model branch whose only
# link to the code is this correspondence run: that is an infrastructure failure (exit 2), not a pass.
REQUIRED_CLASSES = {
    "Net.addVerified / Gen.addBranch": [
        "add>add:blacklisted-mid", "add>add:address-update", "add>add:known-no-change", "add>add:some-address-known",
        "add>add:some-address-known+blacklisted-address", "add>add:all-addresses-new", "add>add:no-address",
        "add>add:refused-blacklisted-address", "disc>add:address-update", "disc>add:all-addresses-new",
        "disc>add:some-address-known", "add:stored-object-passed"],
    "Net.updateStored (in place)": ["set:stored-peer-changes-address", "set:stored-peer-new-class", "set:no-stored-peer"],
    "Net.discoverAddress / needsIntro / introduce": [
        "disc:blacklisted-address", "disc:new-address", "disc:reassigned(introducer-gone)",
        "disc:reassigned(introducer-gone)+same-introducer-again", "disc:kept(introducer-verified)",
        "disc:address-used-by-verified-peer", "disc:empty-service-id", "disc:stored-object-passed"],
    "Net.discoverServices": ["svcs:verified-peer", "svcs:unverified-peer", "svcs:empty-service-id", "svcs:stored-object-passed"],
    "Net.removePeer": ["rmp:stored-object", "rmp:fresh-object-other-addresses", "rmp:key-not-verified"],
    "Net.removeByAddress": ["rma:removes-0-peers", "rma:removes-1-peers", "rma:removes-2+-peers",
                            "rma:address-used-by-verified-peer-but-not-in-_all_addresses"],
    "Net.loadSnapshot / decodeAll / decodeAddr / utf8Valid": [
        "load:0-addresses", "load:1-addresses", "load:2-addresses", "load:3+-addresses", "load:undecodable-rest(<8)",
        "load:undecodable-rest(8+)", "load:multibyte-utf8-host", "load:blacklisted-address",
        "load:overwrites-introduced-address", "load:own-snapshot-fed-back"],
    "Net.chooseByAddr / getByAddr": [
        "qa:0-candidates", "qa:1-candidates", "qa:2+-candidates", "qa:cache-miss", "qa:cache-full", "qa:cache-hit:valid",
        "qa:cache-hit:stale(address-changed)", "qa:cache-hit:stale(object-removed)"],
    "Net.peersForService": ["qs:cache-hit", "qs:cache-hit+full", "qs:cache-miss", "qs:cache-miss+full"],
    "Net.walkable / walkFilter / truthy": ["qw:no-service", "qw:no-service(empty id)", "qw:cache-hit", "qw:cache-miss",
                                           "qw:answer-depends-on-unverified-introducer"],
    "Net.introsFrom": ["qi:cache-hit", "qi:cache-hit+full", "qi:cache-miss", "qi:cache-miss+full"],
    "Graph.snapshotAddrs / Peer.preferred": [
        "snap:0-verified-peers", "snap:1-verified-peers", "snap:2-verified-peers", "snap:3+-verified-peers",
        "snap:peer-address-not-in-_all_addresses", "snap:peer-without-usable-address", "snap:address-only-from-constructor",
        "peer:constructor-address", "peer:constructor-address(class outside INTERFACE_ORDER)",
        "peer:LAN-or-Domain-address-class"],
    "address arguments by class": ["address-argument-class:0", "address-argument-class:1", "address-argument-class:2",
                                   "address-argument-class:3", "address-argument-class:4"],
    "observers": ["observer:added", "observer:removed", "observer-mode:limit", "observer-mode:probe",
                  "observer:re-entrant-removal", "observer:probe-during-callback"],
    "address text forms": ["snap:ipv6-text-form-address", "snap:numeric-looking-host-name", "load:own-snapshot-fed-back"],
    "unverified introducer": ["qw:answer-depends-on-unverified-introducer"],
    "consumers in /repo (objects handed out)": ["walk:EdgeWalk", "walk:RandomWalk", "walk:issues:qs", "walk:issues:qw",
                                                 "walk:issues:qi", "walk:issues:qa"],
    "containers handed in": ["svcs:services-passed-as:list", "svcs:services-passed-as:tuple",
                             "svcs:services-passed-as:one-shot-generator", "svcs:services-passed-as:dict-keys-view",
                             "svcs:services-passed-as:callers-own-set-reused"],
}


def enforce_coverage(ctx: Ctx):
    missing = [f"{unit}: {c}" for unit, cs in REQUIRED_CLASSES.items() for c in cs if not ctx.counts.get("class:" + c)]
    ctx.extra["required_branch_classes"] = {"required": sum(len(v) for v in REQUIRED_CLASSES.values()), "missing": missing}
    if missing and not ctx.failures and not ctx.disagreements:
        raise InfraError("coverage lost: no generated input reached " + "; ".join(missing))


class _Hang(Exception):
    pass


def _alarm(signum, frame):
    raise _Hang()


# ---------------------------------------------------------------------------------------------------------------
class Real:
    """the real Network driven by protocol lines"""

    def __init__(self):
        self.W = world()
        self.net = self.W.Network()
        self.shared = {}
        self.limit, self.probe = None, False        # observer modes
        self.reentrant, self.incoherent = [], []

    def consume(self, kind, svc_tok, size, seed=0):
        """run a discovery strategy (a consumer of the lookups that lives in /repo) for three steps over a stub overlay
        backed by the real Network; returns the Network calls it issued as protocol lines with their answers as they were
        AT CALL TIME: [(tokens, answer, returned Peer objects)]"""
        import random
        from ipv8.peerdiscovery import discovery
        net, W, calls = self.net, self.W, []
        svc = svc_bytes(svc_tok)

        class Tap:
            """forwards to the real Network, recording protocol lines"""
            def __getattr__(self, name):
                return getattr(net, name)

            def get_peers_for_service(self, service_id):
                ps = net.get_peers_for_service(service_id)
                calls.append((["qs", svc_show(service_id)], show_list(show_peer(W.peer_key(p), W.peer_slots(p)) for p in ps), list(ps)))
                return ps

            def get_walkable_addresses(self, service_id=None, old_style=False):
                r = net.get_walkable_addresses(service_id, old_style)
                calls.append((["qw", "-" if service_id is None else svc_show(service_id), "1" if old_style else "0"],
                              show_list(addr_token(a) for a in r), []))
                return r

            def get_introductions_from(self, peer):
                r = net.get_introductions_from(peer)
                calls.append((["qi", "p%d" % W.peer_key(peer)], show_list(addr_token(a) for a in r), []))
                return r

            def get_verified_by_address(self, address):
                p = net.get_verified_by_address(address)
                calls.append((["qa", addr_token(address), "-" if p is None else "p%d" % W.peer_key(p)],
                              "none" if p is None else show_peer(W.peer_key(p), W.peer_slots(p)), [p] if p is not None else []))
                return p

            def remove_by_address(self, address):
                net.remove_by_address(address)
                calls.append((["rma", addr_token(address)], "ok", []))
        tap = Tap()

        class StubOverlay:
            network = tap
            community_id = svc

            def get_peers(self):
                return tap.get_peers_for_service(svc)

            def get_walkable_addresses(self):
                return tap.get_walkable_addresses(svc)

            def bootstrap(self):
                pass

            def walk_to(self, address):
                pass

            def get_new_introduction(self, from_peer=None):
                pass
        cls = {"EdgeWalk": discovery.EdgeWalk, "RandomWalk": discovery.RandomWalk}.get(kind)
        if cls is None:
            raise InfraError(f"unknown consumer {kind}")
        strategy = cls(StubOverlay(), neighborhood_size=size) if kind == "EdgeWalk" else cls(StubOverlay())
        state = random.getstate()
        random.seed(seed)          # the strategies draw from the global generator
        try:
            for _ in range(3):
                strategy.take_step()
        finally:
            random.setstate(state)
        return calls

    # peek interface used by the TOLERANT points of Spec
    def has_addr(self, tok):
        return tuple(addr_value(tok)) in self.net._all_addresses

    def has_services(self, k):
        return self.W.key_bins[k] in self.net.services_per_peer

    def is_blank(self, tok):
        w = self.net._all_addresses.get(tuple(addr_value(tok)))
        return w is not None and not w.introduced_by and w.services is None and not w.new_style

    def observe(self):
        """attach a PeerObserver; returns the (live) event list.  Modes (protocol line `obs …`):
        `limit n`  a peer-limit observer: on_peer_added removes the newcomer again (re-entrant remove_peer) while more than
                   n peers are verified;
        `probe`    on_peer_added looks the newcomer up (by key, in verified_peers) while the callback runs"""
        from ipv8.peerdiscovery.network import PeerObserver
        W, log, real = self.W, [], self

        class Obs(PeerObserver):
            def on_peer_added(self, peer):
                k = W.peer_key(peer)
                log.append(("added", k))
                if real.probe:
                    by_key = real.net.get_verified_by_public_key_bin(W.key_bins[k])
                    in_set = peer in real.net.verified_peers
                    if by_key is not peer or not in_set:
                        real.incoherent.append(f"during on_peer_added(p{k}): lookup by key returns "
                                               f"{'the peer' if by_key is peer else by_key}, in verified_peers: {in_set}")
                if real.limit is not None and len(real.net.verified_peers) > real.limit:
                    real.reentrant.append(peer_token(k, W.peer_slots(peer)))
                    real.net.remove_peer(peer)

            def on_peer_removed(self, peer):
                log.append(("removed", W.peer_key(peer)))
        self.net.add_peer_observer(Obs())
        return log

    def digest(self):
        W, n = self.W, self.net
        return (show_list(show_peer(W.peer_key(p), W.peer_slots(p)) for p in n.verified_peers),
                show_list("%s>%s/%s/%d" % (addr_token(a), "-" if not w.introduced_by else "p%d" % W.key_index[w.introduced_by],
                                           (svc_show(w.services) if w.services is not None else "-"), bool(w.new_style))
                          for a, w in n._all_addresses.items()),
                show_list("p%d:%s" % (W.key_index[k], "+".join(sorted(svc_show(s) for s in v)))
                          for k, v in n.services_per_peer.items()))

    def stored(self, k):
        obj = self.net.verified_by_public_key_bin.get(self.W.key_bins[k])
        if obj is None:
            for p in self.net.verified_peers:
                if self.W.peer_key(p) == k:
                    obj = p
        return obj

    def peer_arg(self, tok, allow_stored=False):
        k, slots = parse_peer(tok)
        if allow_stored or tok.startswith("@"):
            obj = self.net.verified_by_public_key_bin.get(self.W.key_bins[k])
            if obj is not None and self.W.peer_slots(obj) == slots:
                return obj
        return self.W.make_peer(k, slots, peer_ctor(tok))

    def canonical_token(self, k, stored_flag=False):
        obj = self.stored(k)
        return None if obj is None else peer_token(k, self.W.peer_slots(obj), stored=stored_flag)

    def mutate(self, t):
        n, W = self.net, self.W
        op = t[0]
        if op == "caps":
            for (_c, size_name), v in zip(CACHES, t[1:4]):
                if not hasattr(n, size_name):
                    raise InfraError(f"Network has no attribute {size_name}: cannot set the cache caps")
                setattr(n, size_name, int(v))
        elif op == "add":
            n.add_verified_peer(self.peer_arg(t[1]))
        elif op == "disc":
            n.discover_address(self.peer_arg(t[1]), W.addr_arg(t[2]), None if t[3] == "-" else svc_bytes(t[3]),
                               t[4] == "1")
        elif op == "svcs":
            items = [svc_bytes(s) for s in parse_list(t[2])]
            kind = t[3] if len(t) > 3 else "L"
            if kind == "T":
                arg = tuple(items)
            elif kind == "G":
                arg = (x for x in items)            # a one-shot iterable
            elif kind == "D":
                arg = dict.fromkeys(items).keys()   # a view
            elif kind.startswith("S"):
                # the caller's own set object, reused (and refilled) between calls
                arg = self.shared.setdefault(kind, set())
                arg.clear()
                arg.update(items)
            else:
                arg = items
            n.discover_services(self.peer_arg(t[1]), arg)
        elif op == "set":
            # what lazy_wrapper does before every handler: fetch the stored Peer and add the source address to it
            obj = n.verified_by_public_key_bin.get(W.key_bins[int(t[1][1:])])
            if obj:
                obj.add_address(W.addr_obj(int(t[2]), t[3]))
        elif op == "rmp":
            n.remove_peer(self.peer_arg(t[1], allow_stored=True))
        elif op == "rma":
            n.remove_by_address(W.addr_arg(t[1]))
        elif op == "bla":
            n.blacklist.append(W.addr_arg(t[1]))
        elif op == "blm":
            n.blacklist_mids.append(W.mids[int(t[1][1:])])
        elif op == "load":
            if t[1] == "*":     # the implementation's own snapshot() (resolved in execute so that the model sees the bytes)
                raise ValueError("unresolved load *")
            signal.signal(signal.SIGALRM, _alarm)
            signal.setitimer(signal.ITIMER_REAL, 10)
            try:
                n.load_snapshot(bytes.fromhex(t[1]) if t[1] != "-" else b"")
            finally:
                signal.setitimer(signal.ITIMER_REAL, 0)
        else:
            raise ValueError(op)

    def query(self, t):
        """returns (canonical answer string, list of returned Peer objects)"""
        n, W = self.net, self.W
        op = t[0]
        if op == "qa":
            p = n.get_verified_by_address(W.addr_arg(t[1]))
            return ("none" if p is None else show_peer(W.peer_key(p), W.peer_slots(p))), ([p] if p is not None else [])
        if op == "qk":
            p = n.get_verified_by_public_key_bin(W.key_bins[int(t[1][1:])])
            return ("none" if p is None else show_peer(W.peer_key(p), W.peer_slots(p))), ([p] if p is not None else [])
        if op == "qs":
            ps = n.get_peers_for_service(svc_bytes(t[1]))
            return show_list(show_peer(W.peer_key(p), W.peer_slots(p)) for p in ps), list(ps)
        if op == "qw":
            r = n.get_walkable_addresses(None if t[1] == "-" else svc_bytes(t[1]), t[2] == "1")
            return show_list(addr_token(a) for a in r), []
        if op == "qi":
            r = n.get_introductions_from(W.make_peer(int(t[1][1:]), {}))
            return show_list(addr_token(a) for a in r), []
        if op == "qsp":
            r = n.get_services_for_peer(W.make_peer(int(t[1][1:]), {}))
            return show_list(svc_show(s) for s in r), []
        if op == "qn":
            return ("1" if n.is_new_style(W.addr_arg(t[1])) else "0"), []
        if op == "snap":
            data = n.snapshot()
            chunks, end = snapshot_chunks(data)
            if end != len(data):
                return "undecodable:" + data.hex(), []
            return "[" + ",".join(sorted(c.hex() for c in chunks)) + "]", []
        raise ValueError(op)

    def cache_overflow(self):
        for cache, size in CACHES:
            if not hasattr(self.net, cache) or not hasattr(self.net, size):
                raise InfraError(f"Network has no attribute {cache}/{size}: the cap oracle cannot run")
            c, cap = getattr(self.net, cache), getattr(self.net, size)
            if len(c) > cap:
                return f"{cache} holds {len(c)} entries, {size} is {cap}"
        return None


# ---------------------------------------------------------------------------------------------------------------
def check_query(ctx: Ctx, spec: Spec, real: Real, t, got: str, objs, history, line_no):
    """the property itself, evaluated on the implementation's answer (independent of the Lean model)"""
    op = t[0]
    site = SITE[op]
    W = real.W

    def fail(kind, what):
        ctx.oracle_fail(f"{site}:{kind}", f"{what} (line {line_no}: `{' '.join(t)}`)",
                        {"lines": history[:line_no + 1], "failing_line": line_no, "answer": got})
        ctx.count(f"oracle_fail:{site}:{kind}")

    def cmp_list(exp_items):
        exp = show_list(set(exp_items))
        if got != exp:
            g, e = parse_list(got), set(parse_list(exp))
            kind = "extra" if set(g) - e else "missing" if e - set(g) else "duplicate"
            fail(kind, f"returns {got}, expected {exp}")

    # returned Peer objects must be verified and be the stored objects
    for p in objs:
        k = W.peer_key(p)
        if k not in spec.V:
            fail("unverified-peer", f"returns p{k}, which is not a verified peer")
            return
        held = [q for q in real.net.verified_peers if q == p]
        if not held or held[0] is not p:
            fail("stale-object", f"returns a Peer object for p{k} that is not the one in verified_peers")
            return
    if op == "qa":
        allowed = {show_peer(k, spec.V[k]) for k in spec.peers_at(t[1])}
        if got == "none":
            if allowed:
                fail("missing", f"no peer returned although {sorted(allowed)} use the address")
        elif got not in allowed:
            fail("not-at-address", f"returns {got}, the peers at the address are {sorted(allowed)}")
    elif op == "qk":
        k = int(t[1][1:])
        exp = show_peer(k, spec.V[k]) if k in spec.V else "none"
        if got != exp:
            fail("missing" if got == "none" else "wrong-peer", f"returns {got}, expected {exp}")
    elif op == "qs":
        cmp_list(show_peer(k, spec.V[k]) for k in spec.peers_for(t[1]))
    elif op == "qw":
        a_ = spec.walkable(None if t[1] == "-" else t[1], t[2] == "1")
        b_ = spec.walkable(None if t[1] == "-" else t[1], t[2] == "1", verified_introducers_only=True)
        if a_ != b_:
            ctx.count("class:qw:answer-depends-on-unverified-introducer")
        # judged (design.d/C12.md): the advertised services of the introducer count whether or not the introducer is a
        # verified peer — an address introduced by a bootstrap server / blacklisted identity stays walkable for the
        # services that identity advertised
        cmp_list(a_)
    elif op == "qi":
        cmp_list(spec.intros(int(t[1][1:])))
    elif op == "qsp":
        cmp_list(spec.SV.get(int(t[1][1:]), ()))
    elif op == "qn":
        exp = "1" if spec.AA.get(t[1], (None, None, False))[2] else "0"
        if got != exp:
            fail("mismatch", f"returns {got}, expected {exp}")
    elif op == "snap":
        exp = "[" + ",".join(sorted(addr_chunk(a).hex() for a in spec.snapshot_addrs())) + "]"
        if got != exp:
            fail("mismatch", f"returns {got}, expected {exp}")


def classify(spec: Spec, real: Real, t) -> list:
    """input class / branch of one protocol line, derived from the reference graph before the line is executed
    (evidence only: which branches of network.py the generators reach, and how often)"""
    op = t[0]
    out = []
    if op in ("add", "disc", "svcs") and t[1].startswith("@"):
        out.append(f"{op}:stored-object-passed")
    if op in ("add", "disc"):
        k, slots = parse_peer(t[1])
        vals = list(slots.values())
        if peer_ctor(t[1]) is not None:
            out.append("peer:constructor-address" + ("(class outside INTERFACE_ORDER)" if not set(slots) & set(spec.order) else ""))
        if set(slots) & {3, 4}:
            out.append("peer:LAN-or-Domain-address-class")

        def add_branch():
            if k in spec.BLM:
                return "blacklisted-mid"
            if k in spec.V:
                return "address-update" if any(spec.V[k].get(s_) != a for s_, a in slots.items()) else "known-no-change"
            if any(a in spec.AA for a in vals):
                return "some-address-known" + ("+blacklisted-address" if any(a in spec.BL for a in vals) else "")
            if all(a not in spec.BL for a in vals):
                return "all-addresses-new" if vals else "no-address"
            return "refused-blacklisted-address"
        if op == "disc":
            a = t[2]
            if a in spec.BL:
                out.append("disc:blacklisted-address")
            elif a not in spec.AA:
                out.append("disc:new-address")
            elif spec.AA[a][0] not in spec.V:
                out.append("disc:reassigned(introducer-gone)" + ("+same-introducer-again" if spec.AA[a][0] == k else ""))
            else:
                out.append("disc:kept(introducer-verified)")
            if spec.peers_at(a):
                out.append("disc:address-used-by-verified-peer")
            if t[3] == "s0":
                out.append("disc:empty-service-id")
        out.append(f"{op}>add:{add_branch()}")
    elif op == "set":
        k = int(t[1][1:])
        out.append("set:" + ("stored-peer-changes-address" if k in spec.V and spec.V[k].get(int(t[2])) not in (None, t[3])
                             else "stored-peer-new-class" if k in spec.V else "no-stored-peer"))
    elif op == "rmp":
        k, slots = parse_peer(t[1])
        if k not in spec.V:
            out.append("rmp:key-not-verified")
        elif spec.V[k] == slots:
            out.append("rmp:stored-object")
        else:
            out.append("rmp:fresh-object-other-addresses")
    elif op == "rma":
        n = len(spec.peers_at(t[1]))
        out.append("rma:removes-%s-peers" % (n if n < 2 else "2+"))
        if n and t[1] not in spec.AA:
            out.append("rma:address-used-by-verified-peer-but-not-in-_all_addresses")
    elif op == "load":
        data = bytes.fromhex(t[1]) if t[1] != "-" else b""
        chunks, end = snapshot_chunks(data)
        out.append("load:%s-addresses" % (len(chunks) if len(chunks) < 3 else "3+"))
        if end != len(data):
            out.append("load:undecodable-rest(%s)" % ("<8" if len(data) - end < 8 else "8+"))
        if any(c[0] == 2 and any(b > 127 for b in c[3:-2]) for c in chunks):
            out.append("load:multibyte-utf8-host")
        if any(chunk_addr_token(c) in spec.BL for c in chunks):
            out.append("load:blacklisted-address")
        if any(spec.AA.get(chunk_addr_token(c), (None,))[0] is not None for c in chunks):
            out.append("load:overwrites-introduced-address")
    elif op == "svcs":
        k, _ = parse_peer(t[1])
        out.append("svcs:" + ("verified-peer" if k in spec.V else "unverified-peer"))
        if "s0" in parse_list(t[2]):
            out.append("svcs:empty-service-id")
        kind = t[3] if len(t) > 3 else "L"
        out.append("svcs:services-passed-as:" + {"L": "list", "T": "tuple", "G": "one-shot-generator", "D": "dict-keys-view"}
                   .get(kind, "callers-own-set-reused"))
    elif op == "qa":
        n = len(spec.peers_at(t[1]))
        out.append("qa:%s-candidates" % (n if n < 2 else "2+"))
        c = real.net.reverse_ip_lookup
        key = tuple(addr_value(t[1]))
        if key in c:
            obj = c[key]
            live = real.net.verified_by_public_key_bin.get(obj.public_key.key_to_bin()) is obj
            out.append("qa:cache-hit:" + ("valid" if live and key in obj.addresses.values() else
                                          "stale(address-changed)" if live else "stale(object-removed)"))
        else:
            out.append("qa:cache-miss")
        if len(c) >= real.net.reverse_ip_cache_size:
            out.append("qa:cache-full")
    elif op == "qs" or (op == "qw" and t[1] not in ("-", "s0")):
        c = real.net.reverse_service_lookup
        out.append(f"{op}:cache-" + ("hit" if svc_bytes(t[1]) in c else "miss")
                   + ("+full" if len(c) >= real.net.reverse_service_cache_size else ""))
    elif op == "qw":
        out.append("qw:no-service" + ("(empty id)" if t[1] == "s0" else ""))
    elif op == "qi":
        c = real.net.reverse_intro_lookup
        hit = any(real.W.peer_key(p) == int(t[1][1:]) for p in c)
        out.append("qi:cache-" + ("hit" if hit else "miss") + ("+full" if len(c) >= real.net.reverse_intro_cache_size else ""))
    elif op == "snap":
        miss = sum(1 for k in spec.V if spec.preferred(k) is not None and spec.preferred(k) not in spec.AA)
        out.append("snap:%s-verified-peers" % (len(spec.V) if len(spec.V) < 3 else "3+"))
        if miss:
            out.append("snap:peer-address-not-in-_all_addresses")
        if any(spec.preferred(k) in (None, ZERO) for k in spec.V):
            out.append("snap:peer-without-usable-address")
        if any(not set(spec.V[k]) & set(spec.order) and spec.CT.get(k) for k in spec.V):
            out.append("snap:address-only-from-constructor")
        if any(spec.preferred(k) in V6_FORMS for k in spec.V):
            out.append("snap:ipv6-text-form-address")
        if any(spec.preferred(k) in DOM_NUMERIC for k in spec.V):
            out.append("snap:numeric-looking-host-name")
    return out


def sweep_lines(keys, addrs):
    """every query once"""
    out = []
    for k in keys:
        out.append(f"qk p{k}")
        out.append(f"qi p{k}")
        out.append(f"qsp p{k}")
    for a in addrs:
        out.append(f"qa {a} ?")
        out.append(f"qn {a}")
    for s in SVCS:
        out.append(f"qs {s}")
        out.append(f"qw {s} 0")
        out.append(f"qw {s} 1")
    out.append("qw - 0")
    out.append("snap")
    return out


def strip_classes(t):
    """the reference graph and the oracle compare address VALUES: drop the argument-class suffixes"""
    return [bare(x) if x[:2] in ("4.", "6.", "0.") else x for x in t]


def resolve(t, stored_token):
    """'rmp p0:*' / 'add @p0:*' -> the stored object's token (or an address-less fresh peer when there is none)"""
    if t[0] in ("rmp", "add", "disc", "svcs") and t[1].endswith(":*"):
        k = int(t[1].lstrip("@")[1:-2])
        tok = stored_token(k, t[1].startswith("@"))
        t[1] = tok if tok is not None else f"p{k}:-"
    return t


def execute(ctx: Ctx, lines, tag: str):
    """run one sequence on the real code and the reference graph; returns the lines actually sent to the model
    ('*' resolved to the stored object's addresses, qa hints filled in) and the implementation's answers"""
    real = Real()
    spec = Spec(real.W.order)
    sent, answers = [], []          # replay lines (one per input line) and what the implementation answered
    mlines, manswers = [], []       # what the model is asked (a `walk` line expands to the queries the consumer issued)
    last = real.digest()
    events = real.observe()
    for i, ln in enumerate(lines):
        t = resolve(ln.split(), real.canonical_token)
        if t[0] == "obs":
            if t[1] == "limit":
                real.limit = int(t[2])
            elif t[1] == "probe":
                real.probe = True
            ctx.count(f"class:observer-mode:{t[1]}")
            sent.append(" ".join(t))
            answers.append("ok")
            continue
        if t[0] == "walk":
            # an in-repo CONSUMER of the lookups (a discovery strategy) runs against the Network: whatever it does with
            # the objects it is handed, afterwards every lookup must still answer what the graph implies
            ctx.count(f"class:walk:{t[1]}")
            before = last
            try:
                calls = real.consume(t[1], t[2], int(t[3]), seed=i)
            except InfraError:
                raise
            except Exception as e:
                calls = []
                ctx.oracle_fail(f"{t[1]}.take_step:raised", f"{ln} raised {e!r}", {"lines": sent + [ln], "failing_line": i})
            sent.append(" ".join(t))
            answers.append("ok")
            for ct, got, objs in calls:
                ctx.count(f"class:walk:issues:{ct[0]}")
                if ct[0] in MUTATORS:
                    spec.mutate(strip_classes(ct), real)
                    before = real.digest()
                elif not got.startswith("raised:"):
                    check_query(ctx, spec, real, strip_classes(ct), got, objs, sent, i)
                mlines.append(" ".join(ct))
                manswers.append(got)
            last = real.digest()
            if last != before or last != spec.digest():
                ctx.oracle_fail(f"{t[1]}.take_step:changes-graph", f"`{ln}` changed the graph: {before} -> {last}",
                                {"lines": sent[:], "failing_line": i})
                return sent, answers, False, (mlines, manswers)
            # ask again what the consumer asked for: its handling of the returned objects must not have changed the answers
            for again in ([f"qs {t[2]}", f"qw {t[2]} 0"] + [" ".join(ct) for ct, _g, _o in calls if ct[0] == "qi"][:2]):
                at = again.split()
                got, objs = real.query(at)
                check_query(ctx, spec, real, at, got, objs, sent, i)
                mlines.append(again)
                manswers.append(got)
            last = real.digest()
            continue
        if t[0] == "load" and t[1] == "*":
            t[1] = real.net.snapshot().hex() or "-"
            ctx.count("class:load:own-snapshot-fed-back")
        full = t                      # with argument classes: what the implementation and the model get
        t = strip_classes(full)       # values only: what the reference graph and the oracle see
        if any("~" in x for x in full):
            ctx.count("class:address-argument-class:" + ",".join(sorted({x.split("~")[1] for x in full if "~" in x})))
        if t[0] != "caps":
            try:
                for c in classify(spec, real, t):
                    ctx.count("class:" + c)
            except AttributeError:
                ctx.count("class:unavailable(cache attribute renamed)")
        if t[0] in MUTATORS:
            del events[:]
            keys_before = set(spec.V)
            try:
                real.mutate(full)
                ans = "ok"
            except InfraError:
                raise
            except (Exception, _Hang) as e:  # no mutator may raise (or hang) on these inputs
                ans = "raised:" + type(e).__name__
                ctx.oracle_fail(f"{_MUT_SITE[t[0]]}:raised", f"{ln} raised {e!r}", {"lines": sent + [" ".join(full)], "failing_line": i})
            spec.mutate(t, real)
            sent.append(" ".join(full))
            answers.append(ans)
            mlines.append(" ".join(full[:3] if full[0] == "svcs" else full))     # the container kind is the caller's business
            manswers.append(ans)
            added_now = set(spec.V) - keys_before
            # a re-entrant observer removed the newcomer from inside on_peer_added: to the graph (and to the model) that is
            # the addition followed by remove_peer of the stored object
            for tok in real.reentrant:
                rt = ["rmp", tok]
                spec.mutate(rt, real)
                mlines.append(" ".join(rt))
                manswers.append("ok")
                ctx.count("class:observer:re-entrant-removal")
            del real.reentrant[:]
            if real.incoherent:
                ctx.oracle_fail(f"{_MUT_SITE[t[0]]}:observer-sees-lookups-disagree", real.incoherent[0] + f" (`{' '.join(t)}`)",
                                {"lines": sent[:], "failing_line": i})
                ctx.count(f"oracle_fail:{_MUT_SITE[t[0]]}:observer-sees-lookups-disagree")
                del real.incoherent[:]
                return sent, answers, False, (mlines, manswers)
            if real.probe and added_now:
                ctx.count("class:observer:probe-during-callback")
            last = real.digest()
            if last != spec.digest():
                d_r, d_s = last, spec.digest()
                idx = [a == b for a, b in zip(d_r, d_s)].index(False)
                part = ["verified_peers", "_all_addresses", "services_per_peer"][idx]
                ctx.oracle_fail(f"{_MUT_SITE[t[0]]}:{part}", f"after `{' '.join(t)}` {part} is {d_r[idx]}, the graph implies {d_s[idx]}",
                                {"lines": sent[:], "failing_line": i})
                ctx.count(f"oracle_fail:{_MUT_SITE[t[0]]}:{part}")
                return sent, answers, False, (mlines, manswers)
            # PeerObserver callbacks: exactly the keys that entered / left the membership, once each
            want = sorted([("added", k) for k in (set(spec.V) | added_now) - keys_before]
                          + [("removed", k) for k in (keys_before | added_now) - set(spec.V)])
            if sorted(events) != want:
                ctx.oracle_fail(f"{_MUT_SITE[t[0]]}:observer-events", f"after `{' '.join(t)}` observers saw {sorted(events)}, "
                                f"membership changed by {want}", {"lines": sent[:], "failing_line": i})
                ctx.count(f"oracle_fail:{_MUT_SITE[t[0]]}:observer-events")
                return sent, answers, False, (mlines, manswers)
            for ev, _k in want:
                ctx.count("class:observer:" + ev)
        else:
            before = last
            try:
                got, objs = real.query(full)
            except Exception as e:
                got, objs = "raised:" + type(e).__name__, []
                ctx.oracle_fail(f"{SITE[t[0]]}:raised", f"{ln} raised {e!r}", {"lines": sent + [ln], "failing_line": i})
            if t[0] == "qa":
                t[2] = full[2] = got.split("{")[0] if got != "none" else "-"
            sent.append(" ".join(full))
            answers.append(got)
            mlines.append(" ".join(full))
            manswers.append(got)
            last = real.digest()
            if last != before:
                ctx.oracle_fail(f"{SITE[t[0]]}:query-mutates-state", f"`{' '.join(t)}` changed the graph: {before} -> {last}",
                                {"lines": sent[:], "failing_line": i})
                ctx.count(f"oracle_fail:{SITE[t[0]]}:query-mutates-state")
                return sent, answers, False, (mlines, manswers)
            if not got.startswith("raised:"):
                check_query(ctx, spec, real, t, got, objs, sent, i)
        over = real.cache_overflow()
        if over:
            site = _MUT_SITE.get(t[0]) or SITE[t[0]]
            ctx.oracle_fail(f"{site}:cache-exceeds-cap", f"after `{' '.join(t)}` {over}", {"lines": sent[:], "failing_line": i})
            ctx.count(f"oracle_fail:{site}:cache-exceeds-cap")
            return sent, answers, False, (mlines, manswers)
    return sent, answers, True, (mlines, manswers)


# ---------------------------------------------------------------------------------------------------------------
# generators
def rand_slots(rng):
    """(slots, ctor address or None)"""
    slots = {}
    r = rng.random()
    if r < 0.04:
        return slots, None
    if r < 0.7:
        slots[0] = rng.choice(V4 if rng.random() < 0.95 else [ZERO])
    if rng.random() < 0.25 or not slots:
        slots[1] = rng.choice(V6 + V6_FORMS)
    if rng.random() < 0.15:
        slots[2] = rng.choice(V4 + DOM + DOM_NUMERIC)
    if rng.random() < 0.12:
        slots[3] = rng.choice(V4)
    if rng.random() < 0.10:
        slots[4] = rng.choice(DOM + DOM_NUMERIC)
    if rng.random() < 0.08:      # a peer that only has an address of a class outside INTERFACE_ORDER
        slots = {rng.choice([3, 4]): rng.choice(V4 if rng.random() < 0.5 else DOM)}
    ctor = rng.choice(sorted(slots)) if slots and rng.random() < 0.35 else None
    return slots, ctor


def rand_peer(rng, k):
    slots, ctor = rand_slots(rng)
    return peer_token(k, slots, ctor)


UTF8_HOSTS = ["nödé.example".encode(), "点.example".encode(), b"plain.example", "x\U0001f600y".encode(), b"", b"x"]
BAD_HOSTS = [b"\xff\xfe.example", b"ab\xc3", b"\xed\xa0\x80x", b"\xc0\xaf"]


def rand_snapshot(rng, addrs, corrupt_p=0.5):
    parts = [addr_chunk(rng.choice(addrs)) for _ in range(rng.choice([0, 1, 1, 2, 2, 3, 4]))]
    if rng.random() < 0.25:
        host = rng.choice(UTF8_HOSTS)
        parts.insert(rng.randrange(len(parts) + 1), b"\x02" + len(host).to_bytes(2, "big") + host + b"\x13\x88")
    data = b"".join(parts)
    if rng.random() < corrupt_p:
        kind = rng.randrange(5)
        good = addr_chunk(rng.choice(addrs))
        if kind == 0:      # an unknown type byte, then a well-formed entry (a load that re-synchronises would pick it up)
            data += bytes([rng.choice([0, 4, 9, 200])]) + good
        elif kind == 1:    # truncated last entry
            data += good[:rng.randrange(1, len(good))]
        elif kind == 2:    # host name that is not UTF-8, then a well-formed entry
            host = rng.choice(BAD_HOSTS)
            data += b"\x02" + len(host).to_bytes(2, "big") + host + b"\x13\x88" + good
        elif kind == 3:    # host name length beyond the buffer
            data += b"\x02\xff\xf0" + bytes(rng.randrange(256) for _ in range(rng.randrange(0, 12)))
        else:              # random tail
            data += bytes(rng.randrange(256) for _ in range(rng.randrange(1, 30)))
    return data.hex() or "-"


def random_sequence(rng, length, nkeys):
    caps = [rng.choice([1, 2, 3, 500]) for _ in range(3)]
    lines = ["caps %d %d %d" % tuple(caps)]
    keys = list(range(nkeys))
    addrs = POOL
    g = Spec()          # steers the choices (which keys are verified, which addresses are in use)

    def emit(ln):
        t = resolve(ln.split(), lambda k, st: peer_token(k, g.V[k], stored=st) if k in g.V else None)
        if t[0] in MUTATORS and not (t[0] == "load" and t[1] == "*"):
            g.mutate(strip_classes(t))
        lines.append(ln)

    def typed(a):
        """the address as an argument object of some class: what an endpoint produces (default), or explicitly typed"""
        r = rng.random()
        if r < 0.6:
            return a
        return a + "~%d" % rng.choice([0, 2, 3] if a[0] == "4" else [1, 2] if a[0] == "6" else [2, 4])

    if rng.random() < 0.2:
        lines.append("obs limit %d" % rng.choice([1, 2, 3]))
    if rng.random() < 0.3:
        lines.append("obs probe")
    bl_keys = keys[-2:] if nkeys >= 4 else keys[-1:]     # identities that may get blacklisted (never all of them)
    for bk in bl_keys:
        if rng.random() < 0.2:
            emit("blm p%d" % bk)
    if rng.random() < 0.3:
        emit("bla %s" % typed(rng.choice(addrs)))
    if rng.random() < 0.15:
        emit("load %s" % rand_snapshot(rng, addrs))
    weights = [("add", 14), ("disc", 12), ("svcs", 9), ("set", 6), ("rmp", 7), ("rma", 6), ("bla", 1), ("blm", 0.3),
               ("load", 1.5), ("caps", 0.4), ("walk", 3), ("qa", 12), ("qk", 6), ("qs", 8), ("qw", 9), ("qi", 8), ("qsp", 2), ("qn", 1), ("snap", 2)]
    names = [w[0] for w in weights]
    ws = [w[1] for w in weights]

    def some_key(prefer):
        prefer = sorted(prefer)
        return rng.choice(prefer) if prefer and rng.random() < 0.7 else rng.choice(keys)

    def some_addr():
        used = sorted({a for sl in g.V.values() for a in sl.values()} | set(g.AA))
        return rng.choice(used) if used and rng.random() < 0.65 else rng.choice(addrs)

    for _ in range(length):
        op = rng.choices(names, ws)[0]
        k = rng.choice(keys)
        svcs = SVCS + (["s0"] if rng.random() < 0.06 else [])
        if op in ("add", "disc", "svcs") and k in g.V and rng.random() < 0.3:
            ptok = f"@p{k}:*"       # the handler got the stored Peer from the index (lazy_wrapper) and passes it on
        else:
            ptok = rand_peer(rng, k)
        if op == "add":
            emit("add " + ptok)
        elif op == "disc":
            emit("disc %s %s %s %d" % (ptok, typed(some_addr() if rng.random() < 0.5 else rng.choice(addrs)),
                                       rng.choice(svcs + ["-"]), rng.random() < 0.4))
        elif op == "svcs":
            n = rng.choice([0, 1, 1, 1, 2, 3])
            emit("svcs %s [%s] %s" % (ptok, ",".join(rng.sample(svcs, min(n, len(svcs)))),
                                      rng.choice(CONTAINERS) if rng.random() < 0.5 else "L"))
        elif op == "walk":
            if rng.random() < 0.7:
                emit("walk EdgeWalk %s %d" % (rng.choice(SVCS), rng.choice([1, 1, 2, 3])))
            else:
                emit("walk RandomWalk %s 0" % rng.choice(SVCS))
        elif op == "set":
            kk = some_key(g.V)
            slot = rng.choice([0, 0, 1, 2, 3, 4])
            emit("set p%d %d %s" % (kk, slot, rng.choice(V4 if slot in (0, 3) else V6 if slot == 1 else DOM if slot == 4 else V4 + DOM)))
        elif op == "rmp":
            kk = some_key(g.V)
            emit("rmp " + (f"p{kk}:*" if rng.random() < 0.7 else rand_peer(rng, kk).replace("^", "")))
        elif op == "rma":
            emit("rma " + typed(some_addr()))
        elif op == "bla":
            emit("bla " + typed(rng.choice(addrs)))
        elif op == "blm":
            emit("blm p%d" % rng.choice(bl_keys))
        elif op == "load":
            emit("load %s" % ("*" if rng.random() < 0.3 else rand_snapshot(rng, addrs)))
        elif op == "caps":
            caps = [max(c, rng.choice([1, 2, 3, 500])) for c in caps]      # caps are only ever raised
            lines.append("caps %d %d %d" % tuple(caps))
        elif op == "qa":
            emit("qa %s ?" % typed(some_addr()))
        elif op == "qk":
            emit("qk p%d" % some_key(g.V))
        elif op == "qs":
            emit("qs " + rng.choice(svcs))
        elif op == "qw":
            emit("qw %s %d" % (rng.choice(svcs + ["-"]), rng.random() < 0.3))
        elif op == "qi":
            emit("qi p%d" % some_key({w[0] for w in g.AA.values() if w[0] is not None}))
        elif op == "qsp":
            emit("qsp p%d" % some_key(g.SV))
        elif op == "qn":
            emit("qn " + typed(some_addr()))
        else:
            emit("snap")
    sw = sweep_lines(keys, addrs)
    return lines + sw + sw


A0, A1, A2 = V4[0], V4[1], V4[2]
EXH_ALPHABET = [
    f"add p0:0={A0}", f"add p0:0={A1}", f"add p1:0={A0}", f"add p2:0={A2}",
    f"disc p0:0={A0} {A2} s1 0", f"disc p1:0={A1} {A2} s2 1", f"disc p1:0={A1} {A0} s1 0",
    "svcs p0:- [s1]", "svcs p1:- [s1,s2]",
    "rmp p0:*", "rmp p1:*", f"rma {A0}", f"rma {A2}", f"set p0 0 {A1}",
    f"qa {A0} ?", f"qa {A1} ?", "qs s1", "qw s1 0", "qi p0", "qi p1",
]
EXH_SMALL = [0, 1, 4, 6, 7, 9, 11, 13, 14, 18]
EXH_SWEEP = ([f"qk p{k}" for k in (0, 1, 2)] + [f"qi p{k}" for k in (0, 1)] + [f"qa {a} ?" for a in (A0, A1, A2)]
             + ["qs s1", "qs s2", "qw s1 0", "qw s2 0", "qw - 0", "snap"])
EXH_AGAIN = ["qk p0", "qi p0", "qi p1", f"qa {A0} ?", f"qa {A1} ?", "qs s1", "qw s1 0", "qw s2 0"]


def stale_shape(lines) -> bool:
    """a query, later a removal / update / service change, later another query"""
    st = 0
    for ln in lines:
        q = ln[0] == "q" or ln.startswith("snap")
        if st == 0 and q:
            st = 1
        elif st == 1 and not q and not ln.startswith("caps"):
            st = 2
        elif st == 2 and q:
            return True
    return False


def run_batch(ctx: Ctx, seqs, tag, use_model):
    """execute sequences on the implementation (+ oracle) and, in one driver batch, on the model"""
    all_lines, all_answers, marks = [], [], []
    for n_seq, lines in enumerate(seqs):
        sent, answers, _ok, (mlines, manswers) = execute(ctx, lines, tag)
        ctx.case("\n".join(sent), stale_shape(sent))
        ctx.count(f"{tag}:sequences")
        ctx.count(f"{tag}:len<=%d" % (10 if len(sent) <= 10 else 50 if len(sent) <= 50 else 100 if len(sent) <= 100 else 400))
        if n_seq == 0 and tag in ("scripted", "exhaustive", "random") and not ctx.searching:
            ctx.sample({"generator": tag, "lines": sent[:60], "implementation_answers": answers[:60]}, limit=4)
        for ln, a in zip(sent, answers):
            op = ln.split(" ", 1)[0]
            ctx.count(f"op:{op}")
            if op == "qa":
                ctx.count("qa:" + ("none" if a == "none" else "some"))
            elif op in ("qs", "qw", "qi"):
                ctx.count(f"{op}:" + ("empty" if a == "[]" else "nonempty"))
        start = len(all_lines)
        all_lines.append("reset")
        all_answers.append("ok")
        all_lines += mlines
        all_answers += manswers
        marks.append((start, len(all_lines)))
    if use_model and ctx.model_ok and all_lines:
        replies = ctx.driver().batch(all_lines)
        for (s, e) in marks:
            for i in range(s, e):
                if replies[i] != all_answers[i]:
                    ctx.disagree(f"model {replies[i]!r} != implementation {all_answers[i]!r} on `{all_lines[i]}` "
                                 f"(line {i - s - 1} of a {tag} sequence)",
                                 {"lines": all_lines[s + 1:i + 1], "model": replies[i], "impl": all_answers[i]})
                    break
        ctx.count(f"{tag}:driver_lines", len(all_lines))


def exhaustive(ctx: Ctx, depth: int, use_model: bool, alphabet=None):
    alphabet = alphabet or EXH_ALPHABET
    caps = "caps 1 1 1"
    batch = []
    for d in range(1, depth + 1):
        for combo in itertools.product(alphabet, repeat=d):
            # redundancy pruning: a sequence that starts with a query on the empty graph adds nothing
            if combo[0][0] == "q" and d > 1:
                continue
            batch.append([caps] + list(combo) + EXH_SWEEP + EXH_AGAIN)
            if len(batch) >= 20000:
                run_batch(ctx, batch, "exhaustive", use_model)
                batch = []
    if batch:
        run_batch(ctx, batch, "exhaustive", use_model)


def scripted():
    """hand-written shapes: DESIGN.md section 6 item 8, the seeded changes, the review's regressions"""
    a, b, x = V4[0], V4[1], V4[2]
    c500 = "caps 500 500 500"
    return [
        [c500, f"add p0:0={a}", f"qa {a} ?", "rmp p0:*", f"qa {a} ?", "qk p0"],
        [c500, f"add p0:0={a}", f"rma {a}", "qk p0", f"add p0:0={a}", f"qa {a} ?", "qk p0"],
        [c500, f"add p0:0={a}", "svcs p0:- [s1]", f"disc p0:0={a} {x} s2 0", "qs s2", "qw s2 0", "qs s2", "qsp p0"],
        [c500, f"add p0:0={a}", f"qa {a} ?", f"add p0:0={b}", f"qa {a} ?", f"qa {b} ?"],
        [c500, f"add p0:0={a}", f"disc p0:0={a} {x} s1 0", "qi p0", f"rma {x}", "qi p0", "qw - 0"],
        [c500, "svcs p0:- [s1]", "qs s1", f"add p0:0={a}", "qs s1"],
        ["caps 500 1 500", f"disc p0:0={a} {x} s1 0", f"disc p1:0={b} {V4[3]} s1 0", f"disc p0:0={a} {V6[0]} s1 0", "qi p0"],
        [c500, f"disc p0:0={a} {x} s1 0", "qi p0", "rmp p0:*", f"disc p1:0={b} {x} s1 0", "qi p0", "qi p1"],
        # a re-added key is a new Peer object: a cached object of the old incarnation must not be returned
        [c500, f"add p0:0={a}", f"qa {a} ?", "rmp p0:*", f"add p0:0={b}", f"qa {a} ?", f"qa {b} ?"],
        [c500, f"add p0:0={a}", "svcs p0:- [s1]", "qs s1", "rmp p0:*", f"add p0:0={b}", "qs s1", "qw s1 0"],
        # a verified peer whose address is NOT in _all_addresses (address update / shared address + remove_peer)
        ["caps 1 1 1", f"add p0:0={b}", f"add p0:0={a}", f"qa {a} ?", f"rma {a}", "qk p0", f"qa {a} ?", f"add p0:0={a}", "qk p0"],
        [c500, f"add p0:0={a}", f"add p0:0={b}", "snap", f"qa {b} ?", "qw - 0"],
        [c500, f"add p0:0={a}", f"add p1:0={a}", "rmp p0:*", "snap", f"qa {a} ?", f"rma {a}", "qk p1", "snap"],
        # load_snapshot over an introduced address, eviction of the service and address caches
        ["caps 1 1 1", f"disc p0:0={a} {x} s1 0", "qi p0", "load " + addr_chunk(x).hex(), "qi p0", "qw - 0"],
        ["caps 1 1 1", f"add p0:0={a}", f"add p1:0={b}", "svcs p0:- [s1]", "svcs p1:- [s2]", "qs s1", "qs s2", "qs s1",
         f"qa {a} ?", f"qa {b} ?", f"qa {a} ?"],
        # the same introducer introduces the same address again after having been removed: no duplicate in the answer
        [c500, f"disc p0:0={a} {x} s1 0", "qi p0", "rmp p0:*", f"disc p0:0={a} {x} s1 0", "qi p0"],
        # discover_address for an address that stays with its (verified) introducer must not touch other cached lists
        [c500, f"disc p0:0={a} {x} s1 0", f"add p1:0={b}", "qi p1", f"disc p1:0={b} {x} s1 0", "qi p1", "qi p0"],
        # introduction cache with cap 1: three introducers asked in turn
        ["caps 1 1 1", f"disc p0:0={a} {x} s1 0", f"disc p1:0={b} {V4[3]} s1 0", "qi p0", "qi p1", "qi p2", "qi p0"],
        # the stored Peer is updated in place (lazy_wrapper: peer.add_address(source_address)) and passed on
        [c500, f"add p0:0={a}", f"qa {a} ?", f"set p0 0 {b}", "add @p0:*", f"qa {a} ?", f"qa {b} ?", "snap", f"rma {b}", "qk p0"],
        [c500, f"add p0:0={a}", f"set p0 3 {b}", "svcs @p0:* [s1]", f"qa {b} ?", "qs s1", "snap"],
        # Peer constructed with an address whose class is outside INTERFACE_ORDER: Peer.address is that address
        [c500, f"add p0:^4={DOM[0]}", "snap", f"qa {DOM[0]} ?", "qw - 0"],
        [c500, f"add p0:^3={a}", "snap", f"set p0 0 {b}", "snap"],
        [c500, f"add p0:4={DOM[0]}", "snap"],
        # empty service id
        [c500, f"add p0:0={a}", "svcs p0:- [s0,s1]", "qs s0", f"disc p0:0={a} {x} s0 0", "qw s0 0", "qw s1 0", "qsp p0"],
        # load: unknown type byte / bad UTF-8 host in front of a good entry; valid multi-byte host
        [c500, "load 09" + addr_chunk(a).hex(), "qw - 0", "load " + addr_chunk(b).hex() + "020002fffe1388" + addr_chunk(a).hex(), "qw - 0"],
        [c500, "load " + dom_chunk("nöd.x".encode(), 5000).hex() + addr_chunk(a).hex(), "qw - 0", "snap"],
        # a peer known under one address class is found / removed / blacklisted through an argument of another class
        [c500, f"add p0:3={a}", f"qa {a}~0 ?", f"qa {a}~2 ?", f"qa {a}~3 ?", f"rma {a}~0", "qk p0"],
        [c500, f"add p0:0={a}", f"qa {a}~3 ?", f"rma {a}~3", "qk p0", f"bla {b}~3", f"add p1:0={b}", "qk p1",
         f"disc p0:0={a} {b}~0 s1 0", "qw - 0"],
        # boundary addresses: port 0 on a real host, zero host with a real port, highest port
        [c500, f"add p0:0={EDGE[0]}", f"add p1:0={EDGE[1]}", f"add p2:0={EDGE[2]}", "snap", f"qa {EDGE[0]} ?", "load *", "qw - 0"],
        [c500, f"add p0:0={ZERO}", f"add p1:1={V6[0]}", "snap", "load *", "qw - 0"],
        # host names that look numeric: they must come back from snapshot -> load_snapshot as the same names
        [c500] + [f"add p{i}:2={v}" for i, v in enumerate(DOM_NUMERIC)] + ["snap", "load *", "qw - 0"]
        + [f"rmp p{i}:*" for i in range(len(DOM_NUMERIC))] + ["load *", "qw - 0", f"qa {DOM_NUMERIC[0]} ?"],
        [c500, f"add p0:^4={DOM_NUMERIC[1]}", f"disc p0:^4={DOM_NUMERIC[1]} {DOM_NUMERIC[0]} s1 0", "snap", "load *", "qw - 0", "qw s1 0"],
        # IPv6 text forms: every address must come back from snapshot -> load_snapshot as the same (text, port)
        [c500] + [f"add p{i}:1={v}" for i, v in enumerate(V6_FORMS)] + ["snap", "load *", "qw - 0"]
        + [f"rmp p{i}:*" for i in range(len(V6_FORMS))] + ["load *", "qw - 0", f"qa {V6_FORMS[0]} ?"],
        # an introducer that never becomes verified (blacklisted identity / blacklisted address) advertises a service
        [c500, "blm p0", "svcs p0:- [s1]", f"disc p0:0={a} {x} s2 0", "qw s1 0", "qw s2 0", "qw s3 0", "qs s1", "qi p0"],
        [c500, f"bla {a}", "svcs p0:- [s1]", f"disc p0:0={a} {x} s2 0", f"add p1:0={b}", "svcs p1:- [s2]", "qw s1 0", "qw s2 0", "qk p0"],
        # re-entrant observers: a peer-limit observer removes the newcomer from inside on_peer_added; a probing observer
        # looks the newcomer up during the callback.  Key lookup, membership and re-adding must stay consistent
        [c500, "obs probe", "obs limit 1", f"add p0:0={a}", f"add p1:0={b}", "qk p1", f"qa {b} ?", "qs s1", f"rma {a}",
         f"add p1:0={b}", "qk p1", f"qa {b} ?"],
        [c500, "obs limit 1", "svcs p1:- [s1]", "qs s1", f"add p0:0={a}", f"disc p1:0={b} {x} s1 0", "qk p1", "qs s1", "qi p1",
         "rmp p0:*", f"add p1:0={b}", "qk p1", "qs s1"],
        # two blacklisted identities
        [c500, "blm p0", "blm p1", f"add p1:0={a}", f"add p0:0={b}", f"add p2:0={x}", "qk p0", "qk p1", "qk p2",
         f"disc p1:0={a} {V4[3]} s1 0", "svcs p1:- [s2]", "qw s2 0", "qi p1"],
        # caps raised in the middle of a history
        ["caps 1 1 1", f"add p0:0={a}", f"add p1:0={b}", f"qa {a} ?", f"qa {b} ?", "caps 2 2 2", f"qa {a} ?", f"qa {b} ?", "qs s1", "qs s2"],
        # objects that cross the API boundary.  (out) a consumer in /repo is handed the live per-service list / introduction
        # list and may do with it what it likes: the answers must stay what the graph implies
        [c500, f"add p0:0={a}", f"add p1:0={b}", f"add p2:0={x}", "svcs p0:- [s1]", "svcs p1:- [s1]", "svcs p2:- [s1]",
         "walk EdgeWalk s1 1", "qs s1", "walk EdgeWalk s1 2", "qs s1", "walk RandomWalk s1 0", "qs s1"],
        ["caps 1 1 1", f"disc p0:0={a} {x} s1 0", f"disc p0:0={a} {V4[3]} s1 0", "svcs p0:- [s1]", f"add p1:0={x}",
         "svcs p1:- [s1]", "walk EdgeWalk s1 1", "qi p0", "qs s1", "walk EdgeWalk s1 2", "qi p0", "qs s1"],
        # (in) the caller keeps using the container it passed: its own set reused for another peer, a one-shot generator,
        # a tuple, a dict view — with a warm per-service cache
        [c500, f"add p0:0={a}", f"add p1:0={b}", "qs s1", "qs s2", "svcs p0:- [s1] S0", "svcs p1:- [s2] S0", "qsp p0", "qsp p1",
         "svcs p0:- [s3] S1", "qsp p1", "qs s1", "qs s2", "qs s3"],
        [c500, f"add p0:0={a}", "qs s1", "qs s2", "svcs p0:- [s1] G", "qs s1", "svcs p0:- [s2] D", "qs s2", "svcs p0:- [s3] T", "qs s3"],
        # deterministic hits for branch classes the other shapes leave to the random part (see REQUIRED_CLASSES)
        [c500, "add p0:-", f"add p1:^0={a}", f"bla {x}", f"add p2:0={a},3={x}", f"disc @p1:* {V4[3]} s1 0", f"rmp p1:0={b}",
         f"bla {b}", "load " + addr_chunk(b).hex() + addr_chunk(a).hex()[:6], f"qa {V6[0]}~1 ?", f"qa {DOM[0]}~4 ?",
         f"qa {a}~2 ?", f"qn {a}~0", "qw - 0"],
        # snapshot -> load: only the service-less query sees the loaded addresses
        [c500, "load " + addr_chunk(a).hex() + addr_chunk(b).hex(), "qw - 0", "qw s1 0", f"add p0:0={a}", "qw - 0", "snap"],
    ]


def run(ctx: Ctx):
    if ctx.replay_input is not None:
        return replay(ctx, ctx.replay_input)
    use_model = ctx.model_ok
    run_batch(ctx, [s + EXH_SWEEP for s in scripted()], "scripted", use_model)
    exhaustive(ctx, ctx.scale(3, 4), use_model)
    rng = ctx.rng
    seqs = []
    for i in range(ctx.scale(1500, 10000)):
        length = rng.choice([10, 20, 40, 80, 200]) if i % 10 else 200
        seqs.append(random_sequence(rng, length, rng.choice([3, 3, 4, 5, 6])))
        if len(seqs) >= 2000:
            run_batch(ctx, seqs, "random", use_model)
            seqs = []
    run_batch(ctx, seqs, "random", use_model)
    if ctx.thorough():
        exhaustive(ctx, 5, use_model, [EXH_ALPHABET[i] for i in EXH_SMALL])
    enforce_coverage(ctx)


def search(ctx: Ctx, reason: str):
    """implementation-only search after an obligation broke; sized so that a red quick run stays well under 3 minutes"""
    rng = ctx.rng
    run_batch(ctx, [random_sequence(rng, rng.choice([20, 60, 200]), rng.choice([3, 4, 5, 6]))
                    for _ in range(ctx.scale(400, 8000))], "search", False)
    if ctx.thorough():
        exhaustive(ctx, 4, False)


def replay(ctx: Ctx, rec: dict):
    r = rec.get("replay", rec)
    lines = r["lines"]
    before = len(ctx.failures)
    sent, answers, _, _m = execute(ctx, lines, "replay")
    for ln, a in zip(sent, answers):
        print(f"replay: {ln:60s} -> {a}")
    ctx.case("\n".join(sent), True)
    bad = ctx.failures[before:]
    print("replay: property " + ("FAILS: " + bad[0]["what"] if bad else "holds on this input"))
