"""
C18 — attribute proofs: field arithmetic of FP2Value, Boneh encode/decode, bit-pair attestation rounds and scoring,
Peng-Bao range proofs, serialisation.

Link to the code:
  * translator tools/gen_fp2.py regenerates lean/Ipv8/C18/GenFP2.lean from value.py on every run;
  * correspondence: the model (driver drv_c18) vs the real code on the same inputs — the integer-level FP2Value
    functions on random operands with general denominators; and the protocol functions of Proto.lean / Range.lean /
    Ser.lean executed at the FP2Value operations on the randomness RECORDED from the real run (randint / shuffle /
    _random_number / secure_randint are replaced inside the modules under test by recording stand-ins fed from ctx.rng):
    whole attestations, challenges, responses, aggregates, scores, range-proof creation and check, byte strings;
  * oracle (independent of the model): exact arithmetic on pairs in F_p[w]/(w^2+w+1), hashlib and Fraction written here
    from first principles decide, for every generated case, whether the property itself holds on the implementation.
"""
from __future__ import annotations

import gen_fp2
from vlib import Ctx, InfraError

PROPERTY = "C18"
LEAN_TARGETS = ["Ipv8.C18.Props"]
PROPS_FILE = "Ipv8/C18/Props.lean"
DRIVER = "drv_c18"
RULE = ("arithmetic: random FP2Value coefficient 6-tuples over primes p in PRIMES, classes {general denominators, c/cC "
        "non-zero, zero numerator, unit denominator}; protocol: full attestation rounds with a FRESH key per round for the "
        "formats sha256_4 / sha256 / sha512 (key sizes 8..32 bit primes), attribute values of length classes 0/1/2-8/9-63/64+, "
        "challenge orders {full in order, shuffled, reversed, random subset, small subset, prefix, empty}; encode/decode on "
        "small fresh keys with message spaces {[0,1,2], 0..255, shuffled, without the plaintext} and scripted retries; "
        "synthetic relativity maps {equal, sub, over, neighbour, random}; integers of all sizes for ipack; range rounds "
        "{inside (bit spaces 32..512), edge, outside (honest), outside by one, 9 kinds of cheating prover, formats with max <= 0, challenges at the verifier's threshold, independent verifier "
        "ranges with histories of checks on one object, tampered answers, multi-answer aggregates}; verifications between "
        "AttestationCommunity nodes over a network in 9 modes (duplicates, re-ordering, losses, time-outs, wrong honesty "
        "answers, answer bytes above 3) and the shipped range format through the community. "
        "distinct = distinct (kind, key modulus, value, order/operands); non-trivial = general denominators (arithmetic) "
        "/ every protocol case")
TRUSTED_BASE = [
    "tools/gen_fp2.py: AST translation of FP2Value.__add__/__sub__/__mul__/__floordiv__/inverse/wp_nominator (polynomial expressions only)",
    "hand-written model Ipv8/C18/{Model,Proto,Range,Ser}.lean, tied by the correspondence run on recorded randomness",
    "the recording stand-ins for random.randint/shuffle, _random_number, secure_randint installed by the harness",
    "hashlib (sha256/sha512): attribute hashes and the Fiat-Shamir hash of EL proofs (a finite table in the model)",
    "key generation (ipv8_rust_tunnels primes, Weil pairing): outside the model; the order hypotheses are checked on every fresh key",
    "no claim of computational soundness of the range proof against a prover who deviates arbitrarily",
]
ASSUMPTIONS = ["FP2Value operands share one modulus (asserted by the code)",
               "arithmetic theorems hold in every commutative ring; normalize/__eq__ theorems for every prime modulus",
               "protocol theorems: BonehHyp (g^(p+1) = 1, h^t1 = 1, g^t1 != 1, (g^t1)^2 != 1), blinding factors in the subgroup of h",
               "range completeness: w >= 3 and the prover's split has m1, m2 >= 0 (m2 < 0 has probability about 2^-15 per "
               "attestation at the shipped bit space; attest() then raises while packing the private data; such rounds "
               "are counted under range:m2:negative and not reported)",
               "verifier bookkeeping theorems with an honest prover: every answer is at most 3",
               "the Fiat-Shamir hash is a function of the group element: wp_compress is assumed canonical (sampled by the "
               "arithmetic correspondence, not proved)"]

PRIMES = [5, 11, 23, 29, 101, 1019, 65537, 2 ** 61 - 1, 2 ** 127 - 1]


def generate(ctx: Ctx):
    src, _ = gen_fp2.translate()
    return [("Ipv8/C18/GenFP2.lean", src), ("Ipv8/C18/GenGuard.lean", gen_fp2.translate_guards()),
            ("Ipv8/C18/GenRange.lean", gen_fp2.translate_range()), ("Ipv8/C18/GenAttest.lean", gen_fp2.translate_attest())]


# ---- exact arithmetic in F_p[w]/(w^2+w+1), written independently of both the model and the code -------------
def e_mul(x, y, p):
    return ((x[0] * y[0] - x[1] * y[1]) % p, (x[0] * y[1] + x[1] * y[0] - x[1] * y[1]) % p)


def e_add(x, y, p):
    return ((x[0] + y[0]) % p, (x[1] + y[1]) % p)


def e_sub(x, y, p):
    return ((x[0] - y[0]) % p, (x[1] - y[1]) % p)


def num(v, p):
    return ((v[0] - v[2]) % p, (v[1] - v[2]) % p)


def den(v, p):
    return ((v[3] - v[5]) % p, (v[4] - v[5]) % p)


def frac_eq(n1, d1, n2, d2, p):
    return e_mul(n1, d2, p) == e_mul(n2, d1, p)


def expected(op, s, o, p):
    """(numerator, denominator) the fraction-arithmetic result must be equal to (as a fraction)."""
    ns, ds = num(s, p), den(s, p)
    if op == "inv":
        return ds, ns
    no, do = num(o, p), den(o, p)
    if op == "add":
        return e_add(e_mul(ns, do, p), e_mul(no, ds, p), p), e_mul(ds, do, p)
    if op == "sub":
        return e_sub(e_mul(ns, do, p), e_mul(no, ds, p), p), e_mul(ds, do, p)
    if op == "mul":
        return e_mul(ns, no, p), e_mul(ds, do, p)
    if op == "div":
        return e_mul(ns, do, p), e_mul(ds, no, p)
    raise ValueError(op)


def e_pow(x, n, p):
    r = (1 % p, 0)
    for _ in range(n):
        r = e_mul(r, x, p)
    return r


def tup(v):
    return (v.a, v.b, v.c, v.aC, v.bC, v.cC)


def rand_operand(rng, p, cls):
    r = lambda: rng.randrange(p)  # noqa: E731
    if cls == "general":
        return (r(), r(), 0, r(), r(), 0)
    if cls == "full":
        return (r(), r(), r(), r(), r(), r())
    if cls == "unit":
        return (r(), r(), 0, 1, 0, 0)
    if cls == "zero":
        return (0, 0, 0, r(), r(), 0)
    if cls == "small":
        return tuple(rng.randrange(min(p, 3)) for _ in range(6))
    raise ValueError(cls)


PYOP = {"add": lambda a, b: a + b, "sub": lambda a, b: a - b, "mul": lambda a, b: a * b, "div": lambda a, b: a // b}


def run_cases(ctx: Ctx, n_cases: int, use_model: bool):
    from ipv8.attestation.wallet.primitives.value import FP2Value, _modinv
    rng = ctx.rng
    lines, expect = [], []
    classes = ["general", "general", "full", "unit", "zero", "small"]
    for i in range(n_cases):
        p = rng.choice(PRIMES)
        op = rng.choice(["add", "sub", "mul", "div", "add", "inv", "pow", "eq", "norm", "modinv", "wpc"])
        cs, co = rng.choice(classes), rng.choice(classes)
        s, o = rand_operand(rng, p, cs), rand_operand(rng, p, co)
        S, O = FP2Value(p, *s), FP2Value(p, *o)
        nontrivial = bool(s[4] or s[5] or o[4] or o[5])
        ctx.count(f"op:{op}")
        ctx.count(f"class:{cs}")
        ctx.count("prime_bits:%d" % p.bit_length())
        sv = " ".join(map(str, s))
        ov = " ".join(map(str, o))
        if op in PYOP:
            res = tup(PYOP[op](S, O))
            line, got = f"{op} {p} {sv} {ov}", " ".join(map(str, res))
            en, ed = expected(op, s, o, p)
            if not frac_eq(num(res, p), den(res, p), en, ed, p):
                ctx.oracle_fail(f"FP2Value.__{ {'add':'add','sub':'sub','mul':'mul','div':'floordiv'}[op]}__:fraction-law",
                                f"{op} of {s} and {o} mod {p} gives {res}, which is not the field result "
                                f"(expected numerator {en} over denominator {ed})",
                                {"op": op, "p": p, "self": s, "other": o, "result": res,
                                 "expected_num": en, "expected_den": ed})
            ctx.case((op, p, s, o), nontrivial)
        elif op == "inv":
            res = tup(S.inverse())
            line, got = f"inv {p} {sv}", " ".join(map(str, res))
            if num(res, p) != den(s, p) or den(res, p) != num(s, p):
                ctx.oracle_fail("FP2Value.inverse:swap", f"inverse of {s} mod {p} gives {res}",
                                {"op": op, "p": p, "self": s, "result": res})
            ctx.case((op, p, s), nontrivial)
        elif op == "pow":
            k = rng.choice([0, 1, 2, 3, 5, 8, 13, 64, 255, rng.randrange(1, 2000)])
            neg = rng.random() < 0.25
            res = tup(S.intpow(-k if neg else k))
            line, got = f"pow {p} {sv} {-k if neg else k}", " ".join(map(str, res))
            if not neg and k <= 300:
                en, ed = e_pow(num(s, p), k, p), e_pow(den(s, p), k, p)
                if not frac_eq(num(res, p), den(res, p), en, ed, p):
                    ctx.oracle_fail("FP2Value.intpow:power", f"({s})^{k} mod {p} gives {res}",
                                    {"op": op, "p": p, "self": s, "k": k, "result": res})
            ctx.case((op, p, s, k, neg), nontrivial)
        elif op == "eq":
            # a value compared with a re-scaled copy of itself must be equal; with a perturbed one, not equal
            variant = rng.choice(["same", "scaled", "other"])
            if variant == "scaled":
                lam = rand_operand(rng, p, "general")
                ln = num(lam, p)
                n2, d2 = e_mul(num(s, p), ln, p), e_mul(den(s, p), ln, p)
                o = (n2[0], n2[1], 0, d2[0], d2[1], 0)
            elif variant == "same":
                o = s
            O = FP2Value(p, *o)
            ov = " ".join(map(str, o))
            res = (S == O)
            line, got = f"eq {p} {sv} {ov}", "true" if res else "false"
            cross = frac_eq(num(s, p), den(s, p), num(o, p), den(o, p), p)
            # the code compares N == D for N/D = self // other; equal to the cross-multiplied test
            if res != cross:
                ctx.oracle_fail("FP2Value.__eq__:cross", f"{s} == {o} mod {p} is {res}, cross-multiplication says {cross}",
                                {"op": op, "p": p, "self": s, "other": o, "result": res})
            ctx.count(f"eq:{variant}:{res}")
            ctx.case((op, p, s, o), nontrivial)
        elif op == "norm":
            res = tup(S.normalize())
            line, got = f"norm {p} {sv}", " ".join(map(str, res))
            if not frac_eq(num(res, p), den(res, p), num(s, p), den(s, p), p):
                ctx.oracle_fail("FP2Value.normalize:value", f"normalize of {s} mod {p} gives {res}: another fraction",
                                {"op": op, "p": p, "self": s, "result": res})
            ctx.case((op, p, s), nontrivial)
        elif op == "modinv":
            e = rng.randrange(p)
            r = _modinv(e, p)
            line, got = f"modinv {e} {p}", str(r)
            if e % p and (r * e) % p != 1:
                ctx.oracle_fail("_modinv:inverse", f"_modinv({e},{p})={r}", {"op": op, "e": e, "p": p, "result": r})
            ctx.case((op, p, e), True)
        else:  # wpc
            s = (s[0], s[1], 0, s[3], s[4], 0)
            S = FP2Value(p, *s)
            sv = " ".join(map(str, s))
            try:
                res = tup(S.wp_compress())
                got = " ".join(map(str, res))
                # compressed form denotes the same field element when the denominator is invertible
                if res[3:] == (1, 0, 0) and not frac_eq(num(res, p), den(res, p), num(s, p), den(s, p), p):
                    dn = den(s, p)
                    norm = (dn[0] * dn[0] - dn[0] * dn[1] + dn[1] * dn[1]) % p
                    if norm and s[3] % p:
                        ctx.oracle_fail("FP2Value.wp_compress:value", f"wp_compress of {s} mod {p} gives {res}",
                                        {"op": op, "p": p, "self": s, "result": res})
            except AssertionError:
                got = "none"
            line = f"wpc {p} {sv}"
            ctx.case((op, p, s), nontrivial)
        lines.append(line)
        expect.append(got)
        if i < 4:
            ctx.sample({"line": line, "implementation": got})
    if use_model:
        d = ctx.driver()
        replies = d.batch(lines)
        for ln, model, impl in zip(lines, replies, expect):
            if model != impl:
                ctx.disagree(f"model {model!r} != implementation {impl!r} on `{ln}`", {"line": ln, "model": model, "impl": impl})




# =====================================================================================================================
#  Protocol part: Boneh encode/decode, bit-pair attestation rounds, scoring, range proofs, serialisation
# =====================================================================================================================
import hashlib  # noqa: E402
import math  # noqa: E402
import random as _random  # noqa: E402
from fractions import Fraction  # noqa: E402

HASHES = {"sha256_4": (lambda v: hashlib.sha256(v).digest()[:4], 32),
          "sha256": (lambda v: hashlib.sha256(v).digest(), 256),
          "sha512": (lambda v: hashlib.sha512(v).digest(), 512)}
FORMATS = {
    "f_sha256_4": {"algorithm": "bonehexact", "key_size": 32, "hash": "sha256_4"},
    "f_sha256": {"algorithm": "bonehexact", "key_size": 32, "hash": "sha256"},
    "f_sha512": {"algorithm": "bonehexact", "key_size": 32, "hash": "sha512"},
}
LARGE_INTEGER = 32765


class _Diverged(Exception):
    pass


# ---- independent arithmetic in F_p[w]/(w^2+w+1) on pairs (re, im) --------------------------------------------------
def e_powf(x, n, p):
    r, u = (1 % p, 0), x
    while n > 0:
        if n & 1:
            r = e_mul(r, u, p)
        u = e_mul(u, u, p)
        n >>= 1
    return r


def e_inv(x, p):
    nrm = (x[0] * x[0] - x[0] * x[1] + x[1] * x[1]) % p
    ni = pow(nrm, -1, p)
    return ((x[0] - x[1]) * ni % p, (-x[1]) * ni % p)


def e_zpow(x, k, p):
    return e_powf(x, k, p) if k >= 0 else e_inv(e_powf(x, -k, p), p)


def fval(v):
    """the field element an FP2Value denotes"""
    p = v.mod
    t = tup(v)
    return e_mul(num(t, p), e_inv(den(t, p), p), p)


def bits_of_digest(d: bytes):
    return [(byte >> (7 - k)) & 1 for byte in d for k in range(8)]


def profile_of_bits(bits):
    c = [0, 0, 0, 0]
    for i in range(0, len(bits) - 1, 2):
        c[bits[i] + bits[i + 1]] += 1
    return c


def spec_match(e, v):
    """the specified matching factor: 0 when the observed histogram is not below the expected one"""
    m = Fraction(1)
    for k in range(4):
        if e[k] < v[k]:
            return Fraction(0)
    for k in range(4):
        if e[k] and v[k]:
            m *= Fraction(v[k], e[k])
    return m


def spec_certainty(e, v):
    return spec_match(e, v) * (1 - Fraction(1, 2 ** sum(v)))


def close(f: float, q: Fraction) -> bool:
    """a float the code computed with at most a handful of correctly rounded operations vs the exact rational"""
    return abs(Fraction(f) - q) <= Fraction(4, 10 ** 15)


def exact_float(f: float, q: Fraction) -> bool:
    """the correctly rounded double of q (1 - 0.5**n is one exact power and one correctly rounded subtraction)"""
    return f == float(q)


def parse_rat(s: str) -> Fraction:
    a, b = s.split("/")
    return Fraction(int(a), int(b))


def nat_list(xs) -> str:
    return "[" + ",".join(str(int(x)) for x in xs) + "]"


class Recorder:
    """stands in for random.randint / random.shuffle inside the modules under test; draws come from the run's PRNG"""

    def __init__(self, rng):
        self.rng = rng
        self.draws = []
        self.shuffles = []
        self.script = None     # optional scripted draws (used to exercise the retry loop of get_random_exponentiation)

    def randint(self, a, b):
        if self.script:
            v = self.script.pop(0)
        else:
            v = self.rng.randint(a, b)
        self.draws.append(v)
        return v

    def shuffle(self, x):
        idx = list(range(len(x)))
        self.rng.shuffle(idx)
        x[:] = [x[i] for i in idx]
        self.shuffles.append(idx)


class Patched:
    """context manager: replace module attributes, restore afterwards"""

    def __init__(self, *triples):
        self.triples = triples
        self.saved = []

    def __enter__(self):
        for mod, name, val in self.triples:
            self.saved.append((mod, name, getattr(mod, name)))
            setattr(mod, name, val)
        return self

    def __exit__(self, *a):
        for mod, name, val in self.saved:
            setattr(mod, name, val)
        return False


class Batch:
    """model lines with the implementation's answers, compared at the end in one driver run"""

    def __init__(self):
        self.items = []

    def add(self, line, impl, cmp=None, tag=""):
        self.items.append((line, impl, cmp, tag))

    def flush(self, ctx):
        if not self.items or not ctx.model_ok:
            return
        d = ctx.driver()
        replies = d.batch([it[0] for it in self.items])
        for (line, impl, cmp, tag), model in zip(self.items, replies):
            ok = cmp(model, impl) if cmp else (model == impl)
            ctx.count("model-line:" + line.split(" ", 1)[0])
            if not ok:
                ctx.disagree(f"{tag}: model {model[:300]!r} != implementation {str(impl)[:300]!r} on `{line[:300]}`",
                             {"line": line[:4000], "model": model[:4000], "impl": str(impl)[:4000], "tag": tag})
        self.items = []


def key_ints(k):
    return f"{k.p} {k.g.a} {k.g.b} {k.h.a} {k.h.b}"


def is_compressed(v):
    return v.c == 0 and v.aC == 1 and v.bC == 0 and v.cC == 0


def small_keypair(ctx, key_size):
    """generate_keypair below the API's minimum size (fast, diverse).  generate_keypair does not test g^t1 != 1; a random
    element of the order-n subgroup has order t1 with probability about 1/t2, which is 2^-32 at the smallest size the API
    allows but about 1/200 for 8-bit primes — such toy keys are drawn again (counted), not reported."""
    from ipv8.attestation.wallet.primitives import boneh
    for _ in range(50):
        sk = boneh.generate_keypair(key_size)[1]
        if check_key_hypotheses(ctx, sk, "toy key", report=False):
            return sk
        ctx.count("keyhyp:toy-key-redrawn")
    raise RuntimeError("no usable toy key in 50 draws")


def check_key_hypotheses(ctx, sk, where, report=True):
    """the order hypotheses the theorems assume, checked on the fresh key with the independent arithmetic"""
    p = sk.p
    g, h = fval(sk.g), fval(sk.h)
    one = (1, 0)
    t = e_powf(g, sk.t1, p)
    ok = {
        "p=2mod3": p % 3 == 2,
        "n|p+1": (p + 1) % sk.n == 0,
        "t1|n": sk.n % sk.t1 == 0,
        "g^n=1": e_powf(g, sk.n, p) == one,
        "h^t1=1": e_powf(h, sk.t1, p) == one,
        "h!=1": h != one,
        "g^t1!=1": t != one,
        "(g^t1)^2!=1": e_mul(t, t, p) != one,
        "compressed": is_compressed(sk.g) and is_compressed(sk.h),
    }
    if sk.t1 > 255 and sk.n // sk.t1 > 255 and "range" in where:
        # decode over the byte message space range(256) (private part of range attestations): g^t1 has order above 255
        acc, sep = (1, 0), True
        for _ in range(255):
            acc = e_mul(acc, t, p)
            sep = sep and acc != one
        ok["ord(g^t1)>255"] = sep
    ctx.count("keyhyp:order-of-g:" + ("n" if e_powf(g, sk.n // sk.t1, p) != one else "t2"))
    bad = [k for k, v in ok.items() if not v]
    ctx.count("keyhyp:" + ("ok" if not bad else "+".join(bad)))
    if bad and report:
        ctx.oracle_fail("generate_keypair:order-hypotheses", f"{where}: fresh key violates {bad}",
                        {"kind": "key", "sk": sk.serialize().hex(), "violated": bad})
    return not bad


def value_of_class(rng, cls):
    if cls == "empty":
        return b""
    if cls == "byte":
        return bytes([rng.randrange(256)])
    if cls == "short":
        return bytes(rng.randrange(256) for _ in range(rng.randrange(2, 9)))
    if cls == "ascii":
        return "".join(rng.choice("abcdefghijklmnopqrstuvwxyz0123456789 ") for _ in range(rng.randrange(3, 30))).encode()
    if cls == "zeros":
        return b"\x00" * rng.randrange(1, 40)
    if cls == "long":
        return bytes(rng.randrange(256) for _ in range(rng.randrange(64, 400)))
    raise ValueError(cls)


VALUE_CLASSES = ["empty", "byte", "short", "ascii", "ascii", "zeros", "long"]


def neighbour_values(rng, value):
    """values close to the attested one (the interesting candidates for a wrong match)"""
    out = []
    if value:
        i = rng.randrange(len(value))
        out.append(value[:i] + bytes([value[i] ^ (1 << rng.randrange(8))]) + value[i + 1:])
        out.append(value[:-1])
        out.append(value[::-1])
    out.append(value + b"\x00")
    out.append(bytes(rng.randrange(256) for _ in range(rng.randrange(1, 12))))
    return [v for v in out if v != value]


def choose_order(rng, n, kind):
    idx = list(range(n))
    if kind == "full-inorder":
        return idx
    if kind == "full-shuffled":
        rng.shuffle(idx)
        return idx
    if kind == "full-reversed":
        return idx[::-1]
    if kind == "subset":
        k = rng.randrange(1, n)
        return rng.sample(idx, k)
    if kind == "small-subset":
        return rng.sample(idx, min(n, rng.randrange(1, 5)))
    if kind == "prefix":
        return idx[:rng.randrange(1, n)]
    if kind == "empty":
        return []
    raise ValueError(kind)


ORDER_KINDS = ["full-inorder", "full-shuffled", "full-shuffled", "full-reversed", "subset", "subset", "small-subset",
               "prefix", "empty"]


def exact_round(ctx: Ctx, batch: Batch, fmt: str, value: bytes, order_kind: str, sk=None, key_size=None, seed=None):
    """one attestation round of an exact-match format through the real code; returns False when the oracle failed.
    Every random choice of the round (randomness handed to the code, challenge order, neighbour values) comes from
    Random(seed); the seed, the key and the value are in the replay record."""
    from ipv8.attestation.wallet.bonehexact import attestation as battest
    from ipv8.attestation.wallet.bonehexact.algorithm import BonehExactAlgorithm
    from ipv8.attestation.wallet.primitives import boneh
    from ipv8.attestation.wallet.primitives.structs import BonehPrivateKey, BonehPublicKey
    seed = ctx.rng.getrandbits(64) if seed is None else seed
    rng = _random.Random(seed)
    alg = BonehExactAlgorithm(fmt, FORMATS)
    hname = FORMATS[fmt]["hash"]
    hfun, bitspace = HASHES[hname]
    if sk is None:
        if key_size is None:
            sk = alg.generate_secret_key()
        else:
            sk = small_keypair(ctx, key_size)
    pk = sk.public_key()
    p = sk.p
    nfail0 = len(ctx.failures)
    rp = {"kind": "exact", "fmt": fmt, "value": value.hex(), "sk": sk.serialize().hex(), "order_kind": order_kind,
          "seed": seed}

    def fail(sig, what, **kw):
        ctx.oracle_fail(sig, what, dict(rp, **kw))

    if not check_key_hypotheses(ctx, sk, "exact round"):
        return False
    # key serialisation
    sk2 = alg.load_secret_key(sk.serialize())
    pk2 = alg.load_public_key(pk.serialize())
    if (sk2 is None or pk2 is None or not isinstance(sk2, BonehPrivateKey) or not isinstance(pk2, BonehPublicKey)
            or (sk2.p, tup(sk2.g), tup(sk2.h), sk2.n, sk2.t1) != (sk.p, tup(sk.g), tup(sk.h), sk.n, sk.t1)
            or (pk2.p, tup(pk2.g), tup(pk2.h)) != (pk.p, tup(pk.g), tup(pk.h))):
        fail("BonehPrivateKey.unserialize:roundtrip", "key does not survive serialisation")
    batch.add(f"privunser {sk.serialize().hex()}", f"{key_ints(sk)} {sk.n} {sk.t1}", tag="private key unserialize")
    batch.add(f"privser {key_ints(sk)} {sk.n} {sk.t1}", sk.serialize().hex(), tag="private key serialize")

    # --- attest, with recorded randomness --------------------------------------------------------------------
    rec_a, rec_b = Recorder(rng), Recorder(rng)
    with Patched((battest, "randint", rec_a.randint), (battest, "shuffle", rec_a.shuffle),
                 (boneh, "randint", rec_b.randint)):
        blob = alg.attest(pk, value)
    att = alg.get_attestation_class().unserialize(blob, fmt)
    if att.serialize() != blob or (att.PK.p, tup(att.PK.g), tup(att.PK.h)) != (pk.p, tup(pk.g), tup(pk.h)):
        fail("BonehAttestation.unserialize:roundtrip", "attestation does not survive serialisation")
    npairs = len(att.bitpairs)
    flat = []
    for bp in att.bitpairs:
        flat += [bp.a.a, bp.a.b, bp.b.a, bp.b.b, bp.complement.a, bp.complement.b]
    if len(blob) < 12000:
        batch.add(f"attunser {blob.hex()}", f"{key_ints(pk)} {nat_list(flat)}", tag="attestation unserialize")
        batch.add(f"attser {key_ints(pk)} {nat_list(flat)}", blob.hex(), tag="attestation serialize")
    digest_bits = bits_of_digest(hfun(value))
    hval = int.from_bytes(hfun(value), "big")
    true_profile = profile_of_bits(digest_bits)
    if npairs != bitspace // 2:
        fail("attest:pair-count", f"{npairs} bit pairs for a {bitspace}-bit hash")
    # model: the whole attestation from the recorded randomness
    if len(rec_a.shuffles) == 3 and len(rec_a.draws) == bitspace - 1:
        impl = " ".join(f"{bp.a.a} {bp.a.b} 0 1 0 0 {bp.b.a} {bp.b.b} 0 1 0 0 {bp.complement.a} {bp.complement.b} 0 1 0 0"
                        for bp in att.bitpairs)
        batch.add(f"attest {key_ints(pk)} {hval} {bitspace} {nat_list(rec_a.draws)} {nat_list(rec_a.shuffles[0])} "
                  f"{nat_list(rec_a.shuffles[2])} {nat_list(rec_b.draws)}", "0 " + impl, tag="attest")
        perm2 = rec_a.shuffles[2]
    else:
        ctx.count("attest:unexpected-randomness-shape")
        ctx.disagree(f"attest drew {len(rec_a.draws)} integers and shuffled {len(rec_a.shuffles)} times; the model "
                     f"expects {bitspace - 1} and 3", dict(rp))
        perm2 = None

    # --- independent decryption of every bit pair (oracle) ---------------------------------------------------
    g = fval(sk.g)
    t = e_powf(g, sk.t1, p)
    tpow = [e_powf(t, m, p) for m in range(3)]

    def dlog(x):
        d = e_powf(x, sk.t1, p)
        for m in range(3):
            if d == tpow[m]:
                return m
        return 3

    sums = []
    for bp in att.bitpairs:
        sums.append(dlog(e_mul(e_mul(fval(bp.a), fval(bp.b), p), fval(bp.complement), p)))
    got_profile = [sums.count(k) for k in range(4)]
    if got_profile != true_profile:
        fail("attest:profile", f"the attestation encrypts pair sums with histogram {got_profile}, the hash of the "
                               f"value has {true_profile}")
    # the model's own statement about the placement of the pairs
    if perm2 is not None and len(perm2) == npairs:
        bit_sums = [digest_bits[2 * j] + digest_bits[2 * j + 1] for j in range(npairs)]
        if [bit_sums[j] for j in perm2] != sums:
            fail("attest:pair-placement", "decrypted pair sums are not the shuffled pair sums of the hash bits")

    # --- challenges and responses -----------------------------------------------------------------------------
    rec_c = Recorder(rng)
    with Patched((boneh, "randint", rec_c.randint)):
        challenges = alg.create_challenges(pk, att)
    if len(challenges) != npairs:
        fail("create_challenges:count", f"{len(challenges)} challenges for {npairs} pairs")
    one_draw_each = len(rec_c.draws) == len(challenges)
    order = choose_order(rng, len(challenges), order_kind)
    ctx.count(f"order:{order_kind}")
    agg = alg.create_certainty_aggregate(att)
    responses = []
    from ipv8.attestation.wallet.primitives.structs import unpack_pair
    for k in order:
        ch = challenges[k]
        resp = alg.create_challenge_response(sk, att, ch)
        if len(resp) != 1:
            fail("create_challenge_response:shape", f"response {resp!r}")
            continue
        r = resp[0]
        responses.append(r)
        ctx.count(f"response:{r}")
        if r != sums[k]:
            fail("create_challenge_response:pair-sum", f"challenge {k} answered {r}, the pair encrypts {sums[k]}",
                 challenge=k)
        agg = alg.process_challenge_response(agg, ch, resp)
        ca, cb, _ = unpack_pair(ch)
        if one_draw_each and (len(responses) <= 6 or rng.random() < 0.1):
            bp = att.bitpairs[k]
            batch.add(f"chal {key_ints(pk)} {bp.a.a} {bp.a.b} {bp.b.a} {bp.b.b} {bp.complement.a} {bp.complement.b} "
                      f"[{rec_c.draws[k]}]", f"0 {ca} {cb} 0 1 0 0", tag="create_challenge")
            batch.add(f"resp {p} {sk.g.a} {sk.g.b} {sk.t1} {ca} {cb}", str(r), tag="create_challenge_response")
    # the same prover/attestation/algorithm objects asked again later: answers may not depend on what was asked before
    for k in rng.sample(range(len(challenges)), min(3, len(challenges))):
        again = alg.create_challenge_response(sk, att, challenges[k])
        ctx.count("history:exact:re-asked")
        if len(again) != 1 or again[0] != sums[k]:
            fail("create_challenge_response:pair-sum", f"challenge {k} asked again after {len(order)} other answers is "
                                                       f"answered {again!r}, the pair encrypts {sums[k]}", challenge=k)
    got = [agg.get(k, 0) for k in range(4)]
    want = [sum(1 for k in order if sums[k] == m) for m in range(4)]
    if got != want or set(agg.keys()) != {0, 1, 2, 3}:
        fail("process_challenge_response:histogram", f"aggregate {agg} after answering {len(order)} challenges, the "
                                                      f"answered pairs have histogram {want}")
    if perm2 is not None:
        batch.add(f"predict {hval} {bitspace} {nat_list(perm2)} {nat_list(order)}",
                  f"{nat_list(responses)} {' '.join(map(str, got))}", tag="responses and aggregate of the round")
    # --- scoring ------------------------------------------------------------------------------------------------
    n = len(order)
    full = sorted(order) == list(range(npairs))
    cert = alg.certainty(value, dict(agg))
    want_cert = spec_certainty(true_profile, want)
    if full and want_cert != 1 - Fraction(1, 2 ** npairs):
        fail("oracle:self-check", "specification formula disagrees with 1-2^-n on a full round")
    if not (exact_float(cert, want_cert) if full else close(cert, want_cert)):
        fail("certainty:true-value", f"true value scores {cert!r} after {n} answers ({'full' if full else 'partial'} "
                                     f"round), expected {float(want_cert)!r}", certainty=cert)
    ctx.count("score:true:" + ("full" if full else "zero-answers" if n == 0 else "partial"))
    batch.add(f"score {' '.join(map(str, true_profile))} {' '.join(map(str, got))}", cert,
              cmp=lambda m, c: close(c, parse_rat(m.split()[1])), tag="certainty of the true value")
    batch.add(f"relmap {hval} {bitspace}", " ".join(map(str, true_profile)), tag="binary_relativity of the hash")
    for other in neighbour_values(rng, value):
        oprof = profile_of_bits(bits_of_digest(hfun(other)))
        c2 = alg.certainty(other, dict(agg))
        w2 = spec_certainty(oprof, want)
        same = oprof == true_profile
        ctx.count("score:other:" + ("same-profile" if same else "zero" if w2 == 0 else "partial-positive"))
        if full and not same and c2 != 0.0:
            fail("certainty:other-profile", f"value {other!r} with profile {oprof} scores {c2!r} after a full round "
                                            f"on a value with profile {true_profile}", other=other.hex(), certainty=c2)
        elif not close(c2, w2):
            fail("certainty:other-value", f"value {other!r} scores {c2!r}, expected {float(w2)!r}", other=other.hex())
        batch.add(f"score {' '.join(map(str, oprof))} {' '.join(map(str, got))}", c2,
                  cmp=lambda m, c: close(c, parse_rat(m.split()[1])), tag="certainty of another value")
    # --- a challenge that is no encryption of 0, 1 or 2 is answered 3 -----------------------------------------------
    from ipv8.attestation.wallet.primitives.structs import pack_pair as _pp
    junk_m = rng.randrange(3, 200)
    rec_j = Recorder(rng)
    with Patched((boneh, "randint", rec_j.randint)):
        junk = boneh.encode(pk, junk_m)
    jr = alg.create_challenge_response(sk, att, _pp(junk.a, junk.b))
    want_j = next((x for x in (0, 1, 2) if (x - junk_m) % (sk.n // sk.t1) == 0), 3)
    ctx.count(f"response-to-undecodable:{jr[0] if len(jr) == 1 else 'malformed'}")
    if len(jr) != 1 or jr[0] != want_j:
        fail("create_challenge_response:undecodable", f"an encryption of {junk_m} is answered {jr!r}, expected {want_j}")
    batch.add(f"resp {p} {sk.g.a} {sk.g.b} {sk.t1} {junk.a} {junk.b}", str(jr[0]) if len(jr) == 1 else "?",
              tag="create_challenge_response (undecodable)")
    # --- honesty checks (known plaintexts) -----------------------------------------------------------------------
    for m in (0, 1, 2):
        rec_h = Recorder(rng)
        with Patched((boneh, "randint", rec_h.randint)):
            hc = alg.create_honesty_challenge(pk, m)
        hr = alg.create_challenge_response(sk, att, hc)
        if not alg.process_honesty_challenge(m, hr):
            fail("process_honesty_challenge:known-plaintext", f"honest answer {hr!r} to an encryption of {m} rejected",
                 m=m)
        ha, hb, _ = unpack_pair(hc)
        batch.add(f"enc {key_ints(pk)} {m} {nat_list(rec_h.draws)}", f"0 {ha} {hb} 0 1 0 0", tag="encode")
    ctx.count(f"format:{hname}")
    ctx.count("value_len:%s" % ("0" if not value else "1" if len(value) == 1 else "2-8" if len(value) <= 8
                                else "9-63" if len(value) < 64 else "64+"))
    ctx.count("key_bits_p:%d" % (p.bit_length() // 8 * 8))
    ctx.case(("exact", fmt, value, sk.p, tuple(order)), True)
    return len(ctx.failures) == nfail0


def encode_decode_cases(ctx: Ctx, batch: Batch, n_keys: int, per_key: int):
    """encode/decode through the real code on small fresh keys, including the retry loop of the blinding factor"""
    from ipv8.attestation.wallet.primitives import boneh
    rng = ctx.rng
    for _ in range(n_keys):
        ks = rng.choice([8, 8, 10, 12, 16, 24, 32])
        sk = small_keypair(ctx, ks)
        pk = sk.public_key()
        p = sk.p
        t2 = sk.n // sk.t1
        for _ in range(per_key):
            kind = rng.choice(["small", "small", "byte", "mod-t2", "big", "retry"])
            m = {"small": rng.randrange(3), "byte": rng.randrange(256), "mod-t2": rng.randrange(3) + t2 * rng.randrange(1, 4),
                 "big": rng.randrange(p + 2), "retry": rng.randrange(3)}[kind]
            rec = Recorder(rng)
            if kind == "retry":   # first draws are multiples of the order of h: h^r = 1, the code must draw again
                nretry = 1 + ctx.counts.get("encode:retry", 0) % 3          # 1, 2, 3 redraws in turn
                rec.script = [sk.t1 * rng.randrange(1, 50) for _ in range(nretry)] + [rng.randrange(4, p)]
            with Patched((boneh, "randint", rec.randint)):
                c = boneh.encode(pk, m)
            ctx.count(f"encode:{kind}")
            ctx.count("encode:draws:%d" % min(len(rec.draws), 3))
            batch.add(f"enc {key_ints(pk)} {m} {nat_list(rec.draws)}", "0 " + " ".join(map(str, tup(c))), tag="encode")
            space_kind = rng.choice(["012", "byte", "shuffled", "without"])
            space = {"012": [0, 1, 2], "byte": list(range(256)), "shuffled": rng.sample(range(8), 8),
                     "without": [x for x in range(6) if x != m % t2]}[space_kind]
            d = boneh.decode(sk, space, c)
            ctx.count(f"decode:{space_kind}:{'hit' if d is not None else 'none'}")
            # oracle: the first message of the space congruent to m modulo the order t2 of g^t1
            want = next((x for x in space if (x - m) % t2 == 0), None)
            if d != want:
                ctx.oracle_fail("decode:plaintext", f"encode({m}) decodes to {d} in {space[:8]}… (key size {ks}), "
                                                    f"expected {want}",
                                {"kind": "encdec", "sk": sk.serialize().hex(), "m": m, "space": space, "got": d})
            if e_powf(e_mul(fval(c), e_inv(e_powf(fval(sk.g), m, p), p), p), sk.t1, p) != (1, 0):
                ctx.oracle_fail("encode:blinding", f"encode({m}) is not g^m times an element of the subgroup of h",
                                {"kind": "encdec", "sk": sk.serialize().hex(), "m": m})
            cc = c.wp_compress() if not is_compressed(c) else c
            batch.add(f"decode {p} {sk.g.a} {sk.g.b} {sk.t1} {nat_list(space)} {cc.a} {cc.b}",
                      "none" if d is None else str(d), tag="decode")
            ctx.case(("encdec", sk.p, m, tuple(space[:4]), tuple(rec.draws)), True)


def scoring_cases(ctx: Ctx, batch: Batch, n: int):
    """binary_relativity / match / certainty on structured synthetic inputs (function level)"""
    from ipv8.attestation.wallet.bonehexact import attestation as battest
    rng = ctx.rng
    for _ in range(n):
        kind = rng.choice(["relmap", "score-sub", "score-equal", "score-over", "score-random", "score-neighbour"])
        ctx.count(f"scoring:{kind}")
        if kind == "relmap":
            bitspace = rng.choice([2, 4, 6, 8, 16, 32, 32, 64, 256, 512, 7, 9, 33])
            vk = rng.choice(["random", "short", "zero", "ones", "alternating"])
            value = {"random": rng.getrandbits(bitspace), "short": rng.getrandbits(max(1, bitspace // 3)), "zero": 0,
                     "ones": 2 ** bitspace - 1, "alternating": int("10" * (bitspace // 2) or "0", 2)}[vk]
            got = battest.binary_relativity(value, bitspace)
            bits = [int(c) for c in format(value, "b").zfill(bitspace)]
            want = profile_of_bits(bits[:bitspace] if len(bits) >= bitspace else bits)
            g4 = [got.get(k, 0) for k in range(4)]
            if g4 != want or sum(g4) != bitspace // 2:
                ctx.oracle_fail("binary_relativity:histogram", f"binary_relativity({value}, {bitspace}) = {got}, "
                                                               f"expected {want}",
                                {"kind": "relmap", "value": value, "bitspace": bitspace})
            batch.add(f"relmap {value} {bitspace}", " ".join(map(str, g4)), tag="binary_relativity")
            ctx.case(("relmap", value, bitspace), True)
            continue
        tot = rng.choice([1, 2, 3, 4, 8, 16, 16, 128, 256])
        cuts = sorted(rng.randrange(tot + 1) for _ in range(2))
        e = [cuts[0], cuts[1] - cuts[0], tot - cuts[1], 0]
        if kind == "score-equal":
            v = list(e)
        elif kind == "score-sub":
            v = [rng.randrange(x + 1) for x in e]
        elif kind == "score-over":
            v = [rng.randrange(x + 1) for x in e]
            v[rng.randrange(3)] = e[rng.randrange(3)] + rng.randrange(1, 3)
        elif kind == "score-neighbour":     # one pair moved to the neighbouring class: same total, different profile
            v = list(e)
            i = rng.choice([k for k in range(3) if v[k]])
            j = rng.choice([k for k in range(3) if k != i])
            v[i] -= 1
            v[j] += 1
        else:
            v = [rng.randrange(tot + 1) for _ in range(3)] + [rng.choice([0, 0, 1])]
        ed = dict(enumerate(e))
        vd = dict(enumerate(v))
        m = battest.binary_relativity_match(dict(ed), dict(vd))
        c = battest.binary_relativity_certainty(dict(ed), dict(vd))
        wm, wc = spec_match(e, v), spec_certainty(e, v)
        ctx.count("scoring:result:" + ("zero" if wc == 0 else "full" if v == e else "positive"))
        if wm != 0 and any((not e[k]) or (not v[k]) for k in range(4)):
            ctx.count("branch:match:class-skipped")
        if wm == 0:
            ctx.count("branch:match:observed-exceeds-expected")
        if wm != 0 and any(e[k] and v[k] for k in range(4)):
            ctx.count("branch:match:ratio-multiplied")
        if not close(m, wm) or not close(c, wc):
            ctx.oracle_fail("binary_relativity_certainty:formula", f"expected map {e}, observed {v}: match {m!r} "
                                                                    f"certainty {c!r}, specified {float(wm)!r} / {float(wc)!r}",
                            {"kind": "score", "expected": e, "observed": v})
        if sum(v) == sum(e) and v != e and v[3] == 0 and c != 0.0:
            ctx.oracle_fail("binary_relativity_certainty:other-profile", f"profile {e} scores {c!r} on a complete "
                                                                          f"round with histogram {v}",
                            {"kind": "score", "expected": e, "observed": v})
        if v == e and not close(c, 1 - Fraction(1, 2 ** sum(v))):
            ctx.oracle_fail("binary_relativity_certainty:true-profile", f"own profile {e} scores {c!r}",
                            {"kind": "score", "expected": e, "observed": v})
        batch.add(f"score {' '.join(map(str, e))} {' '.join(map(str, v))}", (m, c),
                  cmp=lambda mo, mc: close(mc[0], parse_rat(mo.split()[0])) and close(mc[1], parse_rat(mo.split()[1])),
                  tag="match/certainty")
        ctx.case(("score", tuple(e), tuple(v)), True)


def bad_answer_cases(ctx: Ctx, n: int, forced=None):
    """answers that no honest prover sends (bytes above 3) must not poison later honest rounds: process_challenge_response
    holds a module-global lock while it updates the map"""
    from ipv8.attestation.wallet.bonehexact import attestation as battest
    rng = ctx.rng
    for _ in range(n):
        r = rng.choice([4, 5, 7, 255, rng.randrange(4, 256)]) if forced is None else forced
        m = battest.create_empty_relativity_map()
        outcome = "ignored"
        try:
            battest.process_challenge_response(m, r)
        except KeyError:
            outcome = "KeyError"
        ctx.count(f"bad-answer:{outcome}")
        if battest.multithread_update_lock.locked():
            battest.multithread_update_lock.release()
            ctx.oracle_fail("process_challenge_response:lock-held-after-bad-answer",
                            f"after the answer byte {r} the module-global update lock stays held: every later honest "
                            f"round in this process blocks forever in process_challenge_response",
                            {"kind": "bad-answer", "r": r})
        honest_r = rng.randrange(3)
        battest.process_challenge_response(m, honest_r)
        if [m.get(k, 0) for k in range(4)] != [int(k == honest_r) for k in range(4)] or set(m) != {0, 1, 2, 3}:
            ctx.oracle_fail("process_challenge_response:histogram", f"map {m} after the answers {r}, {honest_r}",
                            {"kind": "bad-answer", "r": r})
        ctx.case(("bad-answer", r, honest_r), True)


def ser_cases(ctx: Ctx, batch: Batch, n: int):
    """ipack / iunpack on integers of all sizes, with trailing data"""
    import struct as _struct
    from ipv8.attestation.wallet.primitives import structs
    rng = ctx.rng
    try:
        structs.iunpack(b"")
        empty = "accepted"
    except _struct.error:
        empty = "error"
    ctx.count(f"ipack:empty-input:{empty}")
    batch.add("iunpack -", empty, tag="iunpack of the empty string")
    for _ in range(n):
        kind = rng.choice(["tiny", "byte-edge", "word", "big", "huge", "pow256"])
        x = {"tiny": rng.randrange(3), "byte-edge": rng.choice([127, 128, 255, 256, 257, 65535, 65536]),
             "word": rng.getrandbits(64), "big": rng.getrandbits(rng.randrange(65, 600)),
             "huge": rng.getrandbits(rng.choice([2040, 2048, 2056, 4096])), "pow256": 256 ** rng.randrange(0, 300)}[kind]
        rest = bytes(rng.randrange(256) for _ in range(rng.choice([0, 0, 1, 5, 40])))
        packed = structs.ipack(x)
        got, grem = structs.iunpack(packed + rest)
        ctx.count(f"ipack:{kind}")
        ctx.count("ipack:len_of_len:%d" % packed[0])
        if got != x or grem != rest:
            ctx.oracle_fail("iunpack:roundtrip", f"iunpack(ipack({x}) + {len(rest)} bytes) = ({got}, {len(grem)} bytes)",
                            {"kind": "ipack", "x": x, "rest": rest.hex()})
        batch.add(f"ipack {x}", packed.hex(), tag="ipack")
        batch.add(f"iunpack {(packed + rest).hex()}", f"{got} {grem.hex() or '-'}", tag="iunpack")
        y = rng.getrandbits(rng.randrange(1, 200))
        a2, b2, r2 = structs.unpack_pair(structs.pack_pair(x, y) + rest)
        if (a2, b2, r2) != (x, y, rest):
            ctx.oracle_fail("unpack_pair:roundtrip", f"pack_pair({x},{y}) does not unpack",
                            {"kind": "ipack", "x": x, "y": y, "rest": rest.hex()})
        ctx.case(("ipack", x, rest), True)


# ---- range proofs ---------------------------------------------------------------------------------------------------
def el_hash(coords):
    return int.from_bytes(hashlib.sha256("".join(str(c) for c in coords).encode()).digest(), "big")


def el_ints(el):
    return f"{el.c} {el.D} {el.D1} {el.D2}"


def v6(v):
    return " ".join(map(str, tup(v)))


def pubdata_ints(pd):
    cm = pd.commitment
    return (" ".join(v6(x) for x in (cm.c, cm.c1, cm.c2, cm.ca, cm.ca1, cm.ca2, cm.ca3, cm.caa))
            + f" {el_ints(pd.el)} {v6(pd.sqr1.F)} {el_ints(pd.sqr1.el)} {v6(pd.sqr2.F)} {el_ints(pd.sqr2.el)}")


def add_rcheck(ctx, batch, pk, pd, a, b, s, t, x, y, u, v, impl: bool, tag):
    """model line for PengBaoPublicData.check; two driver passes: hash queries first, then the verdict"""
    if not ctx.model_ok:
        return
    head = f"rcheck {pk.p} {v6(pk.g)} {v6(pk.h)} {pubdata_ints(pd)} {a} {b} {s} {t} {x} {y} {u} {v}"
    d = ctx.driver()
    first = d.batch([head])[0].split()
    if len(first) != 13:
        ctx.disagree(f"{tag}: model cannot evaluate the check: {first[:3]}", {"line": head[:3000]})
        return
    q = [int(z) for z in first[1:]]
    table = []
    for i in range(0, 12, 4):
        table += q[i:i + 4] + [el_hash(q[i:i + 4])]
    batch.add(head + " " + " ".join(map(str, table)), "true" if impl else "false",
              cmp=lambda m, c: m.split()[0] == c, tag=tag)


def build_range_attestation(pk, value, a, b, bitspace, ms, rng):
    """a prover that follows create_attest_pair's algebra for a value OUTSIDE [a, b] but deviates in one chosen place
    (`ms["cheat"]`), so that exactly one conjunct of the verifier's check stands between it and acceptance; built from
    the verifier-side classes.  Splits: see range_round."""
    from ipv8.attestation.wallet.pengbaorange.boudot import EL, SQR
    from ipv8.attestation.wallet.pengbaorange.structs import (PengBaoAttestation, PengBaoCommitment,
                                                               PengBaoCommitmentPrivate, PengBaoPublicData)
    bytespace = bitspace // 8
    rnd = lambda nb: rng.getrandbits(8 * nb)  # noqa: E731
    cheat = ms.get("cheat")
    r, ra = rnd(bytespace), rnd(bytespace)
    raa = rnd(max(1, bitspace // 16)) ** 2
    w = ms["w"]
    w2 = w * w
    c = pk.g.intpow(value) * pk.h.intpow(r)
    c1 = c // pk.g.intpow(a - 1)
    c2 = pk.g.intpow(b + 1) // c
    e = b - value + 1
    if cheat == "free-ca":          # another exponent than b - value + 1, chosen so that the product becomes positive
        e = (1 if value - a + 1 > 0 else -1) * (rng.getrandbits(8) + 1)
    ca = c1.intpow(e) * pk.h.intpow(ra)
    mst = w2 * (value - a + 1) * e
    rst = w2 * (e * r + ra) + raa
    if cheat == "free-caa":         # caa committed to a positive number directly
        mst = rng.getrandbits(64) + 100
        rst = rnd(2 * bytespace) + 10
        caa = pk.g.intpow(mst) * pk.h.intpow(rst)
    else:
        caa = ca.intpow(w2) * pk.h.intpow(raa)
    if cheat in ("free-ca", "free-caa"):   # now an honest-looking split of a positive mst
        m4 = rng.randrange(1, max(2, math.isqrt(mst) - 1))
        m3 = m4 * m4
        m1 = rng.randrange(1, max(2, mst - m3))
        m2 = mst - m1 - m3
    elif cheat == "free-m3":        # m1, m2 large and positive, m3 = the (negative) rest: not a square
        m4 = 1
        m1 = abs(mst) + rng.getrandbits(32) + 1
        m2 = abs(mst) + rng.getrandbits(32) + 1
        m3 = mst - m1 - m2
    elif cheat == "free-ca3":       # positive m1, m2, m3 that do not add up to mst; ca3 committed directly
        m4 = rng.getrandbits(16) + 1
        m3 = m4 * m4
        m1, m2 = rng.getrandbits(32) + 1, rng.getrandbits(32) + 1
    elif cheat == "order-shift":    # the key owner knows the order n of g: m2 shifted by a multiple of n stays the
        m4 = rng.getrandbits(8) + 1     # same group element, all integers positive
        m3 = m4 * m4
        m1 = rng.getrandbits(16) + 1
        m2 = mst - m1 - m3 + ((-mst) // ms["n"] + 2 + rng.getrandbits(8)) * ms["n"]
    else:
        m4, m1 = ms["m4"], ms["m1"]
        m3 = m4 * m4
        m2 = mst - m1 - m3
    r1, r2 = rnd(bytespace * 2) + 1, rnd(bytespace * 2) + 1
    r3 = rst - r1 - r2
    ca1 = pk.g.intpow(m1) * pk.h.intpow(r1)
    ca2 = pk.g.intpow(m2) * pk.h.intpow(r2)
    if cheat == "free-ca3":
        ca3 = pk.g.intpow(m3) * pk.h.intpow(r3)
    else:
        ca3 = caa // (ca1 * ca2)
    el = EL.create(e, -r, ra, pk.g, pk.h, c1, pk.h, b, bitspace)
    sqr1 = SQR.create(w, raa, ca, pk.h, b, bitspace)
    sqr2 = SQR.create(m4, r3, pk.g, pk.h, b, bitspace)
    pd = PengBaoPublicData(pk, bitspace, PengBaoCommitment(c, c1, c2, ca, ca1, ca2, ca3, caa), el, sqr1, sqr2)
    return PengBaoAttestation(pd, PengBaoCommitmentPrivate(m1, m2, m3, r1, r2, r3)), mst


def range_round(ctx: Ctx, batch: Batch, sk=None, scenario=None, seed=None, force=None):
    """one range-proof round; the verifier's os.urandom (challenges) is replaced by the round's PRNG, optionally
    preceded by scripted small draws"""
    from ipv8.attestation.wallet.pengbaorange import algorithm as ralg
    seed = ctx.rng.getrandbits(64) if seed is None else seed
    rng = _random.Random(seed)
    script = []

    def ur(n):
        if script:
            return script.pop(0).to_bytes(n, "big")
        return bytes(rng.randrange(256) for _ in range(n))

    with Patched((ralg, "urandom", ur)):
        _range_round(ctx, batch, sk, scenario, seed, rng, force or {}, script)


def _range_round(ctx: Ctx, batch: Batch, sk, scenario, seed, rng, force, script):  # noqa: C901, PLR0912, PLR0913, PLR0915
    from ipv8.attestation.wallet.pengbaorange import algorithm as ralg
    from ipv8.attestation.wallet.pengbaorange import attestation as rattest
    from ipv8.attestation.wallet.pengbaorange import boudot
    from ipv8.attestation.wallet.pengbaorange.structs import PengBaoAttestation
    from ipv8.attestation.wallet.primitives.structs import pack_pair, unpack_pair
    scenario = scenario or rng.choice(["inside", "inside", "inside-edge", "outside-honest", "outside-by-one",
                                       "outside-cheater", "wrong-range", "tampered"])
    a = rng.choice([0, 1, 18, rng.randrange(2, 1000), rng.randrange(1000, 60000)])
    width = rng.choice([0, 1, 2, rng.randrange(3, 200), rng.randrange(200, 5000)])
    if scenario == "wrong-range":
        width = max(width, 2)
    b = max(a + width, 1)     # max = 0 is not a usable format: EL.create's randomness range `2 ^ (l + t) * b - 1` is negative
    if scenario == "inside-min-nonpos":    # formats whose LOWER bound is not positive (min = 0 is the natural "at most b")
        a = [0, -2, 0, -7][ctx.counts.get("range:inside-min-nonpos", 0) % 4]
        b = max(a + width, 1)
    if scenario == "inside-max0":          # formats whose upper bound is not positive
        a, b = rng.choice([0, 0, -3]), 0
    bitspace = 32
    if scenario == "inside-bigspace":      # every key size the API accepts (32..512) is also the bit space of the proof
        bitspace = force.get("bitspace") or [512, 64, 256, 128, 504][ctx.counts.get("range:inside-bigspace", 0) % 5]
    formats = {"r": {"algorithm": "pengbaorange", "key_size": bitspace, "min": a, "max": b}}
    alg = ralg.PengBaoRangeAlgorithm("r", formats)
    if sk is None:
        sk = alg.generate_secret_key()
    pk = sk.public_key()
    if not check_key_hypotheses(ctx, sk, "range round"):
        return
    ctx.count(f"range:{scenario}")
    ctx.count("range:width:%s" % ("0" if width == 0 else "1-2" if width <= 2 else "3-199" if width < 200 else "200+"))
    ctx.count(f"range:bitspace:{bitspace}")
    rp = {"kind": "range", "scenario": scenario, "a": a, "b": b, "bitspace": bitspace, "sk": sk.serialize().hex(),
          "seed": seed}

    def to_bytes(v):
        return v.to_bytes(max(1, (v.bit_length() + 7) // 8), "big")

    def honest(value):
        """alg.attest with recorded randomness and a divergence guard; returns (blob | None, recorder data)"""
        draws, calls = [], [0]
        orig_rn = rattest._random_number

        def rn(nbytes):
            calls[0] += 1
            if calls[0] > 3000:
                raise _Diverged
            v = rng.getrandbits(8 * nbytes)
            draws.append(v)
            return v

        sdraws = []

        def srand(nmin, nmax):
            v = nmin + rng.randrange(nmax - nmin)
            sdraws.append(v)
            return v

        rec_b = Recorder(rng)
        from ipv8.attestation.wallet.primitives import boneh
        captured = {}
        orig_cap = rattest.create_attest_pair

        def cap(*args, **kw):
            att = orig_cap(*args, **kw)
            captured["att"] = att
            return att

        try:
            with Patched((rattest, "_random_number", rn),
                         (boudot, "secure_randint", boudot.secure_randint if b <= 0 else srand),
                         (boneh, "randint", rec_b.randint), (ralg, "create_attest_pair", cap)):
                blob = alg.attest(pk, to_bytes(value))
            return blob, draws, sdraws, captured.get("att"), None
        except _Diverged:
            return None, draws, sdraws, None, "diverged"
        except Exception as e:  # noqa: BLE001 - whatever the attester raises, no attestation came out
            a0 = captured.get("att")
            if a0 is not None and a0.privatedata.m2 < 0:
                # the random split came out with m2 < 0 (documented randomness-side precondition, p ~ 2^-15):
                # the private data cannot be packed
                return None, draws, sdraws, a0, "m2-negative"
            if a0 is not None:      # the proof exists in memory, its private part cannot be put on the wire
                return None, draws, sdraws, a0, "not-encodable:" + type(e).__name__
            return None, draws, sdraws, None, type(e).__name__
        finally:
            del orig_rn

    def challenge_st(small_first=False):
        if small_first:     # the verifier's first draws fall below the prover's threshold: it has to draw again
            script.extend(rng.randrange(ralg.LARGE_INTEGER) for _ in range(rng.randrange(1, 4)))
            ctx.count("range:challenge:small-draws-first")
        ch = alg.create_challenges(pk, None)[0]
        del script[:]
        s, t, _ = unpack_pair(ch)
        if s < ralg.LARGE_INTEGER or t < ralg.LARGE_INTEGER:
            ctx.oracle_fail("create_challenges:below-prover-threshold",
                            f"the verifier's challenge (s, t) = ({s}, {t}) is below the threshold {ralg.LARGE_INTEGER} "
                            f"under which an honest prover answers with garbage: an honest proof would be rejected", rp)
        return ch, s, t

    def verdict(att, ch, resp, alg_v=alg):
        agg = alg_v.create_certainty_aggregate(att)
        agg = alg_v.process_challenge_response(agg, ch, resp)
        return alg_v.certainty(b"\x01", agg), alg_v.certainty(b"\x00", agg)

    if scenario in ("inside", "inside-edge", "inside-bigspace", "inside-max0", "inside-min-nonpos", "wrong-range",
                    "tampered"):
        value = rng.choice([a, b]) if scenario == "inside-edge" else rng.randrange(a, b + 1)
        if scenario == "inside-max0":
            value = 0
        if scenario == "inside-min-nonpos":
            value = rng.choice([0, b, rng.randrange(0, b + 1)])     # the API encodes values as unsigned integers
        if scenario == "wrong-range":
            value = rng.randrange(a + 1, b)          # strictly inside, so that each bound can be moved on its own
        rp["value"] = value
        blob, draws, sdraws, att0, err = honest(value)
        if blob is None and err == "m2-negative":
            ctx.count("range:m2:negative")
            ctx.case(("range", scenario, a, b, value, sk.p, "m2<0"), True)
            return
        if blob is None and att0 is not None:
            nbytes = len(att0.privatedata.serialize())
            if nbytes > 255 and err == "not-encodable:error":        # exactly the predicted condition (struct.error)
                ctx.count("range:private-data-not-encodable")
                ctx.oracle_fail("PengBaoCommitmentPrivate.encode:private-data-exceeds-255-bytes",
                                f"attest() for {value} in [{a},{b}] at bit space {bitspace} raises ({err}): the private "
                                f"part is {nbytes} bytes, its length is packed into one byte", rp)
            else:
                ctx.oracle_fail("PengBaoAttestation.serialize_private:raises",
                                f"attest() for {value} in [{a},{b}] at bit space {bitspace} raises ({err}) although the "
                                f"proof exists and its private part is only {nbytes} bytes", rp)
            att = att0                                   # go on with the in-memory proof
            blob = att0.serialize()
        elif blob is None and b <= 0 and err == "ValueError":
            ctx.count("range:max-not-positive")
            ctx.oracle_fail("EL.create:max-not-positive",
                            f"no attestation for {value} in [{a},{b}]: EL.create's randomness range "
                            f"`2 ^ (l + t) * b - 1` (XOR) is negative for max <= 0 ({err})", rp)
            if ctx.model_ok:
                fake = [rng.getrandbits(32) + 3 for _ in range(19)]
                batch.add(f"rcreate {pk.p} {v6(pk.g)} {v6(pk.h)} {value} {a} {b} " + " ".join(map(str, fake)), "none",
                          tag="create_attest_pair for max <= 0")
            ctx.case(("range", scenario, a, b, value, sk.p), True)
            return
        elif blob is None:
            ctx.oracle_fail("create_attest_pair:inside-range", f"no attestation for {value} in [{a},{b}] at bit space "
                                                               f"{bitspace}: the attester raises {err}", rp)
            return
        else:
            att = alg.get_attestation_class().unserialize_private(sk, blob, "r")
        pub = PengBaoAttestation.unserialize(blob, "r")
        if pub.serialize() != att.serialize() or att.serialize() != blob[:len(att.serialize())]:
            ctx.oracle_fail("PengBaoAttestation.unserialize:roundtrip", "public data does not survive serialisation", rp)
        pv0, pv1 = att0.privatedata, att.privatedata
        if [getattr(pv0, k) for k in ("m1", "m2", "m3", "r1", "r2", "r3")] != \
                [getattr(pv1, k) for k in ("m1", "m2", "m3", "r1", "r2", "r3")]:
            ctx.oracle_fail("PengBaoCommitmentPrivate.decode:roundtrip", "private data does not survive encoding", rp)
        ctx.count("range:m2:" + ("negative" if pv0.m2 < 0 else "nonneg"))
        ch, s, t = challenge_st()
        resp = alg.create_challenge_response(sk, att, ch)
        x, y, rem = unpack_pair(resp)
        u, v, _ = unpack_pair(rem)
        if scenario in ("inside", "inside-edge", "inside-bigspace", "inside-max0", "inside-min-nonpos"):
            yes, no = verdict(att, ch, resp)
            if a <= 0 and b >= 1 and (yes, no) == (1.0, 0.0):
                ctx.count("range:min-nonpositive:honest-proof-accepted")
            if pv0.m2 < 0:
                ctx.count("range:inside:m2-negative-skipped")   # documented randomness-side precondition
            elif (yes, no) != (1.0, 0.0):
                ctx.oracle_fail("PengBaoPublicData.check:inside-rejected", f"honest proof for {value} in [{a},{b}] "
                                                                           f"scores {yes}", rp)
            add_rcheck(ctx, batch, pk, att.publicdata, a, b, s, t, x, y, u, v, yes == 1.0, "range check (honest)")
            if pv0.m2 >= 0:
                # challenges on the boundary of what the verifier's generator can produce (the smallest s, t the
                # verifier draws must be the smallest the prover answers honestly)
                L = ralg.LARGE_INTEGER
                bkinds = ["s=min", "t=min-1", "both=min", "s=min-1", "t=min", "s=min+1", "t=min+1"]
                bkind = force.get("bkind") or bkinds[ctx.counts.get("range:boundary-challenge", 0) % len(bkinds)]
                ctx.count("range:boundary-challenge")
                big, big2 = rng.getrandbits(30) + 2 * L, rng.getrandbits(30) + 2 * L
                script.extend({"s=min": [L, big], "t=min": [big, L], "both=min": [L, L], "s=min+1": [L + 1, big],
                               "t=min+1": [big, L + 1], "s=min-1": [L - 1, big, big2],
                               "t=min-1": [big, L - 1, big2]}[bkind])
                chb = alg.create_challenges(pk, None)[0]
                del script[:]
                sb, tb, _ = unpack_pair(chb)
                brp = dict(rp, bkind=bkind, s=sb, t=tb)
                ctx.count(f"range:boundary-challenge:{bkind}:{'kept' if min(sb, tb) <= L + 1 else 'redrawn'}")
                yesb, _ = verdict(att, chb, alg.create_challenge_response(sk, att, chb))
                if yesb != 1.0:
                    ctx.oracle_fail("create_challenge_response:boundary-challenge",
                                    f"the verifier's generator was fed draws around its threshold ({bkind}) and came out "
                                    f"with the challenge (s, t) = ({sb}, {tb}); the honest prover's answer for {value} "
                                    f"in [{a},{b}] is rejected", brp)
                # the two threshold tests, observed through the code: which single draws does _safe_rndint keep, which
                # challenges does the prover answer honestly
                for d in (L - 1, L, L + 1):
                    script.extend([d, big])
                    kept = ralg._safe_rndint(32, pk.g.mod - 1) == d  # noqa: SLF001
                    del script[:]
                    batch.add(f"guard {L} {d} {big}", str(kept).lower(), cmp=lambda m, c: m.split()[0] == c,
                              tag="verifier keeps the draw")
                batch.add(f"guard {L} {sb} {tb}", "true" if yesb == 1.0 else "false",
                          cmp=lambda m, c: m.split()[2] == c, tag="prover answers the drawn challenge honestly")
                below = pack_pair(L - 1, big) if bkind.startswith("s") else pack_pair(big, L - 1)
                yesl, _ = verdict(att, below, alg.create_challenge_response(sk, att, below))
                sl, tl, _ = unpack_pair(below)
                batch.add(f"guard {L} {sl} {tl}", "true" if yesl == 1.0 else "false",
                          cmp=lambda m, c: m.split()[2] == c, tag="prover refuses a challenge below the threshold")
                # aggregates with several answers: one failed check spoils the verdict, no answer is no evidence
                ch_b, s_b, t_b = challenge_st(small_first=True)
                xb, yb, remb = unpack_pair(alg.create_challenge_response(sk, att, ch_b))
                ub, vb, _ = unpack_pair(remb)
                bad = pack_pair(xb + 1, yb) + pack_pair(ub, vb)
                for order_name, seq in (("good-then-bad", [(ch, resp), (ch_b, bad)]), ("bad-then-good", [(ch_b, bad), (ch, resp)])):
                    agg = alg.create_certainty_aggregate(att)
                    for c_, r_ in seq:
                        agg = alg.process_challenge_response(agg, c_, r_)
                    ctx.count(f"range:aggregate:{order_name}")
                    if alg.certainty(b"\x01", agg) != 0.0 or alg.certainty(b"\x00", agg) != 1.0:
                        ctx.oracle_fail("PengBaoRangeAlgorithm.certainty:failed-check-ignored",
                                        f"aggregate with one passed and one failed check ({order_name}) scores "
                                        f"{alg.certainty(bytes([1]), agg)} for 'in range'", rp)
                empty = alg.create_certainty_aggregate(att)
                ctx.count("range:aggregate:empty")
                if alg.certainty(b"\x01", empty) != 0.0:
                    ctx.oracle_fail("PengBaoRangeAlgorithm.certainty:no-evidence-accepted",
                                    "an aggregate without any checked answer scores 'in range'", rp)
                # the same attestation object again: a second challenge, another range, the own range once more
                for step, (a2, b2) in enumerate([(a, b), (a + 1 + width, b + 1 + width), (a, b)]):
                    alg2 = ralg.PengBaoRangeAlgorithm("r", {"r": {"algorithm": "pengbaorange", "key_size": 32,
                                                                  "min": a2, "max": b2}})
                    chn, _, _ = challenge_st()
                    yes2, _ = verdict(att, chn, alg.create_challenge_response(sk, att, chn), alg2)
                    ctx.count(f"range:history:inside-object:step{step}")
                    if (yes2 == 1.0) != ((a2, b2) == (a, b)):
                        ctx.oracle_fail("PengBaoPublicData.check:" + ("inside-rejected" if (a2, b2) == (a, b)
                                                                      else "outside-accepted"),
                                        f"check number {step + 2} on one attestation object for {value} in [{a},{b}] "
                                        f"against [{a2},{b2}] gives {yes2}", dict(rp, a2=a2, b2=b2, position=step + 1))
            # the in-memory attestation (general denominators) and the model's construction from the same randomness
            ok_mem = att0.publicdata.check(a, b, s, t, x, y, u, v)
            if pv0.m2 >= 0 and not ok_mem:
                ctx.oracle_fail("PengBaoPublicData.check:inside-rejected", "in-memory honest proof rejected", rp)
            add_rcreate(ctx, batch, pk, value, a, b, draws, sdraws, att0)
        elif scenario == "wrong-range":
            # the same proof presented for a range that does not contain the value
            # the verifier's range is chosen independently of the range the proof was built for
            cands = [("same-a", a, value - 1), ("same-b", value + 1, b),
                     ("above", value + 1 + rng.randrange(3), value + 1 + width + rng.randrange(3, 50)),
                     ("below", value - 1 - rng.randrange(3) - width - rng.randrange(50), value - 1 - rng.randrange(3)),
                     ("narrow", value + 1, value + 1), ("superset", a - 1, b + 1), ("subset", a + 1, b - 1),
                     ("wider-right", a, b + 1 + rng.randrange(5)), ("wider-left", a - 1 - rng.randrange(5), b)]
            offs = {1, -1, 2, -2, 3, -3, width, -width, width + 1, -(width + 1), width + 2, 2 * width + 3,
                    rng.randrange(4, 100), -rng.randrange(4, 100)} - {0}
            if len(offs) > 5:
                offs = set(rng.sample(sorted(offs), 4)) | {rng.choice([width + 1, -(width + 1)])}
            cands += [(f"same-width{k:+d}", a + k, b + k) for k in sorted(offs)]
            cands = [c for c in cands if not (c[1] < 0 or c[2] < 1 or c[1] > c[2] or (c[1], c[2]) == (a, b))]
            own = ("own", a, b)
            # Histories of checks on ONE received attestation object: the verdict of a check must depend on its
            # arguments only, not on what was checked on that object before.
            histories = [
                ("own-first", PengBaoAttestation.unserialize(att.serialize(), "r"), [own, *cands, own]),
                ("others-first", PengBaoAttestation.unserialize(att.serialize(), "r"),
                 [*rng.sample(cands, min(3, len(cands))), own, *rng.sample(cands, min(2, len(cands)))]),
                ("prover-object", att, [own, *rng.sample(cands, min(2, len(cands))), own]),
            ] + [("fresh-object", PengBaoAttestation.unserialize(att.serialize(), "r"), [c])
                 for c in rng.sample(cands, min(2, len(cands)))]
            for hname, obj, seq in histories:
                for pos, (shift, a2, b2) in enumerate(seq):
                    alg2 = ralg.PengBaoRangeAlgorithm("r", {"r": {"algorithm": "pengbaorange", "key_size": 32,
                                                                  "min": a2, "max": b2}})
                    ch2, s_, t_ = (ch, s, t) if rng.random() < 0.5 else challenge_st()
                    resp2 = resp if ch2 is ch else alg.create_challenge_response(sk, att, ch2)
                    yes, no = verdict(obj, ch2, resp2, alg2)
                    inside2 = a2 <= value <= b2
                    kind = "same-width" if shift.startswith("same-width") else shift
                    ctx.count(f"range:other-range:{kind}:{'value-inside' if inside2 else 'value-outside'}")
                    ctx.count(f"range:history:{hname}:{'first' if pos == 0 else 'later'}:{'own' if shift == 'own' else 'other'}")
                    hrp = dict(rp, a2=a2, b2=b2, history=hname, position=pos,
                               checked_before=[[q[1], q[2]] for q in seq[:pos]])
                    if shift == "own":
                        if yes != 1.0 and pv0.m2 >= 0:
                            ctx.oracle_fail("PengBaoPublicData.check:inside-rejected",
                                            f"honest proof for {value} in [{a},{b}] rejected (history {hname}: "
                                            f"{pos} checks with other ranges ran on the same object before)", hrp)
                    elif yes != 0.0 and not inside2:
                        ctx.oracle_fail("PengBaoPublicData.check:outside-accepted",
                                        f"proof for {value} built for [{a},{b}] accepted by a verifier whose range is "
                                        f"[{a2},{b2}] (history {hname}, {pos} earlier checks on the same object)", hrp)
                    elif yes != 0.0:
                        # the value IS inside the verifier's range: no clause of the property is violated; the model
                        # (accepted_binds_verifier_range) says it cannot happen, so it is left to the correspondence
                        ctx.count("range:other-range-accepted-with-value-inside")
                    if (hname == "own-first" and (shift in ("same-a", "same-b", "own") or rng.random() < 0.3)) \
                            or (yes != 0.0 and shift != "own"):
                        x2, y2, rem2 = unpack_pair(resp2)
                        u2, v2, _ = unpack_pair(rem2)
                        add_rcheck(ctx, batch, pk, att.publicdata, a2, b2, s_, t_, x2, y2, u2, v2, yes == 1.0,
                                   "range check (history of checks on one object)")
        else:  # tampered responses: the model predicts the verdict
            how = rng.choice(["x+1", "y-1", "u+1", "swap-xy", "neg", "other-st"])
            ctx.count(f"range:tampered:{how}")
            s2, t2 = s, t
            if how == "x+1":
                x += 1
            elif how == "y-1":
                y -= 1
            elif how == "u+1":
                u += 1
            elif how == "swap-xy":
                x, y = y, x
            elif how == "neg":
                x, u = -x, -u
            else:
                s2 += 1
            if how == "neg":
                got = att.publicdata.check(a, b, s2, t2, x, y, u, v)
            else:
                agg = alg.create_certainty_aggregate(att)
                agg = alg.process_challenge_response(agg, pack_pair(s2, t2), pack_pair(x, y) + pack_pair(u, v))
                got = alg.certainty(b"\x01", agg) == 1.0
            if got:
                ctx.oracle_fail("PengBaoPublicData.check:tampered-accepted", f"response altered by {how} accepted", rp)
            add_rcheck(ctx, batch, pk, att.publicdata, a, b, s2, t2, x, y, u, v, got, f"range check (tampered {how})")
        ctx.case(("range", scenario, a, b, value, sk.p), True)
        return
    if scenario in ("outside-honest", "outside-by-one"):
        if scenario == "outside-by-one":
            value = rng.choice([b + 1] + ([a - 1] if a >= 1 else []))
        else:
            value = rng.choice([b + 2 + rng.randrange(1000)] + ([rng.randrange(0, a - 1)] if a >= 2 else []))
        rp["value"] = value
        blob, draws, sdraws, att0, err = honest(value)
        ctx.count(f"range:outside:{err or 'PRODUCED'}")
        if blob is not None:
            # something came out: it must not be accepted
            att = alg.get_attestation_class().unserialize_private(sk, blob, "r")
            ch, s, t = challenge_st()
            resp = alg.create_challenge_response(sk, att, ch)
            yes, no = verdict(att, ch, resp)
            if yes != 0.0:
                ctx.oracle_fail("PengBaoPublicData.check:outside-accepted", f"honest construction for {value} outside "
                                                                            f"[{a},{b}] accepted", rp)
        if ctx.model_ok:
            # the model says: no attestation
            fake = [rng.getrandbits(32) for _ in range(19)]
            line = (f"rcreate {pk.p} {v6(pk.g)} {v6(pk.h)} {value} {a} {b} " + " ".join(map(str, fake)))
            batch.add(line, "none" if blob is None else "some", cmp=lambda m, c: (m == "none") == (c == "none"),
                      tag="create_attest_pair outside the range")
        ctx.case(("range", scenario, a, b, value, sk.p), True)
        return
    # outside-cheater: follows the algebra with a free split of mst <= 0
    value = rng.choice([b + 1 + rng.randrange(50)] + ([a - 1 - rng.randrange(min(a, 50))] if a >= 1 else []))
    rp["value"] = value
    w = rng.getrandbits(32) + 3
    mstv = w * w * (value - a + 1) * (b - value + 1)
    splits = ["order-shift", "only-y-fails", "only-x-fails", "free-ca3", "free-caa", "free-ca", "free-m3", "both-fail",
              "m4-zero"]
    split = force.get("split") or splits[ctx.counts.get("range:outside-cheater", 1) % len(splits) - 1]
    cheat = split if split.startswith("free-") or split == "order-shift" else None
    m4 = 0 if split == "m4-zero" else rng.getrandbits(rng.choice([4, 16, 32])) + 1
    big = abs(mstv) + rng.getrandbits(32) + 1
    if split == "only-y-fails":        # m1 large and positive: x = mst + (s-1)*m1 > 0, m2 < 0: y = mst + (t-1)*m2 < 0
        m1 = big
    elif split == "only-x-fails":      # m2 large and positive, m1 negative
        m1 = mstv - m4 * m4 - big
    elif split == "both-fail":
        m1 = -(rng.getrandbits(16) + 1)
        if mstv - m1 - m4 * m4 >= 0:
            m1 = -1
    else:
        m1 = rng.choice([big, rng.getrandbits(32)])
    att, mstv2 = build_range_attestation(pk, value, a, b, 32, {"w": w, "m4": m4, "m1": m1, "cheat": cheat, "n": sk.n}, rng)
    ctx.count(f"range:cheater:{split}")
    rp.update(split=split, w=w, m4=m4, m1=m1)
    ch, s, t = challenge_st()
    # negative answers cannot be packed for the wire (ipack); the verifier's check is called directly
    x, y, u, v = att.privatedata.generate_response(s, t)
    got = att.publicdata.check(a, b, s, t, x, y, u, v)
    ctx.count("range:cheater:answers:" + ("x<=0" if x <= 0 else "") + ("y<=0" if y <= 0 else "")
              + ("positive" if x > 0 and y > 0 else ""))
    if got and split == "order-shift":
        ctx.oracle_fail("PengBaoPublicData.check:outside-accepted:prover-knows-group-order",
                        f"proof built for {value} outside [{a},{b}] by the key owner (m2 shifted by a multiple of the "
                        f"order n of g, all answers positive) accepted", rp)
    elif got:
        ctx.oracle_fail("PengBaoPublicData.check:outside-accepted", f"proof built for {value} outside [{a},{b}] "
                                                                    f"(split {split}) accepted", rp)
    add_rcheck(ctx, batch, pk, att.publicdata, a, b, s, t, x, y, u, v, got, "range check (cheater)")
    ctx.case(("range", scenario, a, b, value, sk.p, split), True)


def add_rcreate(ctx, batch, pk, value, a, b, draws, sdraws, att0):
    """the model's create_attest_pair on the randomness the code used; compares every commitment and proof value"""
    if not ctx.model_ok or len(sdraws) != 11 or len(draws) < 8:
        ctx.count("range:rcreate:skipped")
        return
    pv = att0.privatedata
    m4 = math.isqrt(pv.m3)
    r, ra, raa0, w = draws[0], draws[1], draws[2], draws[3]
    rnd = [r, ra, raa0, w, m4, pv.m1, pv.r1, pv.r2] + sdraws[0:3] + [sdraws[3]] + sdraws[4:7] + [sdraws[7]] + sdraws[8:11]
    head = f"rcreate {pk.p} {v6(pk.g)} {v6(pk.h)} {value} {a} {b} " + " ".join(map(str, rnd))
    d = ctx.driver()
    first = d.batch([head])[0].split()
    if len(first) < 12:
        ctx.disagree(f"model creates no range attestation where the code did: {first[:2]}", {"line": head[:3000]})
        return
    q = [int(z) for z in first[-12:]]
    table = []
    for i in range(0, 12, 4):
        table += q[i:i + 4] + [el_hash(q[i:i + 4])]
    impl = (f"{pubdata_ints(att0.publicdata)} {pv.m1} {pv.m2} {pv.m3} {pv.r1} {pv.r2} {pv.r3}")
    batch.add(head + " " + " ".join(map(str, table)), impl,
              cmp=lambda m, c: " ".join(m.split()[:-12]) == c, tag="create_attest_pair")


# ---- the protocol driver: AttestationCommunity nodes on a network that duplicates, re-orders, delays and loses ---------
NET_MODES = ["clean", "dup-responses", "dup-challenges", "reorder", "late-replay", "lossy-timeouts", "mixed",
             "liar", "bad-byte"]


class _OsShim:
    """stands in for the `os` module inside wallet/community.py: urandom comes from the run's PRNG and is recorded"""

    def __init__(self, rng, real_os, bias=0.0):
        self._rng, self._os, self.calls, self._bias = rng, real_os, [], bias

    def urandom(self, n):
        b = bytes(self._rng.randrange(256) for _ in range(n))
        if self._bias and self._rng.random() < self._bias:
            b = bytes(n)                    # more honesty checks than the shipped 38/256
        self.calls.append(b)
        return b

    def __getattr__(self, name):
        return getattr(self._os, name)


def community_round(ctx: Ctx, batch: Batch, mode: str, id_format: str = "id_metadata", seed=None, sk_hex=None,
                    value=None):
    """one verification between two AttestationCommunity nodes; every choice of the network schedule, the value and the
    verifier's honesty coin come from Random(seed) (recorded in the replay with the prover's key)"""
    import asyncio
    import logging
    seed = ctx.rng.getrandbits(64) if seed is None else seed
    logging.disable(logging.CRITICAL)       # the handlers log the exceptions bad answers provoke
    try:
        asyncio.run(_community_round(ctx, batch, mode, id_format, seed, sk_hex, value))
    except _Diverged:
        ctx.count("community:step-limit")
    finally:
        logging.disable(logging.NOTSET)


async def _community_round(ctx: Ctx, batch: Batch, mode: str, id_format: str, seed, sk_hex, value_in):  # noqa: C901, PLR0912, PLR0913, PLR0915
    import asyncio
    import os as real_os
    from ipv8.attestation.wallet import community as wcom
    from ipv8.attestation.wallet.caches import HashCache
    from ipv8.attestation.wallet.community import AttestationCommunity, AttestationSettings
    from ipv8.attestation.wallet.bonehexact import attestation as battest
    from ipv8.attestation.wallet.payload import ChallengePayload, ChallengeResponsePayload
    from ipv8.messaging.payload_headers import BinMemberAuthenticationPayload, GlobalTimeDistributionPayload
    from ipv8.test.mocking.endpoint import internet
    from ipv8.test.mocking.ipv8 import MockIPv8
    rng = _random.Random(seed)
    nodes = [MockIPv8("curve25519", AttestationCommunity, settings=AttestationSettings(working_directory=":memory:"))
             for _ in range(2)]
    prover, verifier = nodes[0].overlay, nodes[1].overlay
    shim = _OsShim(rng, real_os, bias=0.5 if mode == "liar" else 0.0)
    choices = []

    def rec_choice(seq):
        v = seq[rng.randrange(len(seq))]
        choices.append(v)
        return v

    inflight = []          # [msg_id, src index, dst index, packet]
    delivered_responses = []
    addr = [n.endpoint.wan_address for n in nodes]

    def make_send(src):
        def send(address, packet, *a, **kw):
            dst = addr.index(address) if address in addr else None
            if dst is not None:
                inflight.append([packet[len(prover._prefix)], src, dst, packet])  # noqa: SLF001
        return send

    for i, n in enumerate(nodes):
        n.endpoint.send = make_send(i)

    async def settle():
        for _ in range(4):
            await asyncio.sleep(0)

    def deliver(item):
        nodes[item[2]].endpoint.notify_listeners((addr[item[1]], item[3]))

    value = value_of_class(rng, rng.choice(VALUE_CLASSES)) if value_in is None else value_in
    others = neighbour_values(rng, value)
    rp = {"kind": "community", "mode": mode, "value": value.hex(), "id_format": id_format, "seed": seed}
    results = []
    try:
        # the verifier's coin: community.py may reach os.urandom as `os.urandom` or through `from os import urandom`
        coin = [(wcom, "os", shim)] if hasattr(wcom, "os") else []
        coin += [(wcom, "urandom", shim.urandom)] if hasattr(wcom, "urandom") else []
        with Patched(*coin, (wcom, "choice", rec_choice)):
            algorithm = prover.get_id_algorithm(id_format)
            sk = algorithm.generate_secret_key() if sk_hex is None else algorithm.load_secret_key(bytes.fromhex(sk_hex))
            rp["sk"] = sk.serialize().hex()
            if not check_key_hypotheses(ctx, sk, "community round"):
                return
            blob = algorithm.attest(sk.public_key(), value)
            att = algorithm.get_attestation_class().unserialize(blob, id_format)
            ahash = hashlib.sha1(blob).digest()
            prover.database.insert_attestation(att, ahash, sk, id_format)
            prover.attestation_keys[ahash] = (sk, id_format)
            verifier.verify_attestation_values(addr[0], ahash, [value, *others],
                                               lambda h, vals: results.append(list(vals)), id_format)
            pcache = verifier.request_cache.get(*HashCache.id_from_hash("proving-attestation", ahash))
            # the attestation transfer (request + chunks) is delivered reliably, in order
            for _ in range(200):
                moved = False
                for it in list(inflight):
                    if it[0] in (1, 2):
                        inflight.remove(it)
                        deliver(it)
                        await settle()
                        moved = True
                if not moved:
                    break
            n = len(pcache.challenges)
            if n == 0:
                ctx.oracle_fail("community:no-challenges", "the verifier created no challenges after the attestation "
                                                           "arrived", rp)
                return
            idmap = {HashCache.id_from_hash("proving-hash", hashlib.sha1(c).digest())[1]: i
                     for i, c in enumerate(pcache.challenges)}
            hidx = {hashlib.sha1(c).digest(): i for i, c in enumerate(pcache.challenges)}
            fresh = [0]

            def cid(challenge_hash):
                num = HashCache.id_from_hash("proving-hash", challenge_hash)[1]
                if num not in idmap:
                    idmap[num] = n + fresh[0]
                    fresh[0] += 1
                return idmap[num]

            def scan_new_challenges():
                for it in inflight:
                    if it[0] == 3 and len(it) == 4:
                        _, _, pl = prover._ez_unpack_auth(ChallengePayload, it[3])  # noqa: SLF001
                        it.append(cid(hashlib.sha1(pl.challenge).digest()))

            # independent decryption of the pair sums (oracle)
            p = sk.p
            g = fval(sk.g)
            t = e_powf(g, sk.t1, p)
            tpow = [e_powf(t, m, p) for m in range(3)]
            sums = []
            for bp in att.bitpairs:
                d = e_powf(e_mul(e_mul(fval(bp.a), fval(bp.b), p), fval(bp.complement), p), sk.t1, p)
                sums.append(next((m for m in range(3) if d == tpow[m]), 3))
            profile = [sums.count(k) for k in range(4)]

            def snapshot():
                un = [hidx[hashlib.sha1(c).digest()] for c in pcache.challenges]
                pend = sorted((idmap.get(c.number, -1), c.honesty_check)
                              for c in verifier.request_cache._identifiers.values()  # noqa: SLF001
                              if c.prefix == "proving-hash")
                rel = [pcache.relativity_map.get(k, 0) for k in range(4)]
                return un, pend, rel, len(results)

            scan_new_challenges()
            events = []
            forged0 = ctx.counts.get(f"community:forged-answer:{mode}", 0)
            seen_ids = set()
            expected_liar_reports = [0]
            snaps = [snapshot()]
            delivered_ids = set()
            budget = {"dup": 3 * n, "drop": max(2, n // 3), "timeout": max(2, n // 2), "replay": 2 * n}
            steps = 0

            def verifier_event(kind, ident, r):
                ncalls, nch = len(shim.calls), len(choices)
                return ncalls, nch, kind, ident, r

            async def do_deliver(it, keep=False):
                if not keep:
                    inflight.remove(it)
                if it[0] == 4:
                    _, _, pl = verifier._ez_unpack_auth(ChallengeResponsePayload, it[3])  # noqa: SLF001
                    ident = cid(pl.challenge_hash)
                    r = pl.response[0] if len(pl.response) == 1 else 255
                    forged = None
                    nforged = ctx.counts.get(f"community:forged-answer:{mode}", 0) - forged0
                    if mode == "liar" and ident >= n and (rng.random() < 0.7 or not nforged):
                        forged = (r + rng.randrange(1, 3)) % 3          # a wrong answer to a known plaintext
                    elif mode == "bad-byte" and ident < n and (rng.random() < 0.25 or not nforged):
                        forged = rng.choice([4, 7, 255, rng.randrange(4, 256)])   # no honest prover sends this
                    if forged is not None:
                        r = forged
                        it = list(it)
                        it[3] = prover._ez_pack(prover._prefix, 4, [  # noqa: SLF001
                            BinMemberAuthenticationPayload(prover.my_peer.public_key.key_to_bin()),
                            GlobalTimeDistributionPayload(prover.claim_global_time()),
                            ChallengeResponsePayload(pl.challenge_hash, bytes([forged]))])
                        ctx.count(f"community:forged-answer:{mode}")
                    first_for_id = ident not in seen_ids
                    seen_ids.add(ident)
                    if mode == "liar" and ident >= n and first_for_id and ident - n < len(choices) \
                            and r != choices[ident - n]:
                        expected_liar_reports[0] += 1
                    c0, h0 = len(shim.calls), len(choices)
                    deliver(it)
                    await settle()
                    if battest.multithread_update_lock.locked():
                        battest.multithread_update_lock.release()
                        ctx.oracle_fail("process_challenge_response:lock-held-after-bad-answer",
                                        f"network mode {mode}: after the answer byte {r} the module-global update lock "
                                        f"stays held; the next honest answer would block forever", rp)
                    scan_new_challenges()
                    hon = 0
                    if len(choices) > h0:      # the verifier decided on a honesty check (whatever its coin rule is)
                        hon = choices[h0] + 1
                    events.append((0, ident, r, hon))
                    snaps.append(snapshot())
                    if ident < n and r <= 3:
                        delivered_ids.add(ident)
                    delivered_responses.append(list(it[:4]))
                else:
                    deliver(it)
                    await settle()
                scan_new_challenges()

            while inflight:
                steps += 1
                if steps > 40 * n + 200:
                    raise _Diverged
                u = rng.random()
                if mode in ("clean", "liar", "bad-byte"):
                    await do_deliver(inflight[0])
                elif mode == "dup-responses":
                    it = inflight[0]
                    await do_deliver(it, keep=(it[0] == 4 and len(it) < 6))
                    if it in inflight and it[0] == 4:
                        it.extend([None] * (6 - len(it)))      # mark: the copy is delivered next, then gone
                elif mode == "dup-challenges":
                    it = inflight[0]
                    if it[0] == 3 and len(it) < 6:
                        it.append(None)
                        await do_deliver(it, keep=True)
                    else:
                        await do_deliver(it)
                elif mode == "reorder":
                    await do_deliver(rng.choice(inflight))
                elif mode == "late-replay":
                    if delivered_responses and budget["replay"] > 0 and u < 0.4:
                        budget["replay"] -= 1
                        old = list(rng.choice(delivered_responses))
                        inflight.append(old)
                        await do_deliver(old)
                    else:
                        await do_deliver(rng.choice(inflight))
                else:   # lossy-timeouts, mixed
                    pend_real = [c for c in verifier.request_cache._identifiers.values()  # noqa: SLF001
                                 if c.prefix == "proving-hash"]
                    if u < 0.15 and budget["drop"] > 0 and len(inflight) >= 3:
                        budget["drop"] -= 1
                        inflight.remove(rng.choice(inflight))
                        ctx.count("community:dropped")
                    elif u < 0.35 and budget["timeout"] > 0 and pend_real and len(inflight) >= 2:
                        budget["timeout"] -= 1
                        c = rng.choice(pend_real)
                        verifier.request_cache.pop(c.prefix, c.number)      # what RequestCache does on a time-out
                        events.append((1, idmap.get(c.number, 10 ** 6), 0, 0))
                        snaps.append(snapshot())
                        ctx.count("community:timeouts")
                    elif mode == "mixed" and u < 0.6 and budget["dup"] > 0:
                        budget["dup"] -= 1
                        await do_deliver(rng.choice(inflight), keep=True)
                        ctx.count("community:duplicated")
                    elif mode == "mixed" and u < 0.7 and delivered_responses and budget["replay"] > 0:
                        budget["replay"] -= 1
                        old = list(rng.choice(delivered_responses))
                        inflight.append(old)
                        await do_deliver(old)
                    else:
                        await do_deliver(rng.choice(inflight))
            # a few stale duplicates after everything is over
            for old in delivered_responses[:3]:
                cp = list(old)
                inflight.append(cp)
                await do_deliver(cp)
            # ---- oracle ----------------------------------------------------------------------------------------
            un, pend, rel, ncb = snapshot()
            ctx.count(f"community:mode:{mode}")
            ctx.count("community:" + ("completed" if results else "incomplete"))
            ctx.count("community:events", len(events))
            resp_ids = [e[1] for e in events if e[0] == 0]
            ctx.count("community:repeated-response-deliveries", len(resp_ids) - len(set(resp_ids)))
            cap = [sum(1 for i in delivered_ids if sums[i] == k) for k in range(4)]
            if any(rel[k] > cap[k] for k in range(4)):
                ctx.oracle_fail("on_challenge_response:answer-counted-twice",
                                f"network mode {mode}: aggregate {rel} exceeds the histogram {cap} of the distinct "
                                f"challenges that were answered (profile of the value {profile})", rp)
            want_true = 1 - Fraction(1, 2 ** n)
            liar_reports = [v for v in results if all(x == 0.0 for x in v)]
            ctx.count("community:liar-reports", len(liar_reports))
            if len(liar_reports) != expected_liar_reports[0]:
                ctx.oracle_fail("on_challenge_response:honesty-check",
                                f"network mode {mode}: {expected_liar_reports[0]} honesty checks were answered wrongly, "
                                f"the verifier reported a cheating prover (all scores 0) {len(liar_reports)} times", rp)
            for vals in ([] if mode == "bad-byte" else [v for v in results if v not in liar_reports]):
                if not exact_float(vals[0], want_true):
                    ctx.oracle_fail("verify_attestation_values:true-value-score",
                                    f"network mode {mode}: the completed verification scores the true value "
                                    f"{vals[0]!r}, expected {float(want_true)!r} (aggregate {rel}, profile {profile})", rp)
                for ov, sc in zip(others, vals[1:]):
                    hfun = HASHES[FORMATS_BY_ID[id_format]][0]
                    oprof = profile_of_bits(bits_of_digest(hfun(ov)))
                    if oprof != profile and sc != 0.0:
                        ctx.oracle_fail("verify_attestation_values:other-value-score",
                                        f"network mode {mode}: value {ov!r} with another profile scores {sc!r}", rp)
            if [v for v in results if v not in liar_reports] and rel != profile and mode != "bad-byte":
                ctx.oracle_fail("verify_attestation_values:aggregate", f"network mode {mode}: completed with aggregate "
                                                                       f"{rel}, profile of the value is {profile}", rp)
            # ---- model: the same event sequence through VState.run ----------------------------------------------
            flat = [x for e in events for x in e]
            impl = "|".join("u=%s;p=[%s];r=%s;k=%d;l=false" % (nat_list(u_), ",".join(f"{a}:{b}" for a, b in p_),
                                                               ",".join(map(str, r_)), k_) for (u_, p_, r_, k_) in snaps)

            def same(model, impl_):
                def canon(sx):
                    out = []
                    for part in sx.split("|"):
                        f = dict(kv.split("=", 1) for kv in part.split(";"))
                        f["p"] = ",".join(sorted(f["p"].strip("[]").split(","))) if f["p"] != "[]" else ""
                        f.pop("l", None)      # the code keeps no "liar" flag; its effect (an empty report) is in k
                        out.append(f)
                    return out
                return canon(model) == canon(impl_)

            batch.add(f"vrun {n} {nat_list(flat)}", impl, cmp=same, tag=f"verifier bookkeeping ({mode})")
            # which branches of on_challenge_response / the time-out did this schedule reach (from the REAL states)
            for ev, before, after in zip(events, snaps, snaps[1:]):
                (un0, pe0, rel0, k0), (un1, pe1, rel1, k1) = before, after
                if ev[0] == 1:
                    ctx.count("branch:verifier:timeout")
                    continue
                if before == after:
                    ctx.count("branch:verifier:no-pending-cache:ignored")
                    continue
                if sum(rel1) == sum(rel0) + 1:
                    ctx.count("branch:verifier:real-answer-counted")
                elif len(un1) < len(un0):
                    ctx.count("branch:verifier:answer-byte-above-3:challenge-consumed")
                elif ev[1] >= n:
                    ctx.count("branch:verifier:honesty-" + ("wrong" if k1 > k0 and un1 else "ok"))
                if not un1 and k1 > k0:
                    ctx.count("branch:verifier:completed")
                new_ids = [i for i, _ in pe1 if i not in [j for j, _ in pe0]]
                if un1 and len(un1) <= len(un0) and before != after and not (len(un1) < len(un0) and sum(rel1) == sum(rel0)):
                    ctx.count("branch:verifier:next:" + ("honesty" if any(i >= n for i in new_ids) else
                                                         "real" if new_ids else "none-left"))
            ctx.case(("community", mode, value, sk.p, tuple(events)), True)
    finally:
        prover.request_cache.clear()
        verifier.request_cache.clear()
        for node in nodes:
            await node.stop()
        internet.clear()


def community_range_round(ctx: Ctx, duplicate: bool):
    """the shipped range format (id_metadata_range_18plus, [18, 200]) through two AttestationCommunity nodes; with
    `duplicate` every challenge and every response datagram is delivered twice"""
    import asyncio
    import logging
    seed = ctx.rng.getrandbits(64)
    logging.disable(logging.CRITICAL)
    try:
        asyncio.run(_community_range_round(ctx, duplicate, seed))
    finally:
        logging.disable(logging.NOTSET)


async def _community_range_round(ctx: Ctx, duplicate: bool, seed: int):
    import asyncio
    from ipv8.attestation.wallet.community import AttestationCommunity, AttestationSettings
    from ipv8.test.mocking.endpoint import internet
    from ipv8.test.mocking.ipv8 import MockIPv8
    rng = _random.Random(seed)
    id_format = "id_metadata_range_18plus"
    nodes = [MockIPv8("curve25519", AttestationCommunity, settings=AttestationSettings(working_directory=":memory:"))
             for _ in range(2)]
    prover, verifier = nodes[0].overlay, nodes[1].overlay
    addr = [n.endpoint.wan_address for n in nodes]
    inflight = []
    for i, nd in enumerate(nodes):
        nd.endpoint.send = (lambda src: lambda address, packet, *a, **kw:
                            inflight.append((src, addr.index(address), packet)) if address in addr else None)(i)
    value = rng.choice([18, 200, rng.randrange(18, 201)])
    rp = {"kind": "community-range", "value": value, "duplicate": duplicate, "seed": seed}
    results = []
    try:
        algorithm = prover.get_id_algorithm(id_format)
        sk = algorithm.generate_secret_key()
        rp["sk"] = sk.serialize().hex()
        try:
            blob = algorithm.attest(sk.public_key(), bytes([value]))
        except Exception as e:  # noqa: BLE001
            # (the split m2 < 0 makes attest raise with probability about 2^-15; accepted as a residual risk)
            ctx.oracle_fail("PengBaoRangeAlgorithm.attest:raises",
                            f"attest() of the shipped range format for {value} in [18, 200] raises {type(e).__name__}: {e}",
                            rp)
            return
        att = algorithm.get_attestation_class().unserialize_private(sk, blob, id_format)
        ahash = hashlib.sha1(att.serialize()).digest()
        prover.database.insert_attestation(att, ahash, sk, id_format)
        prover.attestation_keys[ahash] = (sk, id_format)
        verifier.verify_attestation_values(addr[0], ahash, [b"\x01", b"\x00"],
                                           lambda h, vals: results.append(list(vals)), id_format)
        steps = 0
        while inflight and steps < 400:
            steps += 1
            src, dst, packet = inflight.pop(0)
            for _ in range(2 if duplicate and packet[len(prover._prefix)] in (3, 4) else 1):  # noqa: SLF001
                nodes[dst].endpoint.notify_listeners((addr[src], packet))
                for _ in range(4):
                    await asyncio.sleep(0)
        ctx.count(f"community-range:{'duplicated' if duplicate else 'clean'}:{'completed' if results else 'incomplete'}")
        if not results or any(v != [1.0, 0.0] for v in results):
            ctx.oracle_fail("verify_attestation_values:range-format",
                            f"verification of {value} in [18, 200] through the community "
                            f"({'every challenge/response delivered twice' if duplicate else 'clean network'}) reports "
                            f"{results}", rp)
        ctx.case(("community-range", value, duplicate, sk.p), True)
    finally:
        prover.request_cache.clear()
        verifier.request_cache.clear()
        for node in nodes:
            await node.stop()
        internet.clear()


SESSION_SCHEMAS = {      # exact formats at the smallest key size, next to the shipped defaults, on ONE node
    "v_sha256_4": {"algorithm": "bonehexact", "key_size": 32, "hash": "sha256_4"},
    "v_sha256": {"algorithm": "bonehexact", "key_size": 32, "hash": "sha256"},
    "v_sha512": {"algorithm": "bonehexact", "key_size": 32, "hash": "sha512"},
}
SESSION_HASH = {"v_sha256_4": "sha256_4", "v_sha256": "sha256", "v_sha512": "sha512", "id_metadata": "sha256_4"}


def issuance_session(ctx: Ctx, batch: Batch, seed=None, force=None):
    """a long-lived pair of nodes: the attestee requests several attestations (different formats, fresh keys) that are
    outstanding at the same time and answered out of order with interleaved/duplicated chunks; afterwards the same two
    nodes verify every attribute, one format after the other"""
    import asyncio
    import logging
    seed = ctx.rng.getrandbits(64) if seed is None else seed
    logging.disable(logging.CRITICAL)
    try:
        asyncio.run(_issuance_session(ctx, batch, seed, force or {}))
    finally:
        logging.disable(logging.NOTSET)


async def _issuance_session(ctx: Ctx, batch: Batch, seed: int, force: dict):  # noqa: C901, PLR0912, PLR0915
    import asyncio
    from ipv8.attestation.wallet.community import AttestationCommunity, AttestationSettings
    from ipv8.attestation.wallet.payload import AttestationChunkPayload, RequestAttestationPayload
    from ipv8.peer import Peer
    from ipv8.test.mocking.endpoint import internet
    from ipv8.test.mocking.ipv8 import MockIPv8
    import shutil
    import tempfile
    import vlib
    from ipv8.attestation.schema.manager import SchemaManager
    rng = _random.Random(seed)
    # the attestee's wallet is a FILE-backed database: later the node is stopped and started again from that file
    (vlib.VERIF / ".tmp_c18").mkdir(exist_ok=True)
    wallet_dir = tempfile.mkdtemp(prefix="wallet_", dir=str(vlib.VERIF / ".tmp_c18"))
    orig_defaults = SchemaManager.register_default_schemas

    def defaults_plus_session_schemas(self):
        # configuration of the deployment: the three exact hash modes at the smallest key size next to the defaults
        # (they must be known while AttestationCommunity.__init__ reloads the stored keys)
        orig_defaults(self)
        for name, params in SESSION_SCHEMAS.items():
            self.register_schema(name, params["algorithm"], dict(params))

    def start_node(directory):
        with Patched((SchemaManager, "register_default_schemas", defaults_plus_session_schemas)):
            return MockIPv8("curve25519", AttestationCommunity, settings=AttestationSettings(working_directory=directory))

    nodes = [start_node(":memory:"), start_node(wallet_dir)]
    attester, attestee = nodes[0].overlay, nodes[1].overlay
    addr = [n.endpoint.wan_address for n in nodes]
    plen = len(attester._prefix)  # noqa: SLF001
    inflight = []
    for i, nd in enumerate(nodes):
        nd.endpoint.send = (lambda src: lambda address, packet, *a, **kw:
                            inflight.append((src, addr.index(address), packet)) if address in addr else None)(i)

    chunk_events = []
    last_chunk = []

    async def settle():
        for _ in range(6):
            await asyncio.sleep(0)

    async def pump(pick="fifo", dup=0.0, limit=20000):
        steps = 0
        while inflight:
            steps += 1
            if steps > limit:
                raise _Diverged
            it = inflight.pop(0 if pick == "fifo" else rng.randrange(len(inflight)))
            is_chunk = it[1] == 1 and it[2][plen] == 2
            twice = dup and (rng.random() < dup or (is_chunk and not chunk_events))   # the first chunk always, if dup
            if is_chunk:
                last_chunk[:] = [it]
            for _ in range(2 if twice else 1):
                if it[1] == 1 and it[2][plen] == 2:
                    _, dist, pl = attestee._ez_unpack_auth(AttestationChunkPayload, it[2])  # noqa: SLF001
                    chunk_events.append((dist.global_time, pl.attestation_hash, pl.sequence_number))
                nodes[it[1]].endpoint.notify_listeners((addr[it[0]], it[2]))
                await settle()

    plan = [("reversed", "interleaved+dup"), ("in-order", "interleaved+dup"), ("reversed", "fifo"), ("random", "interleaved")]
    if force.get("answer_order"):
        plan = [(force["answer_order"], force["chunks"])]
    order_kind, chunk_net = plan[ctx.counts.get("session:requests-sessions", 0) % len(plan)]
    ctx.count("session:requests-sessions")
    nreq = rng.choice([2, 3, 3])
    pool = ["v_sha256_4", "v_sha256", "id_metadata"] + ([] if force.get("quick") else ["v_sha512"])
    fmts = rng.sample(pool, nreq)                           # distinct formats of one algorithm (sha512: thorough tier)
    if nreq == 3 and rng.random() < 0.5:
        fmts[-1] = fmts[0]                     # two outstanding requests of the same format as well
    if force.get("formats"):
        fmts = list(force["formats"])
    rp = {"kind": "session", "seed": seed, "formats": fmts, "answer_order": order_kind, "chunks": chunk_net}
    ctx.count(f"session:answer-order:{order_kind}")
    ctx.count(f"session:chunks:{chunk_net}")
    try:
        reqs = []
        for i, fmt in enumerate(fmts):
            alg = attestee.get_id_algorithm(fmt)
            sk = alg.generate_secret_key()
            value = value_of_class(rng, rng.choice(VALUE_CLASSES))
            if force.get("keys"):
                sk = alg.load_secret_key(bytes.fromhex(force["keys"][i]))
                value = bytes.fromhex(force["values"][i])
            reqs.append({"name": f"attr{i}", "fmt": fmt, "sk": sk, "value": value})
            ctx.count(f"session:format:{fmt}")
        rp["keys"] = [r["sk"].serialize().hex() for r in reqs]
        rp["values"] = [r["value"].hex() for r in reqs]
        by_name = {r["name"]: r for r in reqs}
        futures = {}

        def on_request(peer, attribute, metadata):
            fut = asyncio.get_running_loop().create_future()
            futures[attribute] = fut
            return fut

        completed = []
        attester.set_attestation_request_callback(on_request)
        attestee.set_attestation_request_complete_callback(
            lambda for_peer, name, h, fmt, from_peer=None: completed.append((name, h, fmt)))
        apeer = Peer(nodes[0].my_peer.public_key, addr[0])
        for r in reqs:
            attestee.request_attestation(apeer, r["name"], r["sk"], {"id_format": r["fmt"]})
            _, dist, _ = attester._ez_unpack_auth(RequestAttestationPayload, inflight[-1][2])  # noqa: SLF001
            r["gt"] = dist.global_time
        await pump()                            # all requests reach the attester; none is answered yet
        if set(futures) != set(by_name):
            ctx.oracle_fail("session:requests-lost", f"{len(futures)} of {len(reqs)} requests reached the attester", rp)
            return
        names = [r["name"] for r in reqs]
        answer = {"reversed": names[::-1], "in-order": names, "random": rng.sample(names, len(names))}[order_kind]
        if chunk_net == "fifo":
            for nm in answer:                   # out-of-order answers, each transferred completely before the next
                futures[nm].set_result(by_name[nm]["value"])
                await settle()
                await pump()
        else:
            for nm in answer:
                futures[nm].set_result(by_name[nm]["value"])
                await settle()
            await pump(pick="random", dup=0.3 if chunk_net.endswith("dup") else 0.0)
        if last_chunk:                          # a stale duplicate after every transfer is complete
            inflight.append(last_chunk[0])
            await pump()
        ctx.count("session:requests", len(reqs))
        # ---- oracle 1: every attestation arrived and is stored with the key of the request it answers ----------------
        got_names = sorted(c[0] for c in completed)
        if got_names != sorted(names):
            ctx.oracle_fail("on_attestation_chunk:attestation-lost-or-misrouted",
                            f"requests {sorted(names)} were answered ({order_kind}, chunks {chunk_net}); completed "
                            f"transfers: {got_names}", rp)
        for name, h, fmt in completed:
            r = by_name.get(name)
            stored = attestee.attestation_keys.get(h)
            if r is None or stored is None:
                continue
            r["hash"] = h
            key_ok = stored[0].serialize() == r["sk"].serialize() and stored[1] == r["fmt"] == fmt
            blobs = attestee.database.get_attestation_by_hash(h)
            att = attestee.get_id_algorithm(fmt).get_attestation_class().unserialize(blobs[0], fmt) if blobs else None
            prof_ok = None
            if att is not None and key_ok:
                sk = r["sk"]
                p = sk.p
                t = e_powf(fval(sk.g), sk.t1, p)
                tpow = [e_powf(t, m, p) for m in range(3)]
                sums = []
                for bp in att.bitpairs:
                    d = e_powf(e_mul(e_mul(fval(bp.a), fval(bp.b), p), fval(bp.complement), p), sk.t1, p)
                    sums.append(next((m for m in range(3) if d == tpow[m]), 3))
                hfun = HASHES[SESSION_HASH[fmt]][0]
                prof_ok = [sums.count(k) for k in range(4)] == profile_of_bits(bits_of_digest(hfun(r["value"])))
            if not key_ok or prof_ok is False:
                ctx.oracle_fail("on_attestation_chunk:attestation-bound-to-wrong-key",
                                f"attribute {name} ({fmt}) was requested with its own fresh key; the received attestation "
                                f"is stored with {'another key/format' if not key_ok else 'a key that does not decrypt it'} "
                                f"(answers {order_kind}, chunks {chunk_net})", dict(rp, attribute=name))
        # ---- model: the same chunk arrivals through runChunks ----------------------------------------------------
        att_id, nchunks = {}, {}
        for _, h, seq in chunk_events:
            att_id.setdefault(h, len(att_id) + 1)
            nchunks[h] = max(nchunks.get(h, 0), seq + 1)
        flat_req = [x for i, r in enumerate(reqs) for x in (r["gt"], i + 1)]
        flat_ev = [x for gt, h, seq in chunk_events for x in (gt, att_id[h], seq, nchunks[h])]
        key_idx = {r["sk"].serialize(): i + 1 for i, r in enumerate(reqs)}
        impl_stored = []
        for name, h, fmt in completed:
            st = attestee.attestation_keys.get(h)
            impl_stored += [att_id.get(h, 0), key_idx.get(st[0].serialize(), 0) if st else 0]
        left = sum(1 for c in attestee.request_cache._identifiers.values()  # noqa: SLF001
                   if c.prefix == "receive-request-attestation")
        batch.add(f"reqrun {nat_list(flat_req)} {nat_list(flat_ev)}", f"{nat_list(impl_stored)} {left}",
                  tag=f"issuance bookkeeping ({order_kind}, {chunk_net})")
        ctx.count("session:chunk-deliveries", len(chunk_events))
        got_c, done_gt = {}, set()
        for gt, h, seq in chunk_events:          # which branches of on_attestation_chunk were reached
            if gt in done_gt:
                ctx.count("branch:issuance:chunk-for-no-outstanding-request")
            elif seq in got_c.setdefault(gt, set()):
                ctx.count("branch:issuance:duplicate-chunk")
            else:
                got_c[gt].add(seq)
                if len(got_c[gt]) == nchunks[h]:
                    done_gt.add(gt)
                    ctx.count("branch:issuance:attestation-complete")
                else:
                    ctx.count("branch:issuance:partial")
        # ---- persistence: what the wallet file holds, then the prover is stopped and started again from that file ---
        rows = {bytes(row[0]): row for row in attestee.database.get_all()}
        for r in reqs:
            if "hash" not in r:
                continue
            row = rows.get(r["hash"])
            if row is None or bytes(row[2]) != r["sk"].serialize() or bytes(row[3]).decode() != r["fmt"]:
                ctx.oracle_fail("AttestationsDB.insert_attestation:stored-key",
                                f"attribute {r['name']} ({r['fmt']}): the wallet row does not hold the secret key the "
                                f"attestation was requested with (key column: "
                                f"{'missing' if row is None else str(len(bytes(row[2]))) + ' bytes'}, secret key: "
                                f"{len(r['sk'].serialize())} bytes)", dict(rp, attribute=r["name"]))
            elif len(r["sk"].serialize()) < 2000:
                batch.add(f"privunser {bytes(row[2]).hex()}", f"{key_ints(r['sk'])} {r['sk'].n} {r['sk'].t1}",
                          tag="secret key read back from the wallet")
        await nodes[1].stop()
        internet.pop(addr[1], None)
        nodes[1] = start_node(wallet_dir)
        attestee = nodes[1].overlay
        addr[1] = nodes[1].endpoint.wan_address
        nodes[1].endpoint.send = (lambda address, packet, *a, **kw:
                                  inflight.append((1, addr.index(address), packet)) if address in addr else None)
        ctx.count("session:prover-restarted-from-wallet-file")
        for r in reqs:
            if "hash" not in r:
                continue
            st = attestee.attestation_keys.get(r["hash"])
            if st is None or st[0] is None or st[0].serialize() != r["sk"].serialize() or st[1] != r["fmt"]:
                ctx.oracle_fail("AttestationCommunity.__init__:key-not-restored",
                                f"after a restart from the wallet file the prover has "
                                f"{'no entry' if st is None else 'no usable key' if st[0] is None else 'another key'} "
                                f"for attribute {r['name']} ({r['fmt']})", dict(rp, attribute=r["name"]))
        # ---- oracle 2: the same two nodes verify every attribute, format after format --------------------------------
        from ipv8.attestation.communication_manager import CommunicationChannel
        channel = CommunicationChannel(attester, None)
        vorder = rng.sample([r for r in reqs if "hash" in r], len([r for r in reqs if "hash" in r]))
        vorder = vorder + vorder[:1]            # and the first one again after the others
        for r in vorder:
            fmt = r["fmt"]
            hfun, bitspace = HASHES[SESSION_HASH[fmt]]
            others = neighbour_values(rng, r["value"])[:2]
            results = []
            attester.verify_attestation_values(addr[1], r["hash"], [r["value"], *others],
                                               lambda h, vals: results.append(list(vals)), fmt)
            await pump(dup=0.2)
            ctx.count(f"session:verified:{fmt}")
            # the same verification through the business-logic API (CommunicationChannel.verify) with a LIST of
            # reference values: repeats, the true value at any position, values with other profiles
            attester.request_cache.clear()
            attestee.request_cache.clear()
            tv, ov = r["value"], (others + [b"\x01other"])[0]
            shape = [("true-first", [tv, ov]), ("repeated-true-then-other", [tv, tv, ov]), ("other-first", [ov, tv]),
                     ("repeated-other", [ov, ov, tv, ov]), ("true-last-of-many", [*others, ov, tv]),
                     ("only-others", [ov, *others])][ctx.counts.get("channel:verify", 0) % 6]
            ctx.count("channel:verify")
            ctx.count(f"channel:references:{shape[0]}")
            refs = list(shape[1])
            channel.verify(Peer(nodes[1].my_peer.public_key, addr[1]), r["hash"], list(refs), fmt)
            await pump()
            rows = channel.verification_output.get(r["hash"])
            want_rows = []
            for ref in refs:
                same = profile_of_bits(bits_of_digest(hfun(ref))) == profile_of_bits(bits_of_digest(hfun(tv)))
                want_rows.append((ref, float(1 - Fraction(1, 2 ** (bitspace // 2))) if same else 0.0))
            if rows is None or [tuple(x) for x in rows] != want_rows:
                ctx.oracle_fail("CommunicationChannel.verify:report",
                                f"references {shape[0]} ({len(refs)} values, the attested one at positions "
                                f"{[i for i, x in enumerate(refs) if x == tv]}): the channel reports "
                                f"{[(x[0][:8], x[1]) for x in (rows or [])]}, expected scores "
                                f"{[w for _, w in want_rows]} in this order", dict(rp, attribute=r["name"],
                                                                                   references=[x.hex() for x in refs]))
            npairs = bitspace // 2
            want = 1 - Fraction(1, 2 ** npairs)
            prof = profile_of_bits(bits_of_digest(hfun(r["value"])))
            if not results or any(not exact_float(v[0], want) for v in results):
                ctx.oracle_fail("verify_attestation_values:true-value-score",
                                f"session: attribute {r['name']} of format {fmt} ({npairs} bit pairs) verified after "
                                f"{[q['fmt'] for q in vorder[:vorder.index(r)]]} on the same nodes scores "
                                f"{[v[0] for v in results]}, expected {float(want)!r}", dict(rp, attribute=r["name"]))
            for v in results:
                for ov, sc in zip(others, v[1:]):
                    if profile_of_bits(bits_of_digest(hfun(ov))) != prof and sc != 0.0:
                        ctx.oracle_fail("verify_attestation_values:other-value-score",
                                        f"session: value {ov!r} with another profile scores {sc!r} ({fmt})", rp)
            attester.request_cache.clear()
            attestee.request_cache.clear()
        ctx.case(("session", tuple(fmts), order_kind, chunk_net, seed), True)
    finally:
        attester.request_cache.clear()
        attestee.request_cache.clear()
        for node in nodes:
            await node.stop()
        internet.clear()
        shutil.rmtree(wallet_dir, ignore_errors=True)


_CONFIG_KEY: dict = {}


def schema_config_round(ctx: Ctx):
    """schemas are configuration: what a schema was registered with must be what its algorithm uses, whatever happens
    afterwards to the dict it was registered from, to other schemas, or to the default schemas of another manager"""
    from ipv8.attestation.schema.manager import SchemaManager
    from ipv8.attestation.wallet.pengbaorange.algorithm import PengBaoRangeAlgorithm
    seed = ctx.rng.getrandbits(64)
    rng = _random.Random(seed)
    kind = ["mutate-dict-after-registration", "register-same-name-again", "reuse-dict-for-second-schema",
            "register-default-name-again", "other-manager-edits-its-default",
            "independent-dicts"][ctx.counts.get("config:round", 0) % 6]
    ctx.count("config:round")
    ctx.count(f"config:history:{kind}")
    m1, m2 = SchemaManager(), SchemaManager()
    m1.register_default_schemas()
    m2.register_default_schemas()
    a = rng.randrange(10, 60)
    b = a + rng.randrange(20, 300)
    a_low = a - rng.randrange(3, 9)                   # the other, wider range: values in [a_low, a) are outside [a, b]
    rp = {"kind": "config", "history": kind, "seed": seed, "a": a, "b": b, "a_low": a_low}
    name, registered = "r_own", {"key_size": 32, "min": a, "max": b}
    if kind == "other-manager-edits-its-default":
        name = "id_metadata_range_18plus"
        registered = {k: v for k, v in m1.formats[name].items() if k != "algorithm"}
        a, b = registered["min"], registered["max"]
        a_low = a - rng.randrange(3, 9)
        rp.update(a=a, b=b, a_low=a_low)
        m2.formats[name]["min"] = a_low                # a different manager edits ITS OWN copy
        wide = m2.get_algorithm_instance(name)
    elif kind in ("register-same-name-again", "register-default-name-again"):
        # the deployment configures a schema name a second time (e.g. tightens a default): the LAST registration counts
        if kind == "register-default-name-again":
            name = "id_metadata_range_18plus"
            first = {k: v for k, v in m1.formats[name].items() if k != "algorithm"}
            a_low, b = first["min"], first["max"]
            a = a_low + rng.randrange(2, 9)
            rp.update(a=a, b=b, a_low=a_low)
        else:
            m1.register_schema(name, "pengbaorange", {"key_size": 32, "min": a_low, "max": b})
        m1.get_algorithm_instance(name)                  # the first configuration was in use
        registered = {"key_size": 32, "min": a, "max": b}
        m1.register_schema(name, "pengbaorange", dict(registered))
        wide = PengBaoRangeAlgorithm("w", {"w": {"algorithm": "pengbaorange", "key_size": 32, "min": a_low, "max": b}})
    else:
        params = dict(registered)
        m1.register_schema(name, "pengbaorange", params)
        if kind == "mutate-dict-after-registration":
            params["min"] = a_low
            wide = PengBaoRangeAlgorithm("w", {"w": {"algorithm": "pengbaorange", "key_size": 32, "min": a_low, "max": b}})
        elif kind == "reuse-dict-for-second-schema":
            params["min"] = a_low
            m1.register_schema("r_other", "pengbaorange", params)
            wide = m1.get_algorithm_instance("r_other")
        else:
            m1.register_schema("r_other", "pengbaorange", {"key_size": 32, "min": a_low, "max": b})
            wide = m1.get_algorithm_instance("r_other")
    alg = m1.get_algorithm_instance(name)
    stored = {k: v for k, v in m1.formats[name].items() if k != "algorithm"}
    if stored != registered or (alg.a, alg.b) != (a, b):
        ctx.oracle_fail("SchemaManager.register_schema:parameters-changed",
                        f"schema {name} was registered with {registered}; after `{kind}` the manager holds {stored} and "
                        f"its algorithm checks the range [{alg.a},{alg.b}]", rp)
    if (wide.a, wide.b) != (a_low, b):
        ctx.oracle_fail("SchemaManager.register_schema:parameters-changed",
                        f"the other schema should check [{a_low},{b}], it checks [{wide.a},{wide.b}]", rp)
    # behaviour: a proof made under the wider range for a value below `a` must not pass under this schema
    if "sk" not in _CONFIG_KEY:               # one fresh key per run is enough here: the class is configuration
        _CONFIG_KEY["sk"] = wide.generate_secret_key()
    sk = _CONFIG_KEY["sk"]
    pk = sk.public_key()
    for value, inside in ((rng.randrange(a_low, a), False),):
        try:
            blob = wide.attest(pk, bytes([value]) if value < 256 else value.to_bytes(2, "big"))
        except Exception:  # noqa: BLE001 - the random split m2 < 0 (p ~ 2^-15)
            ctx.count("config:attest-raised")
            continue
        att = wide.get_attestation_class().unserialize_private(sk, blob, "w")
        pub = alg.get_attestation_class().unserialize(att.serialize(), name)
        agg = alg.create_certainty_aggregate(pub)
        for ch in alg.create_challenges(pk, pub):
            agg = alg.process_challenge_response(agg, ch, wide.create_challenge_response(sk, att, ch))
        score = alg.certainty(b"\x01", agg)
        ctx.count(f"config:verified:{'inside' if inside else 'outside'}-own-range")
        if not inside and score != 0.0:
            ctx.oracle_fail("PengBaoPublicData.check:outside-accepted",
                            f"schema {name} registered with [{a},{b}]; after `{kind}` a proof for {value} made under "
                            f"[{a_low},{b}] is accepted by it (score {score})", dict(rp, value=value))
    # … and an honest proof made under THIS schema for a value inside its range is accepted by it
    own_value = rng.randrange(a, b + 1)
    if kind not in ("register-same-name-again", "register-default-name-again", "independent-dicts"):
        ctx.case(("config", kind, a, b, a_low, seed), True)
        return
    try:
        blob = alg.attest(pk, bytes([own_value]) if own_value < 256 else own_value.to_bytes(2, "big"))
        att = alg.get_attestation_class().unserialize_private(sk, blob, name)
        agg = alg.create_certainty_aggregate(alg.get_attestation_class().unserialize(att.serialize(), name))
        for ch in alg.create_challenges(pk, att):
            agg = alg.process_challenge_response(agg, ch, alg.create_challenge_response(sk, att, ch))
        ctx.count("config:verified:own-proof")
        if alg.certainty(b"\x01", agg) != 1.0:
            ctx.oracle_fail("PengBaoPublicData.check:inside-rejected",
                            f"schema {name} configured (last) with [{a},{b}], history `{kind}`: its own honest proof for "
                            f"{own_value} is rejected", dict(rp, value=own_value))
    except Exception as e:  # noqa: BLE001 - the random split m2 < 0 (p ~ 2^-15) makes attest raise
        ctx.count("config:attest-raised")
        del e
    ctx.case(("config", kind, a, b, a_low, seed), True)


FORMATS_BY_ID = {"id_metadata": "sha256_4", "id_metadata_big": "sha256", "id_metadata_huge": "sha512"}


# ---- tiers ------------------------------------------------------------------------------------------------------------
def protocol_cases(ctx: Ctx, scale: float):
    """quick (scale <= 1): every scripted family and scenario once or twice — the repetition of RANDOM rounds lives in
    the thorough tier (scale 8)"""
    rng = ctx.rng
    batch = Batch()
    quick = scale <= 1
    fmts = ["f_sha256_4"] * 5 + ["f_sha256"] * 2 + ["f_sha512"]
    n_exact = max(3, int((14 if quick else 36) * scale))     # quick: all 9 challenge orders, all three formats
    for i in range(n_exact):
        fmt = ["f_sha256_4", "f_sha256", "f_sha512"][i] if i < 3 else rng.choice(fmts)
        kind = ORDER_KINDS[i % len(ORDER_KINDS)] if i < 2 * len(ORDER_KINDS) else rng.choice(ORDER_KINDS)
        value = value_of_class(rng, rng.choice(VALUE_CLASSES))
        ks = None if rng.random() < 0.6 else rng.choice([8, 12, 16, 24])
        exact_round(ctx, batch, fmt, value, kind, key_size=ks)
    encode_decode_cases(ctx, batch, max(2, int(10 * scale)), 12)
    scoring_cases(ctx, batch, int(1500 * scale))
    ser_cases(ctx, batch, int(400 * scale))
    bad_answer_cases(ctx, int(40 * scale))
    # every scenario the design lists; the nine cheater kinds once each; the seven inside-type rounds carry the seven
    # boundary-challenge kinds; two wrong-range rounds (each runs all shifts and all histories)
    scen = ["inside", "outside-cheater", "wrong-range", "inside-edge", "outside-cheater", "outside-honest",
            "outside-cheater", "outside-by-one", "outside-cheater", "tampered", "outside-cheater",
            "wrong-range", "inside-bigspace", "outside-cheater", "outside-cheater",
            "outside-cheater", "inside-bigspace", "inside-min-nonpos", "inside", "inside-max0",
            "outside-cheater", "inside-min-nonpos"]
    n_range = max(4, int((len(scen) if quick else 26) * scale))
    sk = None
    for i in range(n_range):
        if i % (6 if quick else 3) == 0:
            sk = None
        from ipv8.attestation.wallet.pengbaorange.algorithm import PengBaoRangeAlgorithm
        if sk is None:
            sk = PengBaoRangeAlgorithm("r", {"r": {"algorithm": "pengbaorange", "key_size": 32, "min": 0,
                                                   "max": 1}}).generate_secret_key()
        range_round(ctx, batch, sk=sk, scenario=scen[i % len(scen)] if i < 2 * len(scen) else None)
    modes = NET_MODES + ["lossy-timeouts", "mixed"]             # quick: every mode once, the two lossy ones twice
    n_comm = len(modes) if quick else max(len(NET_MODES), int(18 * scale))
    for i in range(n_comm):
        community_round(ctx, batch, modes[i % len(modes)])
    for i in range(1 if quick else int(2 * scale)):
        community_range_round(ctx, duplicate=not bool(i % 2))
    for _ in range(max(2, int(2 * scale))):
        issuance_session(ctx, batch, force={"quick": quick})
    for _ in range(max(6, int(6 * scale))):
        schema_config_round(ctx)
    batch.flush(ctx)


def exhaustive_small(ctx: Ctx):
    """thorough tier: every operand pair over the smallest fields, every small relativity map, every small integer"""
    import itertools
    from ipv8.attestation.wallet.bonehexact import attestation as battest
    from ipv8.attestation.wallet.primitives import structs
    from ipv8.attestation.wallet.primitives.value import FP2Value
    sig = {"add": "add", "sub": "sub", "mul": "mul", "div": "floordiv"}
    for p, width in ((2, 6), (3, 6), (5, 4)):
        # width 6: all coefficient 6-tuples; width 4: (a, b, aC, bC) with c = cC = 0
        def full(t):
            return t if width == 6 else (t[0], t[1], 0, t[2], t[3], 0)
        tuples = [full(t) for t in itertools.product(range(p), repeat=width)]
        vals = [FP2Value(p, *t) for t in tuples]
        for op in ("add", "sub", "mul", "div"):
            f = PYOP[op]
            bad = 0
            for s, S in zip(tuples, vals):
                ns, ds = num(s, p), den(s, p)
                for o, O in zip(tuples, vals):
                    res = tup(f(S, O))
                    no, do = num(o, p), den(o, p)
                    if op == "add":
                        en, ed = e_add(e_mul(ns, do, p), e_mul(no, ds, p), p), e_mul(ds, do, p)
                    elif op == "sub":
                        en, ed = e_sub(e_mul(ns, do, p), e_mul(no, ds, p), p), e_mul(ds, do, p)
                    elif op == "mul":
                        en, ed = e_mul(ns, no, p), e_mul(ds, do, p)
                    else:
                        en, ed = e_mul(ns, do, p), e_mul(ds, no, p)
                    if (num(res, p), den(res, p)) != (en, ed) and bad < 3:
                        bad += 1
                        ctx.oracle_fail(f"FP2Value.__{sig[op]}__:fraction-law",
                                        f"{op} of {s} and {o} mod {p} gives {res}, expected {en}/{ed}",
                                        {"op": op, "p": p, "self": s, "other": o, "result": res})
            ctx.case(("exhaustive", op, p), True, n=len(tuples) ** 2)
            ctx.count(f"exhaustive:{op}:p={p}", len(tuples) ** 2)
    # every pair of relativity maps with at most 5 pairs per class
    n = 0
    for e in itertools.product(range(5), repeat=3):
        for v in itertools.product(range(5), repeat=4):
            if v[3] > 1:
                continue
            ed, vd = dict(enumerate(e + (0,))), dict(enumerate(v))
            c = battest.binary_relativity_certainty(dict(ed), dict(vd))
            if not close(c, spec_certainty(list(e) + [0], list(v))):
                ctx.oracle_fail("binary_relativity_certainty:formula", f"expected {e}, observed {v}: {c!r}",
                                {"kind": "score", "expected": list(e) + [0], "observed": list(v)})
            n += 1
    ctx.case(("exhaustive", "score"), True, n=n)
    ctx.count("exhaustive:score", n)
    # every value of every bit space up to 10 bits
    n = 0
    for bitspace in range(2, 11):
        for value in range(2 ** bitspace):
            got = battest.binary_relativity(value, bitspace)
            bits = [int(ch) for ch in format(value, "b").zfill(bitspace)]
            if [got.get(k, 0) for k in range(4)] != profile_of_bits(bits):
                ctx.oracle_fail("binary_relativity:histogram", f"binary_relativity({value}, {bitspace}) = {got}",
                                {"kind": "relmap", "value": value, "bitspace": bitspace})
            n += 1
    ctx.case(("exhaustive", "relmap"), True, n=n)
    ctx.count("exhaustive:relmap", n)
    for x in range(70000):
        if structs.iunpack(structs.ipack(x) + b"\x07") != (x, b"\x07"):
            ctx.oracle_fail("iunpack:roundtrip", f"ipack({x}) does not unpack", {"kind": "ipack", "x": x, "rest": "07"})
    ctx.case(("exhaustive", "ipack"), True, n=70000)
    ctx.count("exhaustive:ipack", 70000)


REQUIRED_BRANCHES = [
    # every branch of the hand-written (not translated) model definitions that carry a clause must be reached by the
    # correspondence run of EVERY quick run; a class that stays at zero is a loss of coverage, not a pass
    "branch:verifier:timeout", "branch:verifier:no-pending-cache:ignored", "branch:verifier:real-answer-counted",
    "branch:verifier:answer-byte-above-3:challenge-consumed", "branch:verifier:honesty-ok",
    "branch:verifier:honesty-wrong", "branch:verifier:completed", "branch:verifier:next:honesty",
    "branch:verifier:next:real", "branch:verifier:next:none-left",
    "branch:issuance:chunk-for-no-outstanding-request", "branch:issuance:duplicate-chunk",
    "branch:issuance:attestation-complete", "branch:issuance:partial",
    "branch:match:class-skipped", "branch:match:observed-exceeds-expected", "branch:match:ratio-multiplied",
    "scoring:result:full", "score:true:full", "score:true:partial", "score:other:zero",
    "decode:012:hit", "decode:012:none", "decode:byte:hit", "response:0", "response:1", "response:2",
    "response-to-undecodable:3", "encode:draws:1", "encode:draws:2", "bad-answer:KeyError", "ipack:empty-input:error",
    "range:outside:ValueError", "range:outside:diverged", "range:max-not-positive", "range:m2:nonneg",
    "range:cheater:order-shift", "range:cheater:only-x-fails", "range:cheater:only-y-fails",
    "range:boundary-challenge", "range:history:own-first:later:other", "range:aggregate:good-then-bad",
    "format:sha256_4", "format:sha256", "format:sha512",
    "channel:references:true-first", "channel:references:repeated-true-then-other", "channel:references:other-first",
    "config:history:mutate-dict-after-registration", "config:history:reuse-dict-for-second-schema",
    "config:history:other-manager-edits-its-default", "config:history:independent-dicts",
    "range:min-nonpositive:honest-proof-accepted", "config:history:register-same-name-again", "config:history:register-default-name-again", "config:verified:own-proof",
    "config:verified:outside-own-range", "session:prover-restarted-from-wallet-file",
]


def check_branch_coverage(ctx: Ctx):
    """exit 2 (infrastructure) when a branch class the design lists was not reached although nothing else failed"""
    missing = [k for k in REQUIRED_BRANCHES if not ctx.counts.get(k)]
    ctx.extra["required_branch_classes"] = {k: ctx.counts.get(k, 0) for k in REQUIRED_BRANCHES}
    import vlib
    known = {k.get("signature") for k in vlib.load_known_findings()
             if k.get("property") == PROPERTY and k.get("status") == "known"}
    new_failures = [f for f in ctx.failures if f["signature"] not in known]
    if missing and not new_failures and not ctx.disagreements and not ctx.broken:
        raise InfraError("coverage lost: these branch classes were not reached in this run: " + ", ".join(missing))


def run(ctx: Ctx):
    if ctx.replay_input is not None:
        return replay(ctx, ctx.replay_input)
    run_cases(ctx, ctx.scale(4000, 60000), ctx.model_ok)
    protocol_cases(ctx, ctx.scale(1, 8))
    if ctx.thorough():
        exhaustive_small(ctx)
    check_branch_coverage(ctx)


def search(ctx: Ctx, reason: str):
    run_cases(ctx, 8000, False)
    ok = ctx.model_ok
    ctx.model_ok = False
    try:
        protocol_cases(ctx, 0.4)      # a reduced batch (the minimum counts of every class): keeps a red run < 2 min
    finally:
        ctx.model_ok = ok


def replay(ctx: Ctx, rec: dict):
    from ipv8.attestation.wallet.primitives.structs import BonehPrivateKey
    from ipv8.attestation.wallet.primitives.value import FP2Value
    r = rec.get("replay", rec)
    kind = r.get("kind", "arith")
    batch = Batch()
    ctx.model_ok = False
    if kind == "exact":
        sk = BonehPrivateKey.unserialize(bytes.fromhex(r["sk"]))
        exact_round(ctx, batch, r["fmt"], bytes.fromhex(r["value"]), r["order_kind"], sk=sk, seed=r.get("seed"))
        print(f"replay: the recorded round of {r['fmt']} on value {r['value']} (recorded key and seed): "
              f"{'property FAILS' if ctx.failures else 'property holds'}")
        return
    if kind == "range":
        sk = BonehPrivateKey.unserialize(bytes.fromhex(r["sk"]))
        range_round(ctx, batch, sk=sk, scenario=r["scenario"], seed=r.get("seed"),
                    force={"split": r.get("split"), "bitspace": r.get("bitspace"), "bkind": r.get("bkind")})
        print(f"replay: the recorded range round (scenario {r['scenario']}, recorded key and seed): "
              f"{'property FAILS' if ctx.failures else 'property holds'}")
        return
    if kind == "community":
        community_round(ctx, batch, r["mode"], r.get("id_format", "id_metadata"), seed=r.get("seed"),
                        sk_hex=r.get("sk"), value=bytes.fromhex(r["value"]))
        print(f"replay: the recorded verification (mode {r['mode']}, seed {r.get('seed')}, recorded key and value): "
              f"{'property FAILS' if ctx.failures else 'property holds'}")
        return
    if kind == "session":
        issuance_session(ctx, batch, seed=r.get("seed"),
                         force={"answer_order": r.get("answer_order"), "chunks": r.get("chunks"),
                                "formats": r.get("formats"), "keys": r.get("keys"), "values": r.get("values")})
        print(f"replay: the recorded session (seed, answer order, chunk schedule, formats, keys and values as recorded): "
              f"{'property FAILS' if ctx.failures else 'property holds'}")
        return
    if kind == "config":
        for _ in range(6):
            schema_config_round(ctx)
        print(f"replay: the six schema-configuration histories: {'property FAILS' if ctx.failures else 'property holds'}")
        return
    if kind == "bad-answer":
        bad_answer_cases(ctx, 1, forced=r.get("r"))
        print(f"replay (bad answer byte): {'property FAILS' if ctx.failures else 'property holds'}")
        return
    if kind == "score":
        from ipv8.attestation.wallet.bonehexact import attestation as battest
        e, v = list(r["expected"]), list(r["observed"])
        c = battest.binary_relativity_certainty(dict(enumerate(e)), dict(enumerate(v)))
        ok = close(c, spec_certainty(e, v))
        print(f"replay: certainty of profile {e} on aggregate {v} = {c!r}, specified {float(spec_certainty(e, v))!r}: "
              f"property {'holds' if ok else 'FAILS'}")
        if not ok:
            ctx.oracle_fail("binary_relativity_certainty:formula", "replayed input still fails", r)
        ctx.case(("replay",), True)
        return
    if kind == "relmap":
        from ipv8.attestation.wallet.bonehexact import attestation as battest
        got = battest.binary_relativity(r["value"], r["bitspace"])
        bits = [int(ch) for ch in format(r["value"], "b").zfill(r["bitspace"])]
        ok = [got.get(k, 0) for k in range(4)] == profile_of_bits(bits[:r["bitspace"]] if len(bits) >= r["bitspace"] else bits)
        print(f"replay: binary_relativity({r['value']}, {r['bitspace']}) = {got}: property {'holds' if ok else 'FAILS'}")
        if not ok:
            ctx.oracle_fail("binary_relativity:histogram", "replayed input still fails", r)
        ctx.case(("replay",), True)
        return
    if kind == "ipack":
        from ipv8.attestation.wallet.primitives import structs
        rest = bytes.fromhex(r.get("rest", ""))
        ok = structs.iunpack(structs.ipack(r["x"]) + rest) == (r["x"], rest)
        print(f"replay: iunpack(ipack({r['x']}) + {len(rest)} bytes): property {'holds' if ok else 'FAILS'}")
        if not ok:
            ctx.oracle_fail("iunpack:roundtrip", "replayed input still fails", r)
        ctx.case(("replay",), True)
        return
    if kind == "encdec":
        from ipv8.attestation.wallet.primitives import boneh
        sk = BonehPrivateKey.unserialize(bytes.fromhex(r["sk"]))
        t2 = sk.n // sk.t1
        space = r.get("space", [0, 1, 2])
        want = next((x for x in space if (x - r["m"]) % t2 == 0), None)
        bad = 0
        for _ in range(20):
            d = boneh.decode(sk, space, boneh.encode(sk.public_key(), r["m"]))
            bad += d != want
        print(f"replay: 20 x decode(encode({r['m']})) with the recorded key in {space[:8]}: "
              f"property {'holds' if not bad else 'FAILS'}")
        if bad:
            ctx.oracle_fail("decode:plaintext", "replayed input still fails", r)
        ctx.case(("replay",), True)
        return
    if kind == "key":
        sk = BonehPrivateKey.unserialize(bytes.fromhex(r["sk"]))
        ok = check_key_hypotheses(ctx, sk, "replayed key")
        print(f"replay: order hypotheses of the recorded key: {'hold' if ok else 'FAIL'}")
        ctx.case(("replay",), True)
        return
    p, s = r["p"], tuple(r["self"])
    if r["op"] in PYOP:
        o = tuple(r["other"])
        res = tup(PYOP[r["op"]](FP2Value(p, *s), FP2Value(p, *o)))
        en, ed = expected(r["op"], s, o, p)
        ok = frac_eq(num(res, p), den(res, p), en, ed, p) and den(res, p) == ed
        print(f"replay: {r['op']} {s} {o} mod {p} -> {res}; field result {en}/{ed}; property {'holds' if ok else 'FAILS'}")
        if not ok:
            ctx.oracle_fail("replay", "replayed input still fails", r)
        ctx.case(("replay",), True)
