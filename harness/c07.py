"""
C07 — anonymized overlays never send from the node's own address.

Link to the code (all three re-checked on every run):
  * translator tools/gen_c07.py regenerates lean/Ipv8/C07/GenTunnel.lean (Circuit.state, Circuit.exit_flags, the filter
    of TunnelCommunity.find_circuits, the arguments TunnelEndpoint.send passes to find_circuits/create_circuit, queue
    capacity, initial values, prefix length, Community prefix composition) from the working tree;
  * correspondence: the real TunnelEndpoint over a recording inner Endpoint and a TunnelCommunity subclass that keeps the
    real find_circuits / send_data / send_packet and real Circuit / Hop / Peer objects (create_circuit and send_cell are
    stubbed and recorded) is run op by op against the Lean model (driver drv_c07):
      - exhaustive op sequences over fixed alphabets (queue capacity shrunk to 2 so that overflow is in scope),
      - random op sequences up to depth 200 with the real capacity (bursts reach overflow),
      - overlay scenarios: real Community subclasses (settings.anonymize True/False) constructed over the
        TunnelEndpoint and sending their own introduction requests / punctures / raw packets;
  * oracle (independent of the model, from the harness's own bookkeeping of what was configured): after every op
      - nothing reaches the wrapped endpoint's send() except the packet of the current op when its 22-byte prefix is
        not anonymized, and then exactly once, unmodified, with nothing tunnelled or queued;
      - every send_data call names a circuit that is registered, not closing, has all its goal hops, has goal_hops ==
        configured hops, whose last hop advertises PEER_FLAG_EXIT_IPV8, targets that circuit's first hop, carries
        origin ("0.0.0.0", 0) and an unmodified (destination, packet) pair that is the current packet or was queued;
      - the queue never exceeds its bound, and only holds packets accepted while their prefix was anonymized;
      - notify_listeners(from_tunnel) reaches exactly the listeners whose `anonymize` equals from_tunnel.
"""
from __future__ import annotations

import itertools
from collections import deque

import gen_c07
from vlib import Ctx

PROPERTY = "C07"
LEAN_TARGETS = ["Ipv8.C07.Props"]
PROPS_FILE = "Ipv8/C07/Props.lean"
DRIVER = "drv_c07"
RULE = ("op sequences over {send (3 overlays' prefixes, short/odd packets), set_anonymity, set_tunnel_community "
        "(attach with hops 0-3 / detach), circuit appears / gains a hop (flag sets with and without EXIT_IPV8) / closes / "
        "is removed, create_circuit succeeds or not, burst of n sends (n around the queue bound), add_listener, "
        "notify_listeners, overlay construction}: exhaustive over fixed alphabets to the stated depth (every sequence "
        "is one case) and random to depth 200; distinct = distinct op sequence; non-trivial = the sequence contains "
        "an anonymized send (tunnelled, queued or dropped)")
TRUSTED_BASE = [
    "tools/gen_c07.py: AST translation of Circuit.state / exit_flags, the find_circuits filter and the call arguments in TunnelEndpoint.send",
    "tools/gen_c07.py: translation of the control flow of TunnelEndpoint.send into a composition of model actions (GenSend.lean)",
    "hand-written action semantics (sendOver drain/fault, dequeAppend), set_anonymity / set_tunnel_community / notify_listeners and "
    "Community.__init__'s opt-in (Ipv8/C07/Model.lean), tied by the correspondence run",
    "the tunnel community is an environment: create_circuit is stubbed (registers a real Circuit or fails), send_cell is "
    "recorded; what send_data's cell does on the wire belongs to C04/C05",
    "collections.deque(maxlen=n) semantics (modelled as drop-from-the-left)",
]
ASSUMPTIONS = [
    "single-threaded use of TunnelEndpoint (no concurrent send); the model has no interleaving inside one call",
    "the opt-in needs a TunnelEndpoint (otherwise Community.__init__ only warns and the overlay sends raw)",
    "every send of an overlay goes through self.endpoint.send (sampled on five emitters of real Community objects)",
    "nobody but the modelled ops switches a prefix off (the theorems' hypothesis `hno`): an assumption about the whole "
    "code base, sampled through the real Community / TunnelCommunity load and unload paths only",
    "send_data raising is injected at send_cell; remove_circuit's close() happens when its @task body runs, one loop "
    "iteration after the call; circuit ids are not reused while the theorems' histories last",
    "an overlay's packets start with its 22-byte prefix (Community.ezr_pack / _ez_pack); anonymity is keyed on packet[:22]",
    "circuit ids are opaque: the stub hands them out sequentially, the real community draws them at random",
]

CTYPES = ["DATA", "IP_SEEDER", "RP_SEEDER", "RP_DOWNLOADER"]
PA = bytes([0, 2]) + bytes(range(0xA0, 0xA0 + 20))
PB = bytes([0, 2]) + bytes(range(0xB0, 0xB0 + 20))
PC = bytes([0, 2]) + bytes(range(0xC0, 0xC0 + 20))
TC_ID = bytes.fromhex("81ded07332bdc775aa5a46f96de9f8f390bbc9f3")     # TunnelCommunity.community_id (checked at run time)
ODD_KEYS = [PA[:21], PA + b"\x00", b"", PA[:4]]
FLAG_SETS = [[4], [4], [1, 4], [2, 4], [1, 2, 4], [4, 8], [2], [1], [1, 2], [], None, [8]]

_K = None


OBS_LOST = []      # white-box reads that no longer work on this tree (reported as a broken correspondence, never a crash)


def c_closing(c) -> bool:
    """is the circuit closing?  The private flag if it exists, else the public state"""
    try:
        return bool(getattr(c, "_clo" + "sing"))
    except AttributeError:
        if "Circuit closing flag" not in OBS_LOST:
            OBS_LOST.append("Circuit closing flag")
        return c.state == K().tunnel.CIRCUIT_STATE_CLOSING


def c_hops(c):
    """the verified hops: the private list if it exists, else the public read-only view"""
    try:
        return getattr(c, "_ho" + "ps")
    except AttributeError:
        if "Circuit hop list" not in OBS_LOST:
            OBS_LOST.append("Circuit hop list")
        return list(c.hops)


def hx(b: bytes) -> str:
    return b.hex() if b else "-"


def K():
    """lazy import of the code under test (so VERIF_REPO is honoured) and of the harness-side classes built on it"""
    global _K
    if _K is not None:
        return _K
    import asyncio
    import logging
    from types import SimpleNamespace

    from ipv8.keyvault.crypto import default_eccrypto
    from ipv8.messaging.anonymization import tunnel
    from ipv8.messaging.anonymization.community import TunnelCommunity
    from ipv8.messaging.anonymization.endpoint import TunnelEndpoint
    from ipv8.messaging.interfaces.endpoint import Endpoint, EndpointListener
    from ipv8.community import Community, CommunitySettings
    from ipv8.peer import Peer
    from ipv8.peerdiscovery.network import Network

    logging.disable(logging.CRITICAL)
    loop = asyncio.new_event_loop()     # never runs except to unload overlays; Futures/tasks need a current loop
    asyncio.set_event_loop(loop)

    class InjectedFault(RuntimeError):
        pass

    class RecEndpoint(Endpoint):
        """the wrapped ("raw socket") endpoint: real listener registry, recording send"""

        def __init__(self, log):
            super().__init__()
            self.log = log

        def send(self, socket_address, packet):
            self.log.append(("raw", socket_address, packet))

        def assert_open(self):
            pass

        def is_open(self):
            return True

        def get_address(self):
            return ("0.0.0.0", 0)

        async def open(self):
            return True

        def close(self):
            return None

        def reset_byte_counters(self):
            pass

    class Recording:
        """create_circuit registers a real Circuit (or fails); send_cell is recorded instead of encrypting and sending"""

        def create_circuit(self, goal_hops, ctype=tunnel.CIRCUIT_TYPE_DATA, exit_flags=None, required_exit=None,
                           info_hash=None):
            made = None
            if self.can_create:
                made = self.new_circuit(goal_hops, ctype)
            self.log.append(("create", goal_hops, None if exit_flags is None else list(exit_flags), ctype,
                             None if made is None else made.circuit_id))
            return made

        def new_circuit(self, goal_hops, ctype):
            c = tunnel.Circuit(self.next_id, goal_hops, ctype)
            # like send_initial_create: the first hop is known but unverified (Circuit.hop falls back to it)
            c.unverified_hop = tunnel.Hop(hop_peers[1 + self.next_id % 9])
            self.circuits[self.next_id] = c
            self.next_id += 1
            return c

        fail_after = None        # fault injection: this many more send_cell calls succeed, the next one raises

        def send_cell(self, target_addr, payload):
            if payload.msg_id != 1:      # only DataPayload is what send_data produces
                self.log.append(("cell", payload.msg_id))
                return
            if self.fail_after is not None:
                if self.fail_after == 0:
                    self.fail_after = None
                    raise InjectedFault("send_cell failed (injected serializer/crypto error)")
                self.fail_after -= 1
            self.log.append(("data", payload.circuit_id, target_addr, payload.dest_address, payload.org_address,
                             payload.data))

    class StubTC(Recording, TunnelCommunity):
        """keeps find_circuits / send_data / send_packet of the real class; circuits are real Circuit objects"""

        def __init__(self, log, inner):   # noqa: super().__init__ deliberately not called
            self.log = log
            self.circuits = {}
            self.endpoint = inner
            self.logger = logging.getLogger("StubTC")
            self.can_create = True
            self.next_id = 1

    class LifeTC(Recording, TunnelCommunity):
        """a fully constructed TunnelCommunity with DEFAULT settings (remove_tunnel_delay = 5 s): the real
        remove_circuit / on_destroy / do_circuits / do_remove / destroy_circuit drive the circuit lifecycle"""

        def __init__(self, log, settings):
            self.log = log
            self.can_create = True
            self.next_id = 1
            super().__init__(settings)

    from ipv8.messaging.anonymization.hidden_services import HiddenTunnelCommunity

    class LifeHTC(Recording, HiddenTunnelCommunity):
        """a fully constructed HiddenTunnelCommunity (what CommunicationManager.load looks for)"""

        def __init__(self, log, settings):
            self.log = log
            self.can_create = True
            self.next_id = 1
            super().__init__(settings)

    class Lis(EndpointListener):
        def __init__(self, ep, lid, log, anonymize):
            # EndpointListener.__init__ estimates LAN addresses (slow, irrelevant): set its fields directly
            self._use_main_thread = False
            self.endpoint = ep
            self._my_estimated_lan = ("0.0.0.0", 0)
            self.my_estimated_wan = ("0.0.0.0", 0)
            self.lid = lid
            self.log = log
            if anonymize is not None:
                self.anonymize = anonymize

        def on_packet(self, packet):
            self.log.append(("deliver", self.lid))

    import random as _random
    from ipv8.messaging.anonymization.community import TunnelSettings
    from ipv8.messaging.anonymization.payload import DataPayload
    _kr = _random.Random(0xC07)      # key material is fixed, so overlay packets are the same bytes in every run
    keys = [default_eccrypto.key_from_private_bin(b"LibNaCLSK:" + bytes(_kr.randrange(256) for _ in range(64)))
            for _ in range(4)]
    hop_peers = {k: Peer(keys[k % 4].pub(), (f"10.1.0.{k}", 2000 + k)) for k in range(1, 10)}
    dest = {k: (f"10.0.0.{k}", 1000 + k) for k in range(0, 10)}
    def cid_of(real, i):
        return real.unloaded_cids.get(i) or real.overlays[i][0].community_id

    _K = SimpleNamespace(asyncio=asyncio, cid_of=cid_of, tunnel=tunnel, TunnelEndpoint=TunnelEndpoint, RecEndpoint=RecEndpoint, StubTC=StubTC, Lis=Lis,
                         LifeTC=LifeTC, LifeHTC=LifeHTC, TunnelSettings=TunnelSettings, DataPayload=DataPayload,
                         InjectedFault=InjectedFault,
                         hop_peers=hop_peers, dest=dest, rdest={v: k for k, v in dest.items()},
                         rhop={p.address: k for k, p in hop_peers.items()}, keys=keys, Peer=Peer,
                         EXIT_IPV8=tunnel.PEER_FLAG_EXIT_IPV8, InvalidStateError=asyncio.InvalidStateError,
                         Community=Community, CommunitySettings=CommunitySettings, Network=Network, loop=loop,
                         my_peer=Peer(keys[0]),
                         CT=[tunnel.CIRCUIT_TYPE_DATA, tunnel.CIRCUIT_TYPE_IP_SEEDER, tunnel.CIRCUIT_TYPE_RP_SEEDER,
                             tunnel.CIRCUIT_TYPE_RP_DOWNLOADER])
    return _K


def generate(ctx: Ctx):
    src, meta = gen_c07.translate()
    ctx.extra["translated"] = meta
    # the control flow of TunnelEndpoint.send as a composition of the model's actions: the theorems are about THIS
    return [("Ipv8/C07/GenTunnel.lean", src), ("Ipv8/C07/GenSend.lean", gen_c07.translate_send())]


class Real:
    """the real objects plus the harness's own bookkeeping of what was configured (for the oracle)"""

    def __init__(self, cap=None, make_tc=None, dispatcher=False):
        k = K()
        self.k = k
        self.log = []
        self._my_peer = None        # created on first use (a Peer per history: handlers write to my_peer.address)
        if dispatcher:
            # what ipv8_service builds by default: a dual-stack DispatcherEndpoint; its two sockets are recorders
            from ipv8.messaging.interfaces.dispatcher.endpoint import DispatcherEndpoint
            self.inner = DispatcherEndpoint([])
            self.inner.interfaces = {"UDPIPv4": k.RecEndpoint(self.log), "UDPIPv6": k.RecEndpoint(self.log)}
            self.inner.interface_order = ["UDPIPv4", "UDPIPv6"]
            self.inner._preferred_interface = self.inner.interfaces["UDPIPv4"]
            self.reg = self.inner.interfaces["UDPIPv4"]      # listeners are registered with every interface alike
        else:
            self.inner = k.RecEndpoint(self.log)
            self.reg = self.inner
        self.dispatcher = dispatcher
        self.ep = k.TunnelEndpoint(self.inner)
        q = getattr(self.ep, "send_queue", None)
        self.bound = q.maxlen if isinstance(q, deque) else None
        if cap is not None and isinstance(q, deque) and q.maxlen is not None:
            self.ep.send_queue = deque(maxlen=cap)      # small-scope runs: same container type, smaller bound
            self.bound = cap
        self.tc = make_tc(self.log) if make_tc else k.StubTC(self.log, self.inner)
        self.torn = {}              # circuit id -> virtual time at which its removal was requested (destroy sent)
        self.tc_prefix = None       # prefix of a tunnel community constructed ON this endpoint (its own, plain, traffic)
        self.real_tc = False
        self.helpers = []           # peer-side communities used to craft inbound packets
        self.outside = []           # what was emitted while no TunnelEndpoint.send was in progress (bypass detection)
        self.service = None         # an ipv8_service.IPv8 instance that built the endpoint stack itself
        self.explicit = {}          # prefix -> True if its current anonymity was set by an explicit set_anonymity(…, True)
        self.unloaded_cids = {}
        self.stale = set()          # prefixes still switched on although no loaded overlay asks for anonymity any more
        self.plis_src = None        # where prefix listeners are registered when no TunnelEndpoint was built
        # bookkeeping (never read back from the endpoint)
        self.anon = {}
        self.att = False
        self.hops = 0
        self.accepted = set()       # (dest, packet) accepted while anonymized and not yet tunnelled
        self.listeners = []
        self.overlays = []          # (real Community object, asked for anonymity)
        self.fail = None            # first oracle failure (sig, what)
        self.nontrivial = False

    @property
    def my_peer(self):
        if self._my_peer is None:
            self._my_peer = self.k.Peer(self.k.keys[0])
        return self._my_peer

    # -- oracle ------------------------------------------------------------------------------------------------
    def _bad(self, sig, what):
        if self.fail is None:
            self.fail = (sig, what)

    def check_quiet(self, opname):
        """ops other than send/notify must not emit anything"""
        for e in self.log:
            if e[0] == "raw" and self.tc_prefix is not None and e[2][:22] == self.tc_prefix \
                    and not self.anon.get(self.tc_prefix, False):
                continue        # the tunnel community's own control traffic (destroy, …): a plain overlay
            if e[0] == "raw":
                self._bad(f"TunnelEndpoint.{opname}:raw-leak" if (e[1], e[2]) in self.accepted else
                          f"TunnelEndpoint.{opname}:spurious-raw-send",
                          f"{opname} handed {e[2].hex()} for {e[1]} to the wrapped endpoint's send()")
            elif e[0] == "data":
                # somebody other than TunnelEndpoint.send hands a packet to send_data (e.g. a flush of the queue when a
                # circuit completes): allowed by the property iff that circuit is usable and the packet was waiting
                _, cid, target, dst, org, data = e
                c, why = self.circuit_ok(cid)
                if not self.att:
                    why = why or "no tunnel community is attached to the endpoint"
                if why:
                    self._bad(f"TunnelEndpoint.send_queue flushed by {opname}:bad-circuit",
                              f"{opname} handed the queued packet {data.hex()[:48]}… to send_data over circuit {cid}: {why} "
                              f"(configured length {self.hops})")
                elif (dst, data) not in getattr(self, "queue_before", []):
                    self._bad(f"TunnelEndpoint.send_queue flushed by {opname}:altered-packet",
                              f"{opname} called send_data with ({dst}, {data.hex()[:48]}…), which was not waiting in the queue")
                elif tuple(org) != ("0.0.0.0", 0):
                    self._bad(f"TunnelEndpoint.send_queue flushed by {opname}:origin", f"send_data origin {org}")
        self.check_queue()

    def check_queue(self):
        q = self.ep.send_queue
        if self.bound is None:
            self._bad("TunnelEndpoint.send_queue:unbounded", "send_queue has no maxlen: the queue is not bounded")
        elif len(q) > self.bound:
            self._bad("TunnelEndpoint.send_queue:bound", f"queue holds {len(q)} > bound {self.bound}")

    def circuit_ok(self, cid):
        c = self.tc.circuits.get(cid)
        if c is None:
            return None, "circuit is not registered"
        if cid in self.torn:
            if self.torn[cid] < 0:
                return c, f"Circuit.close() was called on it; state reported: {c.state}"
            return c, (f"circuit is being torn down: remove_circuit was requested at t={self.torn[cid]:.2f} (destroy sent "
                       f"if asked for), its entry is merely waiting for remove_tunnel_delay; state reported: {c.state}")
        if c_closing(c):
            return c, "circuit is closing"
        if len(c_hops(c)) < c.goal_hops:
            return c, f"circuit is still extending ({len(c_hops(c))}/{c.goal_hops} hops)"
        if c.goal_hops != self.hops:
            return c, f"circuit has goal_hops {c.goal_hops}, configured length is {self.hops}"
        if not c_hops(c) or self.k.EXIT_IPV8 not in (c_hops(c)[-1].flags or []):
            return c, "last hop does not advertise PEER_FLAG_EXIT_IPV8"
        if c.ctype != self.k.CT[0]:
            return c, f"circuit type is {c.ctype}"
        return c, None

    # -- ops ---------------------------------------------------------------------------------------------------
    def send(self, a, packet, owner_wants=False):
        k = self.k
        addr = k.dest[a]
        # "asked for anonymity": the prefix was opted in / switched on, or the emitting overlay itself asked for it
        # (an explicit set_anonymity(prefix, False) in the history overrides the opt-in, as the property's "toggled")
        is_anon = bool(self.anon.get(packet[:22], owner_wants))
        before = list(self.ep.send_queue)
        self.log.clear()
        exc = None
        try:
            type(self.ep).send(self.ep, addr, packet)    # the class's method (an instance-level tap may be installed)
        except Exception as e:  # noqa: BLE001
            exc = type(e).__name__
        after = list(self.ep.send_queue)
        evs = []
        raws = [e for e in self.log if e[0] == "raw"]
        datas = [e for e in self.log if e[0] == "data"]
        if is_anon and not owner_wants and packet[:22] in self.stale and raws != [("raw", addr, packet)]:
            self._bad("Community.unload:stale-opt-in",
                      f"packet {packet.hex()[:60]}… with a prefix under which NO loaded overlay asks for anonymity any more "
                      f"(the anonymized overlay was unloaded, nobody switched the prefix on explicitly) was "
                      f"{'tunnelled' if datas else 'queued' if (addr, packet) in after else 'dropped'} instead of being sent "
                      "from the socket: an overlay that did not ask for anonymity is affected")
        if not is_anon:
            if raws != [("raw", addr, packet)] or datas or after != before or exc:
                self._bad("TunnelEndpoint.send:plain-affected",
                          f"plain packet {packet.hex()} to {addr}: raw sends {[(r[1], r[2].hex()) for r in raws]}, "
                          f"{len(datas)} send_data calls, queue {len(before)}->{len(after)}, exception {exc}")
        else:
            self.nontrivial = True
            self.accepted.add((addr, packet))
            for r in raws:
                self._bad("TunnelEndpoint.send:raw-leak",
                          f"anonymized send handed {r[2].hex()} for {r[1]} to the wrapped endpoint's send() "
                          f"(tunnel community {'attached' if self.att else 'absent'}, {len(self.tc.circuits)} circuits)")
            inputs = before + [(addr, packet)]
            unused = list(inputs)
            for d in datas:
                _, cid, target, dst, org, data = d
                c, why = self.circuit_ok(cid)
                if not self.att:
                    why = why or "no tunnel community is attached"
                if why:
                    self._bad("TunnelEndpoint.send:bad-circuit", f"send_data over circuit {cid}: {why}")
                elif target != c_hops(c)[0].peer.address:
                    self._bad("TunnelEndpoint.send:wrong-first-hop", f"send_data targets {target}, first hop is "
                                                                    f"{c_hops(c)[0].peer.address}")
                if (dst, data) in unused:
                    unused.remove((dst, data))
                elif (dst, data) in inputs:
                    self._bad("TunnelEndpoint.send:duplicated-packet", f"send_data carries ({dst}, {data.hex()}) twice")
                else:
                    self._bad("TunnelEndpoint.send:altered-packet", f"send_data carries ({dst}, {data.hex()}) which was "
                                                                   "neither sent now nor queued")
                if tuple(org) != ("0.0.0.0", 0):
                    self._bad("TunnelEndpoint.send:origin", f"send_data origin {org} reveals an address")
            # "held in a bounded queue UNTIL such a circuit exists": if a circuit that is ready in the property's sense
            # (registered, not being torn down, all hops, configured length, IPv8 exit) exists, the packet must go out
            if self.att and not datas and not exc:
                usable = [cid for cid in self.tc.circuits if self.circuit_ok(cid)[1] is None]
                if usable:
                    self._bad("TunnelEndpoint.send:ready-circuit-ignored",
                              f"anonymized packet was {'queued' if (addr, packet) in after else 'dropped'} although circuit "
                              f"{usable[0]} is READY with the configured length {self.hops} and an IPv8 exit "
                              f"(circuits in dict order: "
                              f"{[(c.circuit_id, 'closing' if c_closing(c) else f'{len(c_hops(c))}/{c.goal_hops}') for c in self.tc.circuits.values()]})")
            for x in after:
                if x not in inputs:
                    self._bad("TunnelEndpoint.send:queue-content", f"queue holds {x} which was never accepted")
        self.check_queue()
        # events, in call order; drops derived from the accounting
        for e in self.log:
            if e[0] == "raw":
                evs.append(f"raw:{k.rdest.get(e[1], '?')}:{hx(e[2])}")
            elif e[0] == "data":
                evs.append(f"data:{e[1]}:{k.rhop.get(e[2], 'none' if e[2] is None else '?')}:"
                           f"{k.rdest.get(e[3], '?')}:{hx(e[5])}")
            elif e[0] == "create":
                fl = "none" if e[2] is None else "[" + ",".join(map(str, e[2])) + "]"
                evs.append(f"create:{e[1]}:{fl}:{'none' if e[4] is None else e[4]}")
        if is_anon:
            gone = list(before) + [(addr, packet)]
            for x in [(d[3], d[5]) for d in datas] + after:
                if x in gone:
                    gone.remove(x)
            for x in gone:
                what = "fail" if exc == "InjectedFault" else ("drop:o" if self.att else "drop:n")
                evs.append(f"{what}:{k.rdest.get(x[0], '?')}:{hx(x[1])}")
        if exc and exc != "InjectedFault":
            evs.append(f"raised:{exc}")
        self.last_counts = (len(raws), len(datas), sum(1 for e in self.log if e[0] == "create"),
                            sum(1 for e in evs if e.startswith(("drop:", "fail:"))))
        self.log.clear()
        return (" ".join(evs) if evs else "-") + f" q={len(after)}"

    def quiet(self, name, fn):
        self.log.clear()
        self.queue_before = list(self.ep.send_queue)
        exc = None
        try:
            fn()
        except Exception as e:  # noqa: BLE001
            exc = type(e).__name__
        self.check_quiet(name)
        return (f"raised:{exc}" if exc else "-") + f" q={len(self.ep.send_queue)}"

    def circuit_at(self, idx):
        cs = list(self.tc.circuits.values())
        return cs[idx] if 0 <= idx < len(cs) else None

    def adopt(self, ov, want):
        """a loaded overlay: remember what its settings asked for, record what reaches its on_packet"""
        lid = 1000 + len(self.overlays)
        self.overlays.append((ov, want))
        if want:
            self.anon[ov.get_prefix()] = True
            self.stale.discard(ov.get_prefix())
        ov._c07_lid = lid
        real_on_packet = ov.on_packet

        def on_packet(packet, *a, _lid=lid, _real=real_on_packet, **kw):
            self.log.append(("deliver", _lid))
            return _real(packet, *a, **kw)
        ov.on_packet = on_packet

    def expected_receivers(self, from_tunnel, packet):
        """who must be offered a packet of that origin: the global listeners and the loaded overlays with the packet's
        prefix whose `anonymize` (as asked for in their settings / given to the listener) equals from_tunnel, once each"""
        want = [l.lid for l in self.listeners if bool(getattr(l, "anonymize", False)) == from_tunnel]
        for i, (ov, asked) in enumerate(self.overlays):
            if ov is not None and ov.get_prefix() == packet[:22] and bool(asked) == from_tunnel:
                want.append(1000 + i)
        return sorted(want)

    def deliver(self, from_tunnel, packet, action, sig):
        self.log.clear()
        exc = None
        try:
            action()
        except Exception as e:  # noqa: BLE001
            exc = type(e).__name__
        got = sorted(e[1] for e in self.log if e[0] == "deliver")
        want = self.expected_receivers(from_tunnel, packet)
        if got != want:
            missing = [x for x in want if x not in got]
            extra = [x for x in got if x not in want or got.count(x) > want.count(x)]
            self._bad(sig, f"packet with prefix {packet[:22].hex()} and from_tunnel={from_tunnel} was offered to {got}, "
                           f"expected {want}"
                           + (f"; never reached {['overlay %d' % (m - 1000) if m >= 1000 else 'listener %d' % m for m in missing]}"
                              if missing else "") + (f"; wrongly or repeatedly reached {sorted(set(extra))}" if extra else "")
                           + f" (global listeners {[(l.lid, getattr(l, 'anonymize', None)) for l in self.listeners]}, overlays "
                             f"{[(1000 + i, ov.get_prefix().hex()[:8], a) for i, (ov, a) in enumerate(self.overlays) if ov is not None]})")
        if any(e[0] in ("raw", "data") for e in self.log):
            self._bad(sig.split(":")[0] + ":sends", "delivering a packet sent something")
        evs = [f"deliver:{g}" for g in got] + ([f"raised:{exc}"] if exc else [])
        self.log.clear()
        return (" ".join(evs) if evs else "-") + f" q={len(self.ep.send_queue)}"

    def do(self, op):
        """op: tuple as produced by the generators; returns the canonical reply (same format as the driver)"""
        k = self.k
        kind = op[0]
        if kind == "send":
            return self.send(op[1], op[2])
        if kind == "anon":
            self.anon[op[1]] = op[2]
            self.explicit[op[1]] = bool(op[2])
            self.stale.discard(op[1])
            return self.quiet("set_anonymity", lambda: self.ep.set_anonymity(op[1], op[2]))
        if kind == "settc":
            self.att, self.hops = op[1], op[2]
            if op[1]:
                return self.quiet("set_tunnel_community", lambda: self.ep.set_tunnel_community(self.tc, op[2]))
            if op[2] == 1:   # detaching the way the code base does it: hops takes its default
                return self.quiet("set_tunnel_community", lambda: self.ep.set_tunnel_community(None))
            return self.quiet("set_tunnel_community", lambda: self.ep.set_tunnel_community(None, op[2]))
        if kind == "newc":
            return self.quiet("env", lambda: self.tc.new_circuit(op[1], k.CT[op[2]]))
        if kind == "hop":
            c = self.circuit_at(op[1])

            def add():
                if c is not None:
                    try:
                        c.add_hop(k.tunnel.Hop(k.hop_peers[op[2]], flags=None if op[3] is None else list(op[3])))
                    except k.InvalidStateError:
                        pass    # `ready` future already resolved (hop beyond goal_hops); the hop is appended anyway
            return self.quiet("env", add)
        if kind == "created":
            # the LAST hop of a circuit is verified through the real TunnelCommunity._ours_on_created_extended (a CREATED /
            # EXTENDED answer with a valid handshake), not by the harness appending to the hop list
            c = self.circuit_at(op[1])
            if c is None or not self.real_tc or len(c_hops(c)) != c.goal_hops - 1 or c_closing(c):
                return self.do(("hop",) + tuple(op[1:]))
            from ipv8.messaging.anonymization.caches import RetryRequestCache
            from ipv8.messaging.anonymization.payload import CreatedPayload
            tc = self.tc

            def answer():
                hop = k.tunnel.Hop(k.hop_peers[op[2]], flags=None if op[3] is None else list(op[3]))
                hop.dh_secret, hop.dh_first_part = tc.crypto.generate_diffie_secret()
                c.unverified_hop = hop
                if tc.request_cache.has(RetryRequestCache, c.circuit_id):
                    tc.request_cache.pop(RetryRequestCache, c.circuit_id)
                cache = RetryRequestCache(tc, c, [], 1, tc.send_initial_create, tc.settings.next_hop_timeout)
                tc.request_cache.add(cache)
                _, y, auth = tc.crypto.generate_diffie_shared_secret(hop.dh_first_part, k.keys[op[2] % 4])
                tc._ours_on_created_extended(c.circuit_id, CreatedPayload(c.circuit_id, cache.packet_identifier, y, auth, b""))
            return self.quiet("TunnelCommunity._ours_on_created_extended", answer)
        if kind == "close":
            c = self.circuit_at(op[1])
            if c is not None:
                self.torn.setdefault(c.circuit_id, -1.0)       # Circuit.close() was called: no longer usable
            reason = () if len(op) > 2 and op[2] else ("harness",)   # close() has a default (empty) reason text
            return self.quiet("env", lambda: c.close(*reason) if c is not None else None)
        if kind == "rm":
            c = self.circuit_at(op[1])
            return self.quiet("env", lambda: self.tc.circuits.pop(c.circuit_id) if c is not None else None)
        if kind == "cancreate":
            self.tc.can_create = op[1]
            return f"- q={len(self.ep.send_queue)}"
        if kind == "listener":
            lis = k.Lis(self.inner, op[1], self.log, op[2])
            self.listeners.append(lis)
            return self.quiet("add_listener", lambda: self.ep.add_listener(lis))
        if kind == "notify":
            return self.deliver(op[1], op[2], lambda: self.ep.notify_listeners((k.dest[1], op[2]), from_tunnel=op[1]),
                                "TunnelEndpoint.notify_listeners:filter")
        if kind == "burst":
            n, a, pfx, base = op[1:]
            tot = [0, 0, 0, 0]
            for i in range(n):
                self.send(a, pfx + (base + i).to_bytes(2, "big"))
                for j in range(4):
                    tot[j] += self.last_counts[j]
            return f"raw={tot[0]} data={tot[1]} create={tot[2]} drop={tot[3]} q={len(self.ep.send_queue)}"
        if kind == "dump":
            return self.dump()
        if kind == "fail":
            self.tc.fail_after = op[1]
            return f"- q={len(self.ep.send_queue)}"
        if kind == "tcinit":
            # the real attach path: a TunnelCommunity constructed ON the TunnelEndpoint (as ipv8_service does)
            made = []

            def construct():
                tc = k.LifeTC(self.log, k.TunnelSettings(my_peer=self.my_peer, endpoint=self.ep, network=k.Network()))
                tc.cancel_pending_task("do_circuits")
                tc.cancel_pending_task("do_ping")
                made.append(tc)
            old_prefix = self.tc_prefix
            self.tc_prefix = bytes([0]) + k.LifeTC.version + k.LifeTC.community_id   # its own, plain, traffic
            reply = self.quiet("TunnelCommunity.__init__", construct)
            if not made:
                self.tc_prefix = old_prefix
            if made:
                self.tc, self.real_tc = made[0], True
                self.tc_prefix = made[0].get_prefix()
                self.att, self.hops = True, 1        # attached with the default length
                self.anon.pop(self.tc_prefix, None)  # its own traffic is plain by construction
            return reply
        if kind == "tcunload":
            # the production detach: TunnelCommunity.unload (removes its circuits, lets go of the endpoint)
            self.att, self.hops = False, 1
            self.real_tc = False
            return self.quiet("TunnelCommunity.unload", lambda: k.loop.run_until_complete(self.tc.unload()))
        if kind == "unload":
            if op[1] >= len(self.overlays):
                return f"- q={len(self.ep.send_queue)}"
            ov, asked = self.overlays[op[1]]
            self.overlays[op[1]] = (None, False)
            if ov is not None:
                self.unloaded_cids[op[1]] = ov.community_id
            if ov is not None and asked:
                pfx = ov.get_prefix()
                if not self.explicit.get(pfx) and self.anon.get(pfx) and not any(
                        o is not None and a and o.get_prefix() == pfx for o, a in self.overlays):
                    self.stale.add(pfx)      # the last overlay that asked for anonymity under this prefix is gone
            return self.quiet("Community.unload", lambda: k.loop.run_until_complete(ov.unload())) if ov else \
                f"- q={len(self.ep.send_queue)}"
        if kind == "tcdata":
            # inbound DATA cell from the first hop of circuit idx carrying another overlay's packet: the real
            # TunnelCommunity.on_data, which ends in notify_listeners((origin, data), from_tunnel=True)
            c = self.circuit_at(op[1])
            cell = b"\x00" * 23 + self.tc.serializer.pack_serializable(
                k.DataPayload(c.circuit_id, ("0.0.0.0", 0), k.dest[1], op[2]))
            return self.deliver(True, op[2], lambda: self.tc.on_data(c_hops(c)[0].peer.address, cell, c.circuit_id),
                                "TunnelCommunity.on_data:delivery")
        if kind == "overlay":
            # a real Community subclass constructed over the TunnelEndpoint; the oracle's notion of "asked for
            # anonymity" is the settings object handed in, never what the endpoint recorded
            cid, want = op[1], op[2]
            cls = type("Overlay" + cid.hex()[:6], (k.Community,), {"community_id": cid})
            made = []

            def construct():
                made.append(cls(k.CommunitySettings(my_peer=self.my_peer, endpoint=self.ep, network=k.Network(),
                                                    anonymize=want)))
            reply = self.quiet("Community.__init__", construct)
            if made:
                self.adopt(made[0], want)
            return reply
        if kind == "pseudonym":
            # CommunicationManager.load: the pseudonym's identity and attestation overlays on a TunnelEndpoint of their own
            # (produce_anonymized_endpoint; only the UDP socket is replaced by a recorder), anonymized iff a
            # HiddenTunnelCommunity runs in the service
            import tempfile

            import ipv8_service
            from ipv8.attestation.communication_manager import CommunicationManager
            from ipv8.messaging.anonymization.hidden_services import HiddenTunnelSettings
            with_tunnels = op[1]
            workdir = tempfile.mkdtemp(prefix="c07_pseudonym_")
            log = self.log

            class RecUDP(k.RecEndpoint):
                def __init__(self_, port=0, ip="0.0.0.0"):     # noqa: N805
                    super().__init__(log)
            made = {}

            def construct():
                orig_udp = ipv8_service.UDPEndpoint
                ipv8_service.UDPEndpoint = RecUDP
                try:
                    config = {"keys": [], "logger": {"level": "CRITICAL"}, "walker_interval": 0.5,
                              "working_directory": workdir, "overlays": []}
                    ipv8 = ipv8_service.IPv8(config, endpoint_override=k.RecEndpoint(log))
                    made["ipv8"] = ipv8
                    if with_tunnels:
                        st = HiddenTunnelSettings(my_peer=self.my_peer, endpoint=ipv8.endpoint, network=k.Network())
                        st.ipv8 = ipv8
                        self.tc_prefix = bytes([0]) + k.LifeHTC.version + k.LifeHTC.community_id
                        tunnels = k.LifeHTC(log, st)
                        tunnels.cancel_pending_task("do_circuits")
                        tunnels.cancel_pending_task("do_ping")
                        ipv8.overlays.append(tunnels)
                        made["tunnels"] = tunnels
                    manager = CommunicationManager(ipv8, pseudonym_folder=workdir + "/pseudonyms", working_directory=":memory:")
                    made["manager"] = manager
                    made["channel"] = k.loop.run_until_complete(manager.load("alice"))
                finally:
                    ipv8_service.UDPEndpoint = orig_udp
            reply = self.quiet("CommunicationManager.load", construct)
            self.pseudo = (made, workdir)
            if "channel" in made:
                ch = made["channel"]
                self.ep = ch.identity_overlay.endpoint
                self.inner = self.reg = self.ep.endpoint
                q = getattr(self.ep, "send_queue", None)
                self.bound = q.maxlen if isinstance(q, deque) else None
                if with_tunnels:
                    self.tc = made["tunnels"]
                self.att, self.hops = bool(with_tunnels), 1
                # when a hidden tunnel community runs, the pseudonym as a whole is meant to be anonymized
                self.adopt(ch.identity_overlay, bool(with_tunnels))
                self.adopt(ch.attestation_overlay, bool(with_tunnels))
            return reply
        if kind == "service":
            # ipv8_service.IPv8.__init__ builds the endpoint stack and loads the configured overlays
            import base64

            from ipv8_service import IPv8
            stats, ovs = op[1], op[2]
            classes = {f"SvcOverlay{i}": type(f"SvcOverlay{i}", (k.Community,), {"community_id": cid})
                       for i, (cid, _) in enumerate(ovs)}
            config = {"keys": [{"alias": "k", "generation": "curve25519", "file": None,
                                "bin": base64.b64encode(k.keys[0].key_to_bin()).decode()}],
                      "logger": {"level": "CRITICAL"}, "walker_interval": 0.5, "working_directory": ".",
                      "overlays": [{"class": f"SvcOverlay{i}", "key": "k", "walkers": [], "bootstrappers": [],
                                    "initialize": ({} if want is None else {"anonymize": want}), "on_start": []}
                                   for i, (_, want) in enumerate(ovs)]}
            made = []
            reply = self.quiet("IPv8.__init__", lambda: made.append(
                IPv8(config, endpoint_override=self.inner, enable_statistics=stats, extra_communities=classes)))
            names = []
            if made:
                self.service = made[0]
                e = made[0].endpoint
                while e is not self.inner and hasattr(e, "endpoint"):
                    names.append(type(e).__name__)
                    if isinstance(e, k.TunnelEndpoint):
                        self.ep = e                       # the TunnelEndpoint the service built is the one under test
                        q = getattr(e, "send_queue", None)
                        self.bound = q.maxlen if isinstance(q, deque) else None
                    e = e.endpoint
                if "TunnelEndpoint" not in names:
                    self.plis_src = made[0].endpoint
                for ov, (_, want) in zip(made[0].overlays, ovs):
                    self.adopt(ov, bool(want))
            return reply.replace("-", "wrappers=[" + ",".join(reversed(names)) + "]", 1) if made else reply
        raise ValueError(kind)

    def close(self):
        loop = self.k.loop
        if getattr(self, "pseudo", None):
            import shutil
            made, workdir = self.pseudo
            self.pseudo = None
            try:
                if "channel" in made:
                    loop.run_until_complete(made["manager"].unload("alice"))
                if "tunnels" in made:
                    loop.run_until_complete(made["tunnels"].unload())
                if "ipv8" in made:
                    loop.run_until_complete(made["ipv8"].stop())
            finally:
                shutil.rmtree(workdir, ignore_errors=True)
            self.overlays = []
        if self.service is not None:
            loop.run_until_complete(self.service.stop())
            self.service, self.overlays = None, []
        for ov, _ in self.overlays:
            if ov is not None:
                loop.run_until_complete(ov.unload())
        for h in self.helpers:
            loop.run_until_complete(h.unload())
        if self.real_tc and not loop.is_closed() and self.k.asyncio.get_event_loop_policy().get_event_loop() is loop:
            loop.run_until_complete(self.tc.unload())
        self.overlays, self.helpers = [], []

    def emit(self, op):
        """("emit", overlay index, how, address index, byte): the overlay produces traffic through its own code.
        TunnelEndpoint.send is wrapped by a pass-through tap, so every call is checked like a harness `send`; anything
        that reaches the wrapped endpoint or send_data OUTSIDE such a call bypassed the TunnelEndpoint.
        Returns the (send op, reply) pairs, for the model."""
        k = self.k
        _, idx, how, a, byte = op
        ov, want = self.overlays[idx]
        if ov is None:
            return []
        out = []
        outside = []

        def tap(address, packet):
            outside.extend(self.log)
            if address not in k.rdest:              # an address the overlay came up with itself
                n = 100 + len(k.rdest)
                k.rdest[address], k.dest[n] = n, address
            sop = ("send", k.rdest[address], packet)
            out.append((sop, self.send(k.rdest[address], packet, owner_wants=want)))
        self.log.clear()
        self.ep.send = tap
        exc = None
        try:
            if how == "walk_to":
                ov.walk_to(k.dest[a])
            elif how == "send_intro":
                ov.send_introduction_request(k.Peer(k.keys[1].pub(), k.dest[a]))
            elif how == "puncture":
                ov.endpoint.send(k.dest[a], ov.create_puncture(k.dest[1], k.dest[2], 7))
            elif how == "ez_send":
                # an application message through EZPackOverlay.ez_send / _ez_senda
                from ipv8.messaging.payload import PuncturePayload
                ov.ez_send(k.Peer(k.keys[1].pub(), k.dest[a]), PuncturePayload(k.dest[1], k.dest[2], byte))
            elif how == "punct_req":
                # an incoming puncture request makes the overlay send a puncture (Community.on_puncture_request)
                peer_ov = type(ov)(k.CommunitySettings(my_peer=k.Peer(k.keys[2]), endpoint=k.RecEndpoint([]),
                                                       network=k.Network()))
                self.helpers.append(peer_ov)
                ov.on_packet((k.dest[a], peer_ov.create_puncture_request(k.dest[1], k.dest[a], byte)))
            elif how == "intro_resp":
                # a (new-style) introduction response arrives; `byte` picks the variant: the responder advertises a WAN
                # address of another address family (the "switch interfaces" branch sends a puncture request) and/or
                # introduces a third peer (a puncture request / walk goes to the introduced address)
                from ipv8.messaging.interfaces.udp.endpoint import UDPv4Address, UDPv6Address
                remote = type(ov)(k.CommunitySettings(my_peer=k.Peer(k.keys[2]), endpoint=k.RecEndpoint([]),
                                                      network=k.Network()))
                self.helpers.append(remote)
                src = UDPv4Address(*k.dest[a])
                if byte & 1:
                    remote.my_estimated_wan = UDPv6Address("2001:db8::9", 9000)
                    remote.my_estimated_lan = UDPv4Address("192.168.1.9", 9000)
                    ov.my_peer.address = UDPv6Address("2001:db8::1", 7000)    # an own address of that family is known
                if byte & 2:
                    third = k.Peer(k.keys[3].pub(), UDPv4Address(*k.dest[(a + 1) % 6]))
                    remote.network.add_verified_peer(third)
                    remote.network.discover_services(third, [ov.community_id])
                response = remote.create_introduction_response(UDPv4Address("127.0.0.1", 7000), src, 1 + byte,
                                                               new_style=bool(byte & 1) or bool(byte & 4))
                ov.on_packet((src, response))
            elif how == "bootstrap":
                # a UDPBroadcastBootstrapper announces the overlay on the LAN from a socket of its own, on the node's
                # address: nothing of an anonymized overlay may go out that way
                from ipv8.bootstrapping.udpbroadcast import bootstrapper as bmod
                own = []
                o_open, o_send = bmod.BroadcastBootstrapEndpoint.open, bmod.BroadcastBootstrapEndpoint.send

                async def fake_open(_self):
                    return True
                bmod.BroadcastBootstrapEndpoint.open = fake_open
                bmod.BroadcastBootstrapEndpoint.send = lambda _self, _ad, d: own.append(d)
                try:
                    bs = bmod.UDPBroadcastBootstrapper()
                    k.loop.run_until_complete(bs.initialize(ov))
                    if bs.endpoint is not None:
                        bs.keep_alive(ov)
                finally:
                    bmod.BroadcastBootstrapEndpoint.open, bmod.BroadcastBootstrapEndpoint.send = o_open, o_send
                mine = [d for d in own if ov.get_prefix() in d]
                if want and mine:
                    self._bad("UDPBroadcastBootstrapper.initialize:own-socket-beacon",
                              f"{len(mine)} datagrams naming the anonymized overlay's prefix {ov.get_prefix().hex()} were "
                              "broadcast from the bootstrapper's own socket on the node's address")
            elif how == "respond":
                # an introduction request arrives (from the socket or the tunnel, the handler is the same): the overlay
                # answers with an introduction response (and possibly a puncture request) through its endpoint
                peer_ov = type(ov)(k.CommunitySettings(my_peer=k.Peer(k.keys[2]), endpoint=k.RecEndpoint([]),
                                                       network=k.Network()))
                self.helpers.append(peer_ov)
                ov.on_packet((k.dest[a], peer_ov.create_introduction_request(k.dest[a])))
            else:
                ov.endpoint.send(k.dest[a], ov.get_prefix() + bytes([byte]) + b"payload")
        except Exception as e:  # noqa: BLE001
            exc = type(e).__name__
        finally:
            del self.ep.send
        outside.extend(self.log)
        self.log.clear()
        for e in outside:
            if e[0] == "raw" and want:
                self._bad(f"Community.{how}:raw-bypass",
                          f"anonymized overlay handed {e[2].hex()[:60]}… for {e[1]} to the wrapped endpoint without going "
                          "through TunnelEndpoint.send")
            elif e[0] == "data":
                self._bad(f"Community.{how}:send_data-bypass", "send_data called outside TunnelEndpoint.send")
        self.bypass = [e for e in outside if e[0] in ("raw", "data")]
        self.emit_exc = exc
        return out

    def dump(self):
        k = self.k
        ep, tc = self.ep, self.tc
        sets = sorted(f"{hx(p)}={'1' if v else '0'}" for p, v in ep.settings.items())
        q = [f"{k.rdest.get(a, '?')}:{hx(p)}" for a, p in ep.send_queue]
        circ = []
        for c in tc.circuits.values():
            hops = ";".join(f"{k.rhop.get(h.peer.address, '?')}:[{','.join(map(str, h.flags or []))}]" for h in c_hops(c))
            circ.append(f"{c.circuit_id}/{c.goal_hops}/{k.CT.index(c.ctype)}/{'1' if c_closing(c) else '0'}/<{hops}>")
        lis = [f"{l.lid}:" + ("none" if not hasattr(l, "anonymize") else ("1" if l.anonymize else "0"))
               for l in self.reg._listeners if hasattr(l, "lid")]
        plis = sorted({f"{l._c07_lid}:{hx(pfx)}:" + ("none" if not hasattr(l, "anonymize") else ("1" if l.anonymize else "0"))
                       for pfx, lst in (self.plis_src or (self.reg if self.dispatcher else self.ep.endpoint))._prefix_map.items() for l in lst
                       if hasattr(l, "_c07_lid")})
        return (f"cap={ep.send_queue.maxlen} hops={ep.hops} att={'1' if ep.tunnel_community is not None else '0'} "
                f"can={'1' if tc.can_create else '0'} fail={'none' if tc.fail_after is None else tc.fail_after} set=[{','.join(sets)}] q=[{','.join(q)}] "
                f"circ=[{','.join(circ)}] lis=[{','.join(lis)}] plis=[{','.join(plis)}]")


def line_of(op) -> str:
    kind = op[0]
    if kind == "send":
        return f"send {op[1]} {hx(op[2])}"
    if kind == "anon":
        return f"anon {hx(op[1])} {int(op[2])}"
    if kind == "settc":
        return f"settc {int(op[1])} {op[2]}"
    if kind == "newc":
        return f"newc {op[1]} {op[2]}"
    if kind in ("hop", "created"):
        fl = "none" if op[3] is None else "[" + ",".join(map(str, op[3])) + "]"
        return f"hop {op[1]} {op[2]} {fl}"
    if kind in ("close", "rm"):
        return f"{kind} {op[1]}"
    if kind == "cancreate":
        return f"cancreate {int(op[1])}"
    if kind == "listener":
        return f"listener {op[1]} {'none' if op[2] is None else int(op[2])}"
    if kind == "notify":
        return f"notify {int(op[1])} {hx(op[2])}"
    if kind == "unload":
        return f"unload {1000 + op[1]}"
    if kind == "burst":
        return f"burst {op[1]} {op[2]} {hx(op[3])} {op[4]}"
    if kind == "dump":
        return "dump"
    if kind == "fail":
        return f"fail {'none' if op[1] is None else op[1]}"
    if kind == "tcinit":
        return "tcinit " + hx(bytes([0, 2]) + TC_ID)
    if kind == "tcdata":
        return f"notify 1 {hx(op[2])}"     # TunnelCommunity.on_data ends in notify_listeners(packet, from_tunnel=True)
    if kind == "pseudonym":
        return f"pseudonym {int(op[1])} {hx(op[2])} {hx(op[3])}"
    if kind == "service":
        return f"service {int(op[1])} [" + ",".join(f"{hx(c)}:{int(bool(w))}" for c, w in op[2]) + "]"
    if kind == "overlay":
        return f"overlay {hx(op[1])} {int(op[2])}"
    raise ValueError(kind)


def op_to_json(op):
    if op[0] == "service":
        return ["service", op[1], [[c.hex(), w] for c, w in op[2]]]
    return [x.hex() if isinstance(x, bytes) else x for x in op]


def op_from_json(j):
    kind = j[0]
    if kind == "send":
        return ("send", j[1], bytes.fromhex(j[2]))
    if kind == "anon":
        return ("anon", bytes.fromhex(j[1]), bool(j[2]))
    if kind == "burst":
        return ("burst", j[1], j[2], bytes.fromhex(j[3]), j[4])
    if kind == "overlay":
        return ("overlay", bytes.fromhex(j[1]), bool(j[2]))
    if kind in ("hop", "created"):
        return (kind, j[1], j[2], None if j[3] is None else list(j[3]))
    if kind == "service":
        return ("service", bool(j[1]), [(bytes.fromhex(c), w) for c, w in j[2]])
    if kind == "pseudonym":
        return ("pseudonym", bool(j[1]), bytes.fromhex(j[2]), bytes.fromhex(j[3]))
    if kind == "notify":
        return ("notify", bool(j[1]), bytes.fromhex(j[2]))
    if kind == "tcdata":
        return ("tcdata", j[1], bytes.fromhex(j[2]))
    return tuple(j)


# ---------------------------------------------------------------------------------------------------------------------
# random histories
# ---------------------------------------------------------------------------------------------------------------------
def gen_random(rng, depth, real: Real, ctr):
    """yields ops one at a time, looking at the real objects only to aim (indices of circuits that exist)"""
    mode = rng.choice(["steady", "steady", "churn", "starve", "mixed"])
    prefixes = [PA, PB, PC]
    w_send = {"steady": 50, "churn": 30, "starve": 60, "mixed": 40}[mode]
    w_circ = {"steady": 14, "churn": 30, "starve": 4, "mixed": 16}[mode]
    kinds = ["send", "anon", "settc", "newc", "hop", "close", "rm", "cancreate", "burst", "listener", "notify", "dump",
             "mkready", "fail"]
    weights = [w_send, 5, 5 if mode != "churn" else 10, 4, w_circ, w_circ // 3 + 1, w_circ // 3 + 1, 2, 1, 1, 2, 2,
               {"steady": 5, "churn": 6, "starve": 1, "mixed": 3}[mode], 2]
    # a typical start: overlay A anonymized, community attached
    if rng.random() < 0.8:
        yield ("anon", PA, True)
    if rng.random() < 0.3:
        yield ("anon", PC, True)
    if rng.random() < 0.8:
        yield ("settc", True, rng.choice([1, 1, 2, 3]))
    for _ in range(depth):
        kind = rng.choices(kinds, weights)[0]
        ncirc = len(real.tc.circuits)
        if kind == "send":
            r = rng.random()
            pfx = rng.choices(prefixes, [7, 1, 2])[0]
            ctr[0] += 1
            body = ctr[0].to_bytes(3, "big") + bytes(rng.randrange(256) for _ in range(rng.choice([0, 0, 1, 5])))
            if r < 0.04:
                packet = (pfx + body)[:rng.randrange(0, 22)]       # shorter than a prefix
            elif r < 0.06:
                packet = pfx                                       # exactly the prefix
            elif r < 0.09:
                packet = rng.choice(ODD_KEYS) + body
            else:
                packet = pfx + body
            yield ("send", rng.randrange(0, 6), packet)
        elif kind == "anon":
            r = rng.random()
            key = rng.choice(ODD_KEYS) if r < 0.1 else rng.choices(prefixes, [5, 2, 3])[0]
            yield ("anon", key, rng.random() < 0.65)
        elif kind == "settc":
            if rng.random() < (0.35 if mode == "churn" else 0.2):
                yield ("settc", False, 1 if rng.random() < 0.8 else rng.choice([0, 2]))
            else:
                yield ("settc", True, rng.choice([1, 1, 1, 2, 2, 3, 0]))
        elif kind == "newc":
            yield ("newc", rng.choice([0, 1, 1, 2, 2, 3]), rng.choices([0, 1, 2, 3], [8, 1, 1, 1])[0])
        elif kind == "hop":
            if ncirc == 0 or rng.random() < 0.03:
                idx = rng.randrange(0, ncirc + 2)
            else:
                cs = list(real.tc.circuits.values())
                want = [i for i, c in enumerate(cs) if not c_closing(c) and len(c_hops(c)) < c.goal_hops]
                idx = rng.choice(want) if want and rng.random() < 0.8 else rng.randrange(ncirc)
            yield ("hop", idx, rng.randrange(1, 10), rng.choice(FLAG_SETS))
        elif kind == "close":
            yield ("close", rng.randrange(0, ncirc + 1) if ncirc else 0, rng.random() < 0.5)
        elif kind == "rm":
            yield (kind, rng.randrange(0, ncirc + 1) if ncirc else 0)
        elif kind == "cancreate":
            yield ("cancreate", rng.random() < 0.6)
        elif kind == "burst":
            cap = real.bound or 100
            n = rng.choice([3, cap - 1, cap, cap + 1, cap + 37])
            ctr[0] += 1
            yield ("burst", n, rng.randrange(0, 6), rng.choices(prefixes, [6, 1, 1])[0] + bytes([0xEE, ctr[0] % 256]),
                   rng.randrange(0, 60000))
        elif kind == "listener":
            yield ("listener", len(real.listeners) + 1, rng.choice([True, False, None]))
        elif kind == "notify":
            yield ("notify", rng.random() < 0.5, rng.choice(prefixes) + b"in")
        elif kind == "fail":
            yield ("fail", rng.choice([0, 0, 1, 2, 3, 7, None]))
        elif kind == "mkready":
            # bring one circuit of the configured length to READY with an IPv8 exit (what do_circuits + CREATED/EXTENDED do)
            hops = real.hops
            cs = list(real.tc.circuits.values())
            cand = [i for i, c in enumerate(cs) if not c_closing(c) and c.goal_hops == hops and len(c_hops(c)) < hops
                    and c.ctype == real.k.CT[0]]
            if cand:
                idx = rng.choice(cand)
                have = len(c_hops(cs[idx]))
            elif hops > 0:
                yield ("newc", hops, 0)
                idx, have = len(real.tc.circuits) - 1, 0
            else:
                continue
            for j in range(have, hops):
                last = j == hops - 1
                yield ("hop", idx, rng.randrange(1, 10), rng.choice([[4], [1, 4], [2, 4]]) if last
                       else rng.choice([[1], [1, 2], [1, 4], None]))
        else:
            yield ("dump",)


def classify(real: Real, op, reply, ctx: Ctx):
    """input-distribution histogram"""
    ctx.count("op:" + op[0])
    if op[0] == "send":
        if "fail:" in reply:
            ctx.count("send:anon->send_data raised after %d ok" % min(reply.count("data:"), 3))
        elif reply.startswith("raw:"):
            ctx.count("send:plain->raw")
        elif "data:" in reply:
            n = reply.count("data:")
            ctx.count("send:anon->tunnelled" + ("+backlog" if n > 1 else ""))
        elif "drop:n" in reply:
            ctx.count("send:anon->dropped(no community)")
        elif "drop:o" in reply:
            ctx.count("send:anon->queued,overflow")
        elif "create:" in reply:
            ctx.count("send:anon->queued,create" + ("(failed)" if reply.split("create:")[1].split()[0].endswith("none") else ""))
        else:
            ctx.count("send:anon->queued(circuit not ready)")
        if len(op[2]) < 22:
            ctx.count("send:short-packet")
    elif op[0] == "burst":
        ctx.count("burst:" + ("overflow" if "drop=0" not in reply else "no-overflow"))


def run_history(ctx: Ctx, real: Real, ops_iter, lines, expect, record):
    """execute ops on the real objects, collect protocol lines + implementation replies"""
    for op in ops_iter:
        reply = real.do(op)
        record.append(op)
        lines.append(line_of(op))
        expect.append(reply)
        classify(real, op, reply, ctx)
        if real.fail is not None:
            break


def report_fail(ctx: Ctx, real: Real, record, cap, where):
    sig, what = real.fail
    ctx.oracle_fail(sig, f"{what} [after {len(record)} ops, {where}]",
                    {"kind": "ops", "cap": cap, "dispatcher": real.dispatcher, "ops": [op_to_json(o) for o in record]})


def random_tier(ctx: Ctx, n_seq: int, use_model: bool, max_depth: int = 200):
    rng = ctx.rng
    ctr = [0]
    lines, expect, owners = [], [], []
    histories = []
    for s in range(n_seq):
        depth = rng.choice([rng.randrange(1, 12), rng.randrange(10, 60), rng.randrange(60, max_depth + 1)])
        real = Real()
        record = []
        lines.append("reset -")
        expect.append("ok")
        start = len(lines)
        run_history(ctx, real, gen_random(rng, depth, real, ctr), lines, expect, record)
        lines.append("dump")
        expect.append(real.dump())
        histories.append((start, record))
        ctx.count("random:depth<=%d" % (10 if depth <= 10 else 60 if depth <= 60 else max_depth))
        ctx.case(("r", ctx.seed, s, len(record)), real.nontrivial)
        if real.fail is not None:
            report_fail(ctx, real, record, None, "random history")
        if s < 2:
            ctx.sample({"history": [line_of(o) for o in record[:12]], "implementation": expect[start:start + 12]})
    if use_model:
        compare(ctx, lines, expect, histories)


def compare(ctx: Ctx, lines, expect, histories):
    d = ctx.driver()
    replies = d.batch(lines)
    bad = 0
    for i, (ln, model, impl) in enumerate(zip(lines, replies, expect)):
        if model != impl:
            # find the history this line belongs to
            hist = None
            for start, record in histories:
                if start <= i:
                    hist = (start, record)
                else:
                    break
            rep = {"line": ln, "model": model, "impl": impl}
            if hist:
                rep["ops"] = [op_to_json(o) for o in hist[1] if o[0] != "dump"]
                rep["kind"] = "life" if any(o[0] in ("rmreq", "tick", "docirc") for o in hist[1]) else "ops"
            ctx.disagree(f"model {model!r} != implementation {impl!r} on `{ln}` (op {i - (hist[0] if hist else 0)} of its "
                         "history)", rep)
            bad += 1
            if bad >= 5:
                break


# ---------------------------------------------------------------------------------------------------------------------
# exhaustive histories over fixed alphabets (queue bound shrunk to 2)
# ---------------------------------------------------------------------------------------------------------------------
DIGITS = "0123456789abcdefghijklmnopqrstuvwxyz"


def alphabet(name):
    """each letter is a function (position, real) -> op; positions make every packet unique.
    The same letters are defined in lean/DrvC07.lean (`letterOp`) for the model's own enumeration."""
    def last(real):
        return max(0, len(real.tc.circuits) - 1)
    if name == "A":    # 1-hop circuits.  The first nine letters are the events the property text lists.
        return [lambda i, r: ("send", 1, PA + bytes([i])),          # send by the anonymized overlay
                lambda i, r: ("send", 2, PB + bytes([i])),          # send by a plain overlay
                lambda i, r: ("anon", PA, True),                    # anonymity toggled on
                lambda i, r: ("anon", PA, False),                   # … and off
                lambda i, r: ("settc", True, 1),                    # tunnel community attached
                lambda i, r: ("settc", False, 1),                   # … detached
                lambda i, r: ("hop", last(r), 7, [4]),              # newest circuit becomes ready (IPv8 exit)
                lambda i, r: ("close", 0, i % 2 == 1),              # oldest circuit closes (with / without a reason text)
                lambda i, r: ("rm", 0),                             # oldest circuit removed
                lambda i, r: ("hop", last(r), 8, [2])]              # newest circuit becomes ready with a BT-only exit
    if name == "T":    # exactly the events the property text lists, anonymity as a toggle (8 letters)
        return [lambda i, r: ("send", 1, PA + bytes([i])),          # send by the anonymized overlay
                lambda i, r: ("send", 2, PB + bytes([i])),          # send by a plain overlay
                lambda i, r: ("anon", PA, not r.anon.get(PA, False)),   # anonymity toggled
                lambda i, r: ("settc", True, 1),                    # tunnel community attached
                lambda i, r: ("settc", False, 1),                   # … detached
                lambda i, r: ("hop", last(r), 7, [4]),              # circuit becomes ready
                lambda i, r: ("close", 0, i % 2 == 1),              # circuit closes (with / without a reason text)
                lambda i, r: ("rm", 0)]                             # circuit removed
    if name == "C":    # real Community objects sharing one TunnelEndpoint: several overlays per prefix, explicit toggles
        return [lambda i, r: ("overlay", PA[2:], True),             # overlay with prefix PA loaded with anonymize=True
                lambda i, r: ("overlay", PA[2:], False),            # the same community id loaded plain (another pseudonym)
                lambda i, r: ("overlay", PB[2:], False),            # an unrelated plain overlay
                lambda i, r: ("send", 1, PA + bytes([i])),
                lambda i, r: ("send", 2, PB + bytes([i])),
                lambda i, r: ("settc", True, 1),
                lambda i, r: ("anon", PA, True),
                lambda i, r: ("anon", PA, False)]
    if name == "D":    # delivery by origin: real Community objects (registered by prefix) and global listeners
        return [lambda i, r: ("overlay", PA[2:], True),
                lambda i, r: ("overlay", PA[2:], False),
                lambda i, r: ("overlay", PB[2:], True),
                lambda i, r: ("listener", 1 + i, True),
                lambda i, r: ("listener", 1 + i, None),
                lambda i, r: ("notify", True, PA + bytes([i])),
                lambda i, r: ("notify", False, PA + bytes([i])),
                lambda i, r: ("notify", True, PB + bytes([i])),
                lambda i, r: ("unload", 0)]
    if name == "B":    # 2-hop circuits, creation failures, re-attachment with another length
        return [lambda i, r: ("send", 1, PA + bytes([i])),
                lambda i, r: ("anon", PA, True),
                lambda i, r: ("settc", True, 2),
                lambda i, r: ("settc", True, 1),
                lambda i, r: ("settc", False, 1),
                lambda i, r: ("hop", 0, 7, [1, 4]),
                lambda i, r: ("hop", last(r), 8, [4]),
                lambda i, r: ("hop", last(r), 9, [1]),
                lambda i, r: ("close", last(r), i % 2 == 1),
                lambda i, r: ("rm", 0),
                lambda i, r: ("cancreate", False),
                lambda i, r: ("anon", PA, False)]
    raise ValueError(name)


def run_word(alpha, word, cap=2):
    real = Real(cap)
    ops, reply = [], "-"
    for i, letter in enumerate(word):
        op = alpha[letter](i, real)
        ops.append(op)
        reply = real.do(op)
        if real.fail is not None:
            break
    return real, ops, reply


def exhaustive_tier(ctx: Ctx, name: str, k: int, depth: int, use_model: bool, plen: int = 3):
    """every word of length 1..depth over the first k letters of alphabet `name`, queue bound 2.  The model enumerates
    the same words itself (`enum`), one request per prefix of length `plen`; digests of "last reply | dump" are compared
    and a differing word is re-run through `seq` to show both sides."""
    import zlib
    alpha = alphabet(name)[:k]
    drv = ctx.driver() if use_model else None
    n = 0
    for d in range(1, depth + 1):
        n_before = n
        pl = min(plen, max(0, d - 3))
        for pre in itertools.product(range(k), repeat=pl):
            digests, words = [], []
            for suf in itertools.product(range(k), repeat=d - pl):
                word = pre + suf
                real, ops, reply = run_word(alpha, word)
                n += 1
                ctx.case(f"{name}{k}:" + "".join(DIGITS[x] for x in word), real.nontrivial)
                if real.fail is not None:
                    report_fail(ctx, real, ops, 2, f"exhaustive alphabet {name}[:{k}] word {''.join(DIGITS[x] for x in word)}")
                    if len(ctx.failures) >= 20:
                        return n
                    digests.append(None)
                    impl = None
                else:
                    impl = reply + " | " + real.dump()
                    digests.append(str(zlib.adler32(impl.encode())))
                real.close()
                words.append((ops, impl))
            if drv is not None and len(ctx.disagreements) < 5:
                line = f"enum {name} {k} 2 {d} " + ("".join(DIGITS[x] for x in pre) or "-")
                got = drv.ask(line).split(" ")
                if len(got) != len(digests):
                    ctx.disagree(f"model enumerates {len(got)} words for `{line}`, harness {len(digests)}", {"line": line})
                    continue
                for g, w, (ops, impl) in zip(got, digests, words):
                    if w is not None and g != w:
                        seq = "seq 2 " + ";".join(line_of(o).replace(" ", "_") for o in ops)
                        model = drv.ask(seq)
                        ctx.disagree(f"model {model!r} != implementation {impl!r} on `{seq}`",
                                     {"kind": "ops", "cap": 2, "ops": [op_to_json(o) for o in ops], "model": model,
                                      "impl": impl})
                        if len(ctx.disagreements) >= 5:
                            break
        ctx.count(f"exhaustive:{name}[:{k}]:depth{d}", n - n_before)
    return n


# ---------------------------------------------------------------------------------------------------------------------
# overlay scenarios: real Community objects opting in through settings.anonymize
# ---------------------------------------------------------------------------------------------------------------------
def do_tcunload(ctx: Ctx, real: Real, lines, expect, record):
    """TunnelCommunity.unload inside a history; for the model: every circuit is closed and popped, then detach"""
    cids = list(real.tc.circuits)
    reply = real.do(("tcunload",))
    record.append(("tcunload",))
    for cid in cids:
        lines += [f"rmreq {cid}", f"rmdone {cid}"]
        expect += [reply, reply]
    lines.append("settc 0 1")
    expect.append(reply)
    lines.append("dump")
    expect.append(real.dump())
    ctx.count("overlay:TunnelCommunity.unload inside the history (%d circuits)" % min(len(cids), 3))


def do_emit(ctx: Ctx, real: Real, op, lines, expect, record):
    """an overlay sends through its own code path; one model `send` line per call that reached TunnelEndpoint.send"""
    record.append(op)
    for sop, reply in real.emit(op):
        lines.append(line_of(sop))
        expect.append(reply)
        classify(real, sop, reply, ctx)
    if real.bypass:
        ctx.count("overlay-send:bypassed TunnelEndpoint.send")
        if real.fail is None:       # a plain overlay talking to the wrapped endpoint directly: model expects a send
            lines.append("dump")
            expect.append("bypass: " + ", ".join(f"{e[0]}:{e[2].hex()[:24]}" for e in real.bypass))


def overlay_tier(ctx: Ctx, n_scen: int, use_model: bool):
    k = K()
    rng = ctx.rng
    if k.LifeTC.community_id != TC_ID:
        ctx.disagree("TunnelCommunity.community_id changed", {"line": "tcinit"})
    lines, expect, histories = [], [], []
    for s in range(n_scen):
        on_dispatcher = s % 2 == 1
        ctx.count("overlay:wrapped endpoint is a %s" % ("dual-stack DispatcherEndpoint" if on_dispatcher else "single endpoint"))
        real = Real(dispatcher=on_dispatcher)
        record = []
        lines.append("reset -")
        expect.append("ok")
        start = len(lines)
        try:
            # when (if at all) the tunnel community is constructed on this endpoint: before, between or after the overlays
            n_ov = rng.choice([1, 2, 2, 3, 4])
            tc_at = rng.choice([None, None, 0, rng.randrange(0, n_ov + 1), n_ov])
            cids = {}
            for j in range(n_ov + 1):
                if tc_at == j:
                    run_history(ctx, real, [("tcinit",)], lines, expect, record)
                    ctx.count("overlay:tunnel community constructed on the endpoint after %d overlay(s)" % min(j, 2))
                    if rng.random() < 0.3:
                        run_history(ctx, real, [("settc", True, 2)], lines, expect, record)
                if j == n_ov:
                    break
                if cids and rng.random() < 0.4:
                    cid = rng.choice(list(cids))        # a second instance under the same community id (same prefix)
                else:
                    cid = bytes([0x50 + j]) + bytes(rng.randrange(256) for _ in range(19))
                want = rng.random() < 0.55
                if cid in cids:
                    ctx.count("overlay:shared prefix, %s after %s" % ("anonymized" if want else "plain",
                                                                       "+".join("anonymized" if w else "plain"
                                                                                for w in cids[cid])))
                if rng.random() < 0.12:
                    on = rng.random() < 0.7             # explicit toggle for that prefix before the overlay is loaded
                    run_history(ctx, real, [("anon", bytes([0, 2]) + cid, on)], lines, expect, record)
                    ctx.count("overlay:explicit set_anonymity(%s) before load of %s overlay" %
                              (on, "anonymized" if want else "plain"))
                cids.setdefault(cid, []).append(want)
                run_history(ctx, real, [("overlay", cid, want)], lines, expect, record)
                ctx.count("overlay:anonymize=%s" % want)
                if rng.random() < 0.7 and j == 0 and tc_at is None:
                    run_history(ctx, real, [("settc", True, rng.choice([1, 1, 2]))], lines, expect, record)
            if rng.random() < (0.7 if real.real_tc else 0.2):
                for lid, an in enumerate(rng.sample([True, False, None], rng.choice([1, 2, 3])), 1):
                    run_history(ctx, real, [("listener", lid, an)], lines, expect, record)
            # traffic produced by the overlays themselves, interleaved with circuit events
            for _ in range(rng.randrange(3, 40)):
                r = rng.random()
                live = [i for i, (ov, _) in enumerate(real.overlays) if ov is not None]
                if real.fail is not None or not live:
                    break
                if r < 0.5:
                    i = rng.choice(live)
                    how = rng.choice(["walk_to", "puncture", "raw", "send_intro", "respond", "ez_send", "punct_req",
                                      "intro_resp", "intro_resp"]
                                     + ["bootstrap"] * (rng.random() < 0.08))
                    ctx.count("overlay-send:" + how + (":anonymized" if real.overlays[i][1] else ":plain"))
                    do_emit(ctx, real, ("emit", i, how, rng.randrange(0, 6), rng.randrange(256)), lines, expect, record)
                elif r < 0.68:
                    cs = list(real.tc.circuits.values())
                    want_i = [i for i, c in enumerate(cs) if not c_closing(c) and len(c_hops(c)) < c.goal_hops]
                    if want_i:
                        run_history(ctx, real, [("created" if real.real_tc else "hop", rng.choice(want_i),
                                                 rng.randrange(1, 10), rng.choice(FLAG_SETS[:6]))], lines, expect, record)
                    elif real.real_tc and real.att and rng.random() < 0.5:
                        # a data circuit of another length than the configured one appears and completes
                        other = 1 if real.hops != 1 else 2
                        idx = len(cs)
                        ops = [("newc", other, 0)] + [("created" if j == other - 1 else "hop", idx, rng.randrange(1, 10), [4])
                                                      for j in range(other)]
                        ctx.count("overlay:data circuit of another length completes")
                        run_history(ctx, real, ops, lines, expect, record)
                elif r < 0.76:
                    run_history(ctx, real, [(rng.choice(["close", "rm"]), 0)], lines, expect, record)
                elif r < 0.82 and not real.real_tc:
                    run_history(ctx, real, [("settc", rng.random() < 0.6, rng.choice([1, 1, 2]))], lines, expect, record)
                elif r < 0.835 and real.real_tc:
                    do_tcunload(ctx, real, lines, expect, record)
                elif r < 0.86:
                    run_history(ctx, real, [("fail", rng.choice([0, 0, 1, 2]))], lines, expect, record)
                elif r < 0.91 and len(live) > 1:
                    # one overlay goes away; the others (possibly sharing its prefix) keep sending
                    i = rng.choice(live)
                    ctx.count("overlay:unload of %s overlay while others stay" % ("anonymized" if real.overlays[i][1] else "plain"))
                    run_history(ctx, real, [("unload", i), ("dump",)], lines, expect, record)
                    if rng.random() < 0.5 and real.fail is None:
                        # the same community id comes back (another pseudonym / re-configured), possibly plain this time
                        cid, again = real.k.cid_of(real, i), rng.random() < 0.4
                        ctx.count("overlay:re-load after unload, now %s" % ("anonymized" if again else "plain"))
                        run_history(ctx, real, [("overlay", cid, again)], lines, expect, record)
                elif r < 0.94 and real.real_tc and real.listeners:
                    cs = [i for i, c in enumerate(real.tc.circuits.values()) if c_hops(c)]
                    if cs:
                        ov = real.overlays[rng.choice(live)][0]
                        run_history(ctx, real, [("tcdata", rng.choice(cs), ov.get_prefix() + b"inbound")], lines, expect,
                                    record)
                elif r < 0.99:
                    # a datagram with the prefix of one of the overlays, handed to notify_listeners with either origin
                    ov, asked = real.overlays[rng.choice(live)]
                    ft = rng.random() < 0.6
                    ctx.count("deliver:from_%s to prefix of %s overlay" % ("tunnel" if ft else "socket",
                                                                          "anonymized" if asked else "plain"))
                    run_history(ctx, real, [("notify", ft, ov.get_prefix() + b"in")], lines, expect, record)
                else:
                    run_history(ctx, real, [("dump",)], lines, expect, record)
            lines.append("dump")
            expect.append(real.dump())
        finally:
            real.close()
        histories.append((start, record))
        ctx.case(("o", ctx.seed, s, len(record)), real.nontrivial)
        if real.fail is not None:
            report_fail(ctx, real, record, None, "overlay scenario")
    if use_model:
        compare(ctx, lines, expect, histories)


def service_tier(ctx: Ctx, n_scen: int, use_model: bool):
    """configurations: ipv8_service.IPv8 builds the endpoint stack (statistics on/off) and loads the overlays with the
    `initialize` blocks of the configuration; the overlays then send through whatever endpoint they were given"""
    rng = ctx.rng
    lines, expect, histories = [], [], []
    combos = [(st, pat) for st in (False, True) for pat in ([True], [True, None], [None, True], [False, True, True],
                                                           [None], [True, False], [None, None, True])]
    for s in range(n_scen):
        stats, pattern = combos[s % len(combos)] if s < 2 * len(combos) else (rng.random() < 0.5,
                                                                            [rng.choice([True, True, False, None])
                                                                             for _ in range(rng.randrange(1, 5))])
        cids = []
        for j, _ in enumerate(pattern):
            cids.append(rng.choice(cids) if cids and rng.random() < 0.25 else
                        bytes([0x60 + j]) + bytes(rng.randrange(256) for _ in range(19)))
        real = Real()
        record = []
        lines.append("reset -")
        expect.append("ok")
        start = len(lines)
        try:
            run_history(ctx, real, [("service", stats, list(zip(cids, pattern)))], lines, expect, record)
            ctx.count("service:statistics=%s, %d anonymized + %d plain overlay(s)" %
                      (stats, sum(1 for w in pattern if w), sum(1 for w in pattern if not w)))
            if any(pattern):        # (without any anonymized overlay no TunnelEndpoint is built and nothing is claimed)
                if rng.random() < 0.5:
                    run_history(ctx, real, [("settc", True, 1)], lines, expect, record)
                for _ in range(rng.randrange(2, 12)):
                    if real.fail is not None:
                        break
                    r = rng.random()
                    if r < 0.7:
                        i = rng.randrange(len(real.overlays))
                        how = rng.choice(["walk_to", "puncture", "raw", "send_intro", "respond"])
                        ctx.count("service-send:" + how + (":anonymized" if real.overlays[i][1] else ":plain"))
                        do_emit(ctx, real, ("emit", i, how, rng.randrange(0, 6), rng.randrange(256)), lines, expect, record)
                    elif r < 0.85:
                        ov, asked = rng.choice(real.overlays)
                        run_history(ctx, real, [("notify", rng.random() < 0.6, ov.get_prefix() + b"in")], lines, expect,
                                    record)
                    else:
                        run_history(ctx, real, [("mkhop",)] if False else [("dump",)], lines, expect, record)
            lines.append("dump")
            expect.append(real.dump())
        finally:
            real.close()
        histories.append((start, record))
        ctx.case(("s", ctx.seed, s, len(record)), real.nontrivial)
        if real.fail is not None:
            report_fail(ctx, real, record, None, "service configuration")
    if use_model:
        compare(ctx, lines, expect, histories)


def pseudonym_tier(ctx: Ctx, n_scen: int, use_model: bool):
    """the other way to an anonymizing endpoint: CommunicationManager.load builds a pseudonym (identity + attestation
    overlay sharing a TunnelEndpoint from produce_anonymized_endpoint) in a service with or without a hidden tunnel
    community; both overlays then send through their own code"""
    from ipv8.attestation.identity.community import IdentityCommunity
    from ipv8.attestation.wallet.community import AttestationCommunity
    rng = ctx.rng
    lines, expect, histories = [], [], []
    for s in range(n_scen):
        with_tunnels = s % 3 != 2
        real = Real()
        record = []
        lines.append("reset -")
        expect.append("ok")
        start = len(lines)
        try:
            run_history(ctx, real, [("pseudonym", with_tunnels, IdentityCommunity.community_id,
                                     AttestationCommunity.community_id)], lines, expect, record)
            ctx.count("pseudonym:hidden tunnel community %s" % ("loaded" if with_tunnels else "absent"))
            for _ in range(rng.randrange(3, 14)):
                if real.fail is not None or len(real.overlays) < 2:
                    break
                r = rng.random()
                if r < 0.6:
                    i = rng.randrange(2)
                    how = rng.choice(["walk_to", "send_intro", "ez_send", "raw", "puncture"])
                    ctx.count("pseudonym-send:%s overlay:%s" % ("identity" if i == 0 else "attestation", how))
                    do_emit(ctx, real, ("emit", i, how, rng.randrange(0, 6), rng.randrange(256)), lines, expect, record)
                elif r < 0.8 and with_tunnels:
                    idx = len(real.tc.circuits)
                    run_history(ctx, real, [("newc", 1, 0), ("hop", idx, rng.randrange(1, 10), [4])], lines, expect, record)
                elif r < 0.9:
                    ov, asked = rng.choice(real.overlays)
                    run_history(ctx, real, [("notify", rng.random() < 0.6, ov.get_prefix() + b"in")], lines, expect, record)
                else:
                    run_history(ctx, real, [("dump",)], lines, expect, record)
            lines.append("dump")
            expect.append(real.dump())
        finally:
            real.close()
        histories.append((start, record))
        ctx.case(("p", ctx.seed, s, len(record)), real.nontrivial)
        if real.fail is not None:
            report_fail(ctx, real, record, None, "pseudonym loaded through CommunicationManager")
    if use_model:
        compare(ctx, lines, expect, histories)


# ---------------------------------------------------------------------------------------------------------------------
# circuit lifecycle through the REAL TunnelCommunity (default settings, virtual clock)
# ---------------------------------------------------------------------------------------------------------------------
TICKS = [0.0, 0.5, 2.5, 4.9, 5.0, 5.1, 21.0]


class Life:
    """one scenario: real TunnelEndpoint + fully constructed TunnelCommunity (LifeTC) under tools/vclock.py.
    `rmreq` requests a removal through remove_circuit / on_destroy, `docirc` through do_circuits -> do_remove,
    `tick` lets virtual time pass.  The harness keeps its own schedule: a removal requested at t closes the circuit at
    once and pops its entry at t + settings.remove_tunnel_delay; that schedule drives the model (`rmreq`, `rmdone`)
    and the oracle (`Real.torn`), never the circuit's own `_closing` flag."""

    def __init__(self, ctx, loop, lines, expect, record, on_endpoint=False):
        from ipv8.messaging.anonymization.payload import DestroyPayload
        k = K()
        self.ctx, self.loop, self.lines, self.expect, self.record = ctx, loop, lines, expect, record
        self.DestroyPayload = DestroyPayload
        self.tc_log = []
        tc_raw = k.RecEndpoint(self.tc_log)     # the tunnel community's own (plain) endpoint: destroys, creates, …

        def make_tc(log):
            tc = k.LifeTC(log, k.TunnelSettings(my_peer=k.my_peer, endpoint=tc_raw, network=k.Network()))
            tc.cancel_pending_task("do_circuits")     # run explicitly (op `docirc`), not every 5 s behind our back
            tc.cancel_pending_task("do_ping")
            return tc
        # on_endpoint: the tunnel community is constructed ON the TunnelEndpoint by the script's first op (`tcinit`),
        # as ipv8_service does; otherwise on an endpoint of its own and attached with set_tunnel_community
        self.real = Real(None, None if on_endpoint else make_tc)
        self.pending = []            # (due time, circuit id), in request order
        self.created = {}            # circuit id -> virtual time of creation (= last activity: nothing comes in)

    @property
    def delay(self):
        return self.real.tc.settings.remove_tunnel_delay

    @property
    def inactive(self):
        return self.real.tc.settings.max_time_inactive

    def emit(self, op, line, reply):
        self.record.append(op)
        self.lines.append(line)
        self.expect.append(reply)
        self.ctx.count("op:" + op[0])

    def q(self):
        return f"- q={len(self.real.ep.send_queue)}"

    def note_created(self):
        for cid in self.real.tc.circuits:
            self.created.setdefault(cid, self.loop.time())

    async def settle(self):
        import asyncio
        for _ in range(3):
            await asyncio.sleep(0)

    def request(self, cid):
        """bookkeeping + model line for one removal request"""
        now = self.loop.time()
        self.real.torn.setdefault(cid, now)
        self.pending.append((now + self.delay, cid))

    async def do(self, op):
        import asyncio
        real = self.real
        kind = op[0]
        if kind == "rmreq":
            _, idx, destroy, via = op
            c = real.circuit_at(idx)
            if c is None or (via == "on_destroy" and not c_hops(c)):
                return
            real.log.clear()
            if via == "on_destroy":
                # the handler body behind @lazy_wrapper (signature checking of the datagram is C01's business)
                type(real.tc).on_destroy.__wrapped__(real.tc, c_hops(c)[0].peer, self.DestroyPayload(c.circuit_id, 1))
            elif via == "remove_now":
                real.tc.remove_circuit(c.circuit_id, remove_now=True, destroy=destroy)
            else:
                if idx % 2:
                    real.tc.remove_circuit(c.circuit_id, "harness", destroy=destroy)
                else:
                    real.tc.remove_circuit(c.circuit_id, destroy=destroy)      # the API's default reason text ("")
                self.ctx.count("life:remove_circuit %s a reason text" % ("with" if idx % 2 else "without"))
            await self.settle()          # the @task body runs up to its `await sleep(remove_tunnel_delay)`
            if via == "remove_now":
                real.torn.setdefault(c.circuit_id, self.loop.time())
            else:
                self.request(c.circuit_id)
            real.check_quiet("remove_circuit")
            self.emit(op, f"rmreq {c.circuit_id}", self.q())
            if via == "remove_now":
                self.lines.append(f"rmdone {c.circuit_id}")
                self.expect.append(self.q())
            self.ctx.count(f"life:request via {via}" + (" +destroy" if destroy and via != "on_destroy" else ""))
            self.emit(("dump",), "dump", real.dump())
        elif kind == "docirc":
            now = self.loop.time()
            st = real.tc.settings
            victims, arms = [], []
            for cid, c in real.tc.circuits.items():
                born = self.created.get(cid, now)
                if not c_closing(c) and cid not in real.torn and len(c_hops(c)) >= c.goal_hops and born < now - self.inactive:
                    arms.append("no activity")
                elif born < now - st.max_time:
                    arms.append("too old")
                elif c.bytes_up + c.bytes_down > st.max_traffic:
                    arms.append("traffic limit")
                else:
                    continue
                victims.append(cid)
            real.log.clear()
            real.tc.do_circuits()
            await self.settle()
            for cid in victims:
                self.request(cid)
            real.check_quiet("do_circuits")
            self.record.append(op)
            for cid in victims:
                self.lines.append(f"rmreq {cid}")
                self.expect.append(self.q())
            self.ctx.count("op:docirc")
            self.ctx.count("life:do_circuits closes %s" % ("some" if victims else "none"))
            for arm in arms:
                self.ctx.count("life:do_remove arm: " + arm)
            self.emit(("dump",), "dump", real.dump())
        elif kind == "traffic":
            c = real.circuit_at(op[1])
            if c is not None:
                c.bytes_up = real.tc.settings.max_traffic + 1      # as if that much had been relayed
            self.record.append(op)
        elif kind == "tick":
            real.log.clear()
            await asyncio.sleep(op[1])
            await self.settle()
            now = self.loop.time()
            due = [(t, cid) for t, cid in self.pending if t <= now]
            self.pending = [(t, cid) for t, cid in self.pending if t > now]
            real.check_quiet("timer")
            self.record.append(op)
            for _, cid in due:
                self.lines.append(f"rmdone {cid}")
                self.expect.append(self.q())
                self.ctx.count("life:entry removed after delay")
            self.ctx.count("op:tick")
            self.emit(("dump",), "dump", real.dump())
        else:
            if kind == "send":
                now = self.loop.time()
                window = [now - t for cid, t in real.torn.items() if cid in real.tc.circuits and t >= 0]
                if window:
                    self.ctx.count("life:send %.1fs after close requested, entry still registered" % min(window))
            reply = real.do(op)
            self.emit(op, line_of(op), reply)
            classify(real, op, reply, self.ctx)
            self.note_created()


def life_script(rng, life: Life, ctr):
    """a history; yields ops, aiming with the real objects' current shape"""
    real = life.real
    hops = rng.choice([1, 1, 2])
    if not real.real_tc and real.tc.__class__.__name__ == "StubTC":
        yield ("tcinit",)               # TunnelCommunity.__init__ on the TunnelEndpoint itself
    yield ("anon", PA, True)
    yield ("settc", True, hops)

    def mkready():
        idx = len(real.tc.circuits)      # index the new circuit will have
        yield ("newc", hops, 0)
        for j in range(hops):
            yield ("created" if j == hops - 1 else "hop", idx, rng.randrange(1, 10), [4] if j == hops - 1 else [1])

    def other_circuit():
        # a data circuit of ANOTHER length with an IPv8 exit completes (built for something else: build_tunnels, REST, …)
        other = 3 - hops
        idx = len(real.tc.circuits)
        yield ("newc", other, 0)
        for j in range(other):
            yield ("created" if j == other - 1 else "hop", idx, rng.randrange(1, 10), [4] if j == other - 1 else [1, 4])

    def send():
        ctr[0] += 1
        return ("send", rng.randrange(0, 6), PA + ctr[0].to_bytes(3, "big"))

    def pick():
        cs = list(real.tc.circuits.values())
        live = [i for i, c in enumerate(cs) if c.circuit_id not in real.torn]
        return rng.choice(live) if live and rng.random() < 0.85 else (rng.randrange(len(cs)) if cs else 0)

    if rng.random() < 0.5:
        # window probe: a send at every point between 'close requested' and 'entry removed', and just after
        yield from mkready()
        yield send()
        via = rng.choice(["remove_circuit", "remove_circuit", "on_destroy", "do_circuits"])
        if via == "do_circuits":
            yield ("tick", 21.0)
            yield ("docirc",)
        else:
            yield ("rmreq", 0, rng.choice([0, 1, 2]), via)
        for dt in rng.choice([[0.0, 1.0, 3.9, 0.1, 0.1], [2.5, 2.4, 0.1, 1.0], [4.9, 0.2], [5.0], [0.5, 0.5, 0.5, 3.5]]):
            yield send()
            r2 = rng.random()
            if r2 < 0.3:
                yield from mkready()
            elif r2 < 0.55:
                yield from other_circuit()      # … while packets wait in the queue
            yield ("tick", dt)
        yield send()
        yield from mkready()
        yield send()
        return
    for _ in range(rng.randrange(8, 45)):
        r = rng.random()
        if r < 0.35:
            yield send()
        elif r < 0.47:
            yield from mkready()
        elif r < 0.52:
            yield from other_circuit()
        elif r < 0.68:
            yield ("rmreq", pick(), rng.choice([0, 0, 1, 2]),
                   rng.choice(["remove_circuit", "remove_circuit", "on_destroy", "remove_now"]))
        elif r < 0.71:
            yield ("traffic", pick())
        elif r < 0.86:
            yield ("tick", rng.choice(TICKS + [3600.5] * (rng.random() < 0.15)))
        elif r < 0.92:
            yield ("docirc",)
        elif r < 0.96:
            yield ("settc", rng.random() < 0.7, hops if rng.random() < 0.8 else 3 - hops)
        else:
            yield (rng.choice(["close", "rm"]), pick())


def run_life(ctx: Ctx, scripts, use_model: bool, where: str, on_endpoint=None):
    """scripts: list of callables (life) -> iterator of ops"""
    import asyncio

    import vclock
    k = K()
    lines, expect, histories = [], [], []
    loop = vclock.new_loop()

    async def one(i, script):
        record = []
        lines.append("reset -")
        expect.append("ok")
        start = len(lines)
        life = Life(ctx, loop, lines, expect, record, on_endpoint=(i % 2 == 1) if on_endpoint is None else on_endpoint)
        try:
            for op in script(life):
                await life.do(op)
                if life.real.fail is not None:
                    break
        finally:
            await life.real.tc.unload()
        histories.append((start, record))
        ctx.case(("l", where, ctx.seed, i, len(record)), life.real.nontrivial)
        if life.real.fail is not None:
            sig, what = life.real.fail
            ctx.oracle_fail(sig, f"{what} [after {len(record)} ops, {where}]",
                            {"kind": "life", "on_endpoint": life.real.real_tc,
                             "ops": [op_to_json(o) for o in record if o[0] != "dump"]})

    async def all_of_them():
        for i, script in enumerate(scripts):
            await one(i, script)
    try:
        loop.run_until_complete(all_of_them())
    finally:
        vclock.uninstall()
        loop.close()
        asyncio.set_event_loop(k.loop)
    if use_model:
        compare(ctx, lines, expect, histories)


def lifecycle_tier(ctx: Ctx, n_scen: int, use_model: bool):
    ctr = [0]
    rng = ctx.rng
    run_life(ctx, [(lambda life, _r=rng: life_script(_r, life, ctr)) for _ in range(n_scen)], use_model,
             "lifecycle scenario (real remove_circuit / on_destroy / do_circuits, default settings, virtual clock)")


# ---------------------------------------------------------------------------------------------------------------------
def check_consts(ctx: Ctx):
    """the generated constants agree with the live objects"""
    k = K()
    r = Real()
    from ipv8.community import Community
    live = (f"cap={r.ep.send_queue.maxlen} hops={r.ep.hops} tchops={k.TunnelEndpoint.set_tunnel_community.__defaults__[0]} "
            f"prefix=22 ipv8={k.EXIT_IPV8} head={(bytes([0]) + Community.version).hex()}")
    got = ctx.driver().batch(["consts"])[0]
    # `prefix` is the slice bound used by send; 22 is what Community prefixes are long (1 + 1 + 20)
    if got != live:
        ctx.disagree(f"generated constants `{got}` != live objects `{live}`", {"line": "consts", "model": got, "impl": live})
    r.check_queue()
    if r.fail:
        ctx.oracle_fail(r.fail[0], r.fail[1], {"kind": "ops", "cap": None, "ops": []})


def guarded(ctx: Ctx, name, fn, *args):
    """a harness that can no longer observe the implementation (attribute gone, signature changed, …) has a BROKEN
    CORRESPONDENCE, not an infrastructure problem: record it and let the search look for a failing input"""
    import vlib
    try:
        fn(ctx, *args)
    except (vlib.InfraError, KeyboardInterrupt):
        raise
    except Exception as e:  # noqa: BLE001
        import traceback
        tb = traceback.extract_tb(e.__traceback__)[-1]
        ctx.disagree(f"the harness could not observe the implementation in {name}: {type(e).__name__}: {e} "
                     f"(at {tb.filename.split('/')[-1]}:{tb.lineno})", {"tier": name})


def run(ctx: Ctx):
    if ctx.replay_input is not None:
        return replay(ctx, ctx.replay_input)
    if ctx.model_ok:
        guarded(ctx, "consts", check_consts)
    guarded(ctx, "exhaustive T", exhaustive_tier, "T", 8, ctx.scale(5, 7), ctx.model_ok)    # the property's own events
    guarded(ctx, "exhaustive A", exhaustive_tier, "A", 10, 5, ctx.model_ok)
    guarded(ctx, "exhaustive B", exhaustive_tier, "B", 12, ctx.scale(4, 5), ctx.model_ok)
    guarded(ctx, "exhaustive C", exhaustive_tier, "C", 8, ctx.scale(4, 5), ctx.model_ok)    # real overlays, shared prefixes
    guarded(ctx, "exhaustive D", exhaustive_tier, "D", 9, ctx.scale(3, 4), ctx.model_ok)    # delivery by origin
    guarded(ctx, "random", random_tier, ctx.scale(1200, 15000), ctx.model_ok)
    guarded(ctx, "overlay", overlay_tier, ctx.scale(150, 2000), ctx.model_ok)
    guarded(ctx, "lifecycle", lifecycle_tier, ctx.scale(250, 4000), ctx.model_ok)
    guarded(ctx, "service", service_tier, ctx.scale(120, 1500), ctx.model_ok)
    guarded(ctx, "pseudonym", pseudonym_tier, ctx.scale(24, 200), ctx.model_ok)
    if OBS_LOST:
        ctx.disagree("white-box observations no longer available on this tree: " + ", ".join(OBS_LOST)
                     + " (public state / hops used instead)", {"lost": list(OBS_LOST)})
    coverage_gate(ctx)


REQUIRED_CLASSES = [
    # every branch of the (translated) control flow of send and of the hand-written model definitions the theorems
    # talk about must have been taken by the REAL code in this very run, or the run is void (exit 2, not a pass)
    "send:plain->raw", "send:anon->tunnelled", "send:anon->tunnelled+backlog", "send:anon->queued(circuit not ready)",
    "send:anon->queued,create", "send:anon->queued,create(failed)", "send:anon->queued,overflow",
    "send:anon->dropped(no community)", "send:anon->send_data raised after 0 ok", "send:anon->send_data raised after 1 ok",
    "send:short-packet", "burst:overflow",
    "op:anon", "op:settc", "op:newc", "op:hop", "op:close", "op:rm", "op:cancreate", "op:fail", "op:listener",
    "op:notify", "op:created", "op:overlay", "op:unload", "op:tcinit", "op:tcdata", "op:rmreq", "op:tick", "op:docirc", "op:service",
    "overlay:anonymize=True", "overlay:anonymize=False", "overlay:shared prefix, plain after anonymized",
    "overlay:shared prefix, anonymized after plain", "overlay:explicit set_anonymity(",
    "overlay:tunnel community constructed on the endpoint after 0", "overlay:tunnel community constructed on the endpoint after 1",
    "overlay:TunnelCommunity.unload inside the history", "overlay:unload of anonymized overlay while others stay",
    "overlay:unload of plain overlay while others stay", "overlay:re-load after unload, now plain",
    "overlay:wrapped endpoint is a dual-stack DispatcherEndpoint", "overlay:wrapped endpoint is a single endpoint",
    "overlay-send:walk_to:anonymized", "overlay-send:send_intro:anonymized", "overlay-send:respond:anonymized",
    "overlay-send:ez_send:anonymized", "overlay-send:punct_req:anonymized", "overlay-send:intro_resp:anonymized",
    "overlay-send:walk_to:plain", "overlay-send:intro_resp:plain",
    "deliver:from_tunnel to prefix of anonymized overlay", "deliver:from_tunnel to prefix of plain overlay",
    "deliver:from_socket to prefix of anonymized overlay", "deliver:from_socket to prefix of plain overlay",
    "life:request via remove_circuit", "life:request via on_destroy", "life:request via remove_now",
    "life:do_circuits closes some", "life:do_remove arm: no activity", "life:do_remove arm: traffic limit",
    "life:entry removed after delay", "life:send 0.0s after close requested", "life:send 4.9s after close requested",
    "pseudonym:hidden tunnel community loaded", "pseudonym:hidden tunnel community absent",
    "pseudonym-send:identity overlay:walk_to", "pseudonym-send:attestation overlay:walk_to",
    "pseudonym-send:attestation overlay:ez_send", "life:remove_circuit with a reason text",
    "life:remove_circuit without a reason text",
    "service:statistics=True", "service:statistics=False", "service-send:walk_to:anonymized",
    "exhaustive:T[:8]:depth5", "exhaustive:A[:10]:depth5", "exhaustive:B[:12]:depth4", "exhaustive:C[:8]:depth4",
    "exhaustive:D[:9]:depth3",
]


def coverage_gate(ctx: Ctx):
    """a silent loss of coverage must not look like a pass: unless the run is red anyway, every listed class of inputs
    / branches must have occurred at least once (prefix match on the distribution keys), else the run is void"""
    import vlib
    known = {k.get("signature") for k in vlib.load_known_findings() if k.get("property") == PROPERTY and k.get("status") == "known"}
    if ctx.disagreements or ctx.broken or any(f["signature"] not in known for f in ctx.failures):
        return
    missing = [c for c in REQUIRED_CLASSES if not any(k.startswith(c) and v > 0 for k, v in ctx.counts.items())]
    ctx.extra["required_classes"] = {"listed": len(REQUIRED_CLASSES), "missing": missing}
    if missing:
        raise vlib.InfraError("coverage lost: no case of " + "; ".join(missing[:6]) + " in this run")


def search(ctx: Ctx, reason: str):
    for name, fn, args in [("exhaustive A", exhaustive_tier, ("A", 10, 5, False)), ("exhaustive C", exhaustive_tier, ("C", 8, 4, False)),
                           ("exhaustive D", exhaustive_tier, ("D", 9, 3, False)), ("exhaustive B", exhaustive_tier, ("B", 12, 4, False)),
                           ("lifecycle", lifecycle_tier, (600, False)), ("random", random_tier, (3000, False)),
                           ("overlay", overlay_tier, (400, False)), ("service", service_tier, (300, False)),
                           ("pseudonym", pseudonym_tier, (60, False))]:
        if not ctx.failures:
            guarded(ctx, name, fn, *args)


def replay(ctx: Ctx, rec: dict):
    r = rec.get("replay", rec)
    if r.get("kind") == "life":
        ops = [op_from_json(j) for j in r.get("ops", [])]
        got = {}

        def script(life):
            got["life"] = life
            return iter(ops)
        n0 = len(ctx.failures)
        run_life(ctx, [script], False, "replay", on_endpoint=bool(r.get("on_endpoint", any(o[0] == "tcinit" for o in ops))))
        life = got["life"]
        for ln, rep in list(zip(life.lines, life.expect))[-10:]:
            print(f"replay: {ln[:100]} -> {rep[:200]}")
        print("replay: property", "FAILS: " + life.real.fail[1] if life.real.fail else "holds on this input")
        if len(ctx.failures) == n0:
            ctx.case(("replay",), True)
        return
    real = Real(r.get("cap"), dispatcher=bool(r.get("dispatcher")))
    ops = [op_from_json(j) for j in r.get("ops", [])]
    out = []
    for op in ops:
        if op[0] == "emit":
            out += [(line_of(sop), rep) for sop, rep in real.emit(op)] or [("emit", "nothing reached TunnelEndpoint.send")]
        else:
            out.append((line_of(op), real.do(op)))
        if real.fail is not None:
            break
    real.close()
    for ln, rep in out[-8:]:
        print(f"replay: {ln[:100]} -> {rep[:160]}")
    print("replay: property", "FAILS: " + real.fail[1] if real.fail else "holds on this input")
    if real.fail:
        ctx.oracle_fail(real.fail[0], real.fail[1], r)
    ctx.case(("replay",), True)
