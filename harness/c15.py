"""
C15 — DHT values are stored only for authorised writers and read back authentic.

Link to the code
  * translator tools/gen_dht.py regenerates lean/Ipv8/C15/GenDht.lean (constants, comparison operators, guard
    sequences of on_store_request / on_store_peer_request, max_age expression, token scope, per-signer pick, clean scan)
    from ipv8/dht/*.py on every run; model and theorems are stated over those definitions;
  * correspondence (driver drv_c15 vs the real code, same op lines):
      part A  real `Storage` under a patched clock: put / get / clean / items_older_than sequences;
      part B  a real DHTDiscoveryCommunity node on the repo's mock network under tools/vclock.py: signed find / store /
              store-peer datagrams injected with chosen source addresses, tokens of every provenance, value lists of
              every kind, clock advances across rotations and maintenance runs, explicit maintenance calls;
      part C  `post_process_values` on generated value lists, `Crawl.values`, and end-to-end `find_values` over the mock
              network against several real server nodes;
  * oracle (independent of the model): token provenance/age, limits, authenticity of what is stored and reported,
    version monotonicity, justification of every value that survives a maintenance run, store-peer gate.
"""
from __future__ import annotations

import asyncio
import hashlib
import random as _pyrandom
import struct

import gen_dht
from vlib import Ctx

PROPERTY = "C15"
LEAN_TARGETS = ["Ipv8.C15.Props"]
PROPS_FILE = "Ipv8/C15/Props.lean"
DRIVER = "drv_c15"
RULE = ("part A: random op sequences on the real Storage (put with ids equal/unequal to the key, version older/equal/"
        "newer, differing max_age; get slices; clean; clock advances); part B: scenarios of 9 registration finds + 25/40/60 generated ops (some expand to several) against a real "
        "DHTDiscoveryCommunity node (find/store/store-peer datagrams from 3 keys x 3 addresses, tokens fresh/old/other "
        "identity/other node/junk/bit-flipped, value lists with valid, oversized, too many, forged, tampered, mis-claimed, "
        "unknown and malformed entries, rate-limit bursts, routing-table fillers that change max_age, rotations, "
        "maintenance); part C: value lists for post_process_values / Crawl.values and end-to-end find_values; "
        "distinct = distinct op sequence (hash); non-trivial = sequence contains at least one accepted and one rejected "
        "store (B), one replacement decision (A), one forged/duplicate-signer entry (C), a byte string whose signed fields parse "
        "that is accepted as signed or rejected only for its signature (D), a store_on_nodes call that stored some but not all "
        "offered values (F)")
TRUSTED_BASE = [
    "tools/gen_dht.py: AST recognisers for the shapes listed in its docstring (anything else is a TranslatorError)",
    "hand-written model Ipv8/C15/Model.lean (Storage list manipulation, rate limit, interval tasks as a per-second tick, "
    "unserialize/add_value, post_process_values), tied by the correspondence run",
    "byte-level parsing of StoreRequest/FindRequest/SignedStrPayload is not modelled (C02/C03); the harness builds the bytes "
    "and tells the model what they parse to; an independent reference parser in the harness cross-checks that classification",
    "ipv8_rust_tunnels / libsodium signatures and SHA-1: abstract `Crypto` interface; unforgeability and collision "
    "resistance are outside the model",
    "routing table behaviour (which requesters are tracked, num_closer) is an input computed from the real routing table",
]
ASSUMPTIONS = [
    "token secrets never repeat (os.urandom(16)); the token hash is injective on (address, mid, secret) where a theorem says so",
    "interval tasks fire exactly at creation + k*interval (asyncio timers under the virtual clock); whole-second clock",
    "requesters are entries of the routing table (at most 20 nodes known), so the rate limit applies to them",
    "frozen spec values used by the oracle: MAX_ENTRY_SIZE 170, MAX_VALUES_IN_STORE 8, token window 600 s, MAX_ENTRY_AGE 3600, TARGET_NODES 8",
]

SPEC_MAX_SIZE = 170
SPEC_MAX_VALUES = 8
SPEC_TOKEN_WINDOW = 600
SPEC_MAX_AGE = 3600
SPEC_TARGET_NODES = 8
SPEC_MAX_FIND = 8
SPEC_VALUE_MAINTENANCE = 3600


def spec_max_age(num_closer: int) -> int:
    return SPEC_MAX_AGE // 2 ** max(0, num_closer - SPEC_TARGET_NODES + 1)


def generate(ctx: Ctx):
    src, info = gen_dht.translate()
    ctx.extra["translated"] = {k: (v if not isinstance(v, dict) else dict(v)) for k, v in info.items()}
    return [("Ipv8/C15/GenDht.lean", src)]


# ------------------------------------------------------------------------------------------------------------------
class Idx:
    def __init__(self):
        self.m = {}

    def __call__(self, b) -> int:
        return self.m.setdefault(bytes(b) if isinstance(b, (bytes, bytearray)) else b, len(self.m))


def toy_sig(pk: int, d: int, v: int) -> int:
    return ((pk * 1048576 + d) * 8589934592 + v) * 2 + 1


def det_key(rng):
    """curve25519 key pair derived from the seeded PRNG (ed25519 signatures are deterministic too), so that node ids,
    routing-table shapes and every byte on the wire are a function of VERIF_SEED"""
    from ipv8.keyvault.crypto import default_eccrypto
    return default_eccrypto.key_from_private_bin(b"LibNaCLSK:" + bytes(rng.getrandbits(8) for _ in range(64)))


def det_node(rng, overlay_cls):
    from ipv8.peer import Peer
    from ipv8.test.mocking.ipv8 import MockIPv8
    return MockIPv8(Peer(det_key(rng)), overlay_cls)


class World:
    """keys, indices and the blob factory shared by parts B and C"""

    def __init__(self, rng, nkeys: int = 3):
        from ipv8.keyvault.crypto import default_eccrypto
        from ipv8.messaging.serialization import default_serializer
        self.ec = default_eccrypto
        self.ser = default_serializer
        self.keys = [det_key(rng) for _ in range(nkeys)]
        self.pkb = [k.pub().key_to_bin() for k in self.keys]
        self.mid = [hashlib.sha1(p).digest() for p in self.pkb]
        self.h20, self.pks, self.datas, self.blobs = Idx(), Idx(), Idx(), Idx()
        self.truth = {}  # blob bytes -> dict
        self.cache = {}

    # -- blob factory -------------------------------------------------------------------------------------------
    def blob(self, spec: tuple):
        """spec -> bytes; records ground truth (independent of ipv8's parser) for the oracle and the model line"""
        if spec in self.cache:
            return self.cache[spec]
        from ipv8.dht.payload import SignedStrPayload
        kind = spec[0]
        t = {"spec": spec, "ok": False, "signer": None, "version": 0, "data": None}
        if kind == "str":
            data = b"d%d" % spec[1] + b"." * spec[2]
            b = b"\x00" + data
            t.update(ok=True, data=data, wire=("s", data))
        elif kind == "unknown":
            b = bytes([spec[1]]) + b"whatever"
            t.update(wire=("u",))
        elif kind == "empty":
            b = b""
            t.update(wire=("m",))
        elif kind == "trunc":
            b = [b"\x01\x00", b"\x01\x00\x03abc\x00\x00", b"\x01"][spec[1] % 3]
            t.update(wire=("m",))
        else:
            signer, dnum, version = spec[1], spec[2], spec[3]
            data = b"s%d" % dnum
            if kind == "sig_big":
                data += b"+" * spec[4]
                kind = "sig"
            pk = self.pkb[signer]
            claim = pk
            if kind == "sig_claim":
                claim = self.pkb[(signer + 1) % len(self.pkb)]
            if kind == "sig_badkey":
                claim = b"LibNaCLPK:short"
            if kind == "sig_trail":
                claim = pk + b"Z"       # parses to the same key: a second byte string for one signer
            body = b"\x01" + self.ser.pack_serializable(SignedStrPayload(data, version, claim))
            if kind == "sig_junk":
                body += b"JUNK"
            sig = self.ec.create_signature(self.keys[signer], body)
            good = toy_sig(self.pks(claim), self.datas(data), version)
            if kind in ("sig", "sig_junk"):
                b = body + sig
                t.update(ok=True, signer=signer, version=version, data=data, wire=("g", data, version, claim, good))
            elif kind == "sig_badsig":
                b = body + bytes([sig[0] ^ 1]) + sig[1:]
                t.update(wire=("g", data, version, claim, good + 2))
            elif kind == "sig_tamper":
                tb = bytearray(body)
                tb[3] ^= 0x20  # first data byte ('s' -> 'S'): signature no longer matches
                b = bytes(tb) + sig
                data2 = bytes(tb[3:3 + len(data)])
                t.update(wire=("g", data2, version, claim, good), data=None)
            elif kind == "sig_vtamper":
                tb = bytearray(body)
                off = 3 + len(data)
                tb[off + 3] ^= 1  # lowest version byte
                b = bytes(tb) + sig
                t.update(wire=("g", data, version ^ 1, claim, good))
            elif kind == "sig_claim":
                b = body + sig
                t.update(wire=("g", data, version, claim, toy_sig(self.pks(pk), self.datas(data), version)))
            elif kind == "sig_badkey":
                b = body + sig
                t.update(wire=("m",))
            elif kind == "sig_trail":
                # the signature verifies under the key these bytes parse to.  The property leaves open whether such an
                # entry is accepted (ok=None); if it is, it counts as a value of signer `signer`, not of a new signer
                b = body + sig
                t.update(ok=None, signer=signer, version=version, data=data,
                         wire=("g", data, version, pk, toy_sig(self.pks(pk), self.datas(data), version)))
            else:
                raise ValueError(kind)
        t["bytes"] = b
        if t.get("wire", ("",))[0] == "g":
            t["claim"] = claim        # the key bytes on the wire; wire[3] is the canonical encoding of the key they parse to
        self._selfcheck(b, t)
        self.truth[b] = t
        self.cache[spec] = b
        return b

    def _selfcheck(self, b: bytes, t: dict):
        """reference parser written from the documented wire format; must agree with the classification by construction"""
        w = t["wire"]
        if len(b) == 0:
            got = ("m",)
        elif b[0] == 0:
            got = ("s", b[1:])
        elif b[0] == 1:
            try:
                (n,) = struct.unpack_from(">H", b, 1)
                data = b[3:3 + n]
                (ver,) = struct.unpack_from(">I", b, 3 + n)
                (m,) = struct.unpack_from(">H", b, 7 + n)
                pk = b[9 + n:9 + n + m]
                if len(data) != n or len(pk) != m:
                    raise struct.error
                try:
                    pub = self.ec.key_from_public_bin(pk)
                    valid = self.ec.is_valid_signature(pub, b[:-64], b[-64:])
                    got = ("g", data, ver, pk, valid)
                except ValueError:
                    got = ("m",)
            except struct.error:
                got = ("m",)
        else:
            got = ("u",)
        if w[0] == "g":
            exp = ("g", w[1], w[2], t["claim"], w[4] == toy_sig(self.pks(w[3]), self.datas(w[1]), w[2]))
        else:
            exp = w
        if got != exp:
            raise AssertionError(f"harness self-check: blob {t['spec']} classified {exp} but reference parser says {got}")
        if t["ok"] is not None and t["ok"] != (got[0] == "s" or (got[0] == "g" and got[4])):
            raise AssertionError(f"harness self-check: acceptability of {t['spec']}")

    def line(self, b: bytes) -> str:
        t = self.truth[b]
        w = t["wire"]
        head = f"{self.blobs(b)}:{len(b)}:{self.h20(hashlib.sha1(b).digest())}"
        if w[0] == "s":
            return f"{head}:s:{self.datas(w[1])}"
        if w[0] == "g":
            return f"{head}:g:{self.datas(w[1])}:{w[2]}:{self.pks(w[3])}:{self.h20(hashlib.sha1(w[3]).digest())}:{w[4]}"
        return f"{head}:{w[0]}"

    def uids(self, blobs) -> str:
        return "[" + ",".join(str(self.blobs.m.get(bytes(b), "?")) for b in blobs) + "]"


def rand_blob_spec(rng, nkeys=3, big=True):
    r = rng.random()
    if r < 0.04 and big:
        # signed entry around the size limit: total length = 147 + len(data); data = b"sN" + padding
        return ("sig_big", rng.randrange(nkeys), rng.randrange(4), rng.choice([0, 1, 2, 3]), rng.choice([19, 20, 21, 22, 23]))
    if r < 0.22:
        return ("str", rng.randrange(6), 0)
    if r < 0.26 and big:
        # around the size limit: total length = 1 + len(b"dN") + pad
        return ("str", rng.randrange(3), rng.choice([166, 167, 168, 169, 200]))
    if r < 0.66:
        return (rng.choice(["sig", "sig", "sig", "sig_junk"]), rng.randrange(nkeys), rng.randrange(4),
                rng.choice([0, 1, 2, 2, 3, 5, 7] * 3 + [2 ** 32 - 2, 2 ** 32 - 1]))
    if r < 0.88:
        return (rng.choice(["sig_badsig", "sig_tamper", "sig_vtamper", "sig_claim"]), rng.randrange(nkeys),
                rng.randrange(4), rng.choice([0, 1, 2, 3, 5, 7, 9, 2 ** 31, 2 ** 32 - 1]))
    if r < 0.90:
        return ("sig_trail", rng.randrange(nkeys), rng.randrange(4), rng.choice([0, 1, 2, 3, 5, 7, 9]))
    if r < 0.92:
        return ("unknown", rng.choice([2, 3, 255]))
    if r < 0.95:
        return ("trunc", rng.randrange(3))
    if r < 0.97:
        return ("empty",)
    return ("sig_badkey", rng.randrange(nkeys), rng.randrange(4), rng.randrange(4))


# ==================================================================================================================
# Part A — Storage
# ==================================================================================================================
def gen_storage_ops(rng, n):
    ops = []
    uid = 0
    for _ in range(n):
        r = rng.random()
        if r < 0.50:
            key = rng.randrange(3)
            idk = rng.choice(["own", "id", "id", "id", "hash"])
            ident = rng.randrange(4)
            if rng.random() < 0.75:
                uid += 1
                data = uid
            else:
                data = rng.randrange(1, uid + 1) if uid else 1
            ops.append(("put", key, idk, ident, data, rng.choice([3, 5, 10, 10, 60, 450, 900, 3600]),
                        rng.choice([0, 0, 1, 2, 3, 4])))
        elif r < 0.65:
            ops.append(("adv", rng.choice([0, 1, 1, 2, 3, 4, 5, 6, 9, 10, 11, 30, 59, 60, 61, 449, 450, 451, 3600])))
        elif r < 0.80:
            ops.append(("clean",))
        elif r < 0.95:
            ops.append(("get", rng.randrange(3), rng.choice([0, 0, 0, 1, 2, 5]), rng.choice([None, None, 0, 1, 2, 8])))
        else:
            ops.append(("old", rng.choice([0, 1, 5, 10, 60])))
    ops.append(("clean",))
    return ops


def run_storage_seq(ctx: Ctx, ops, lines_out, impl_out):
    """execute on the real Storage under a patched clock; oracle on the implementation; returns False after an oracle failure"""
    import time as _time

    from ipv8.dht import storage as storage_mod
    from ipv8.dht.storage import Storage
    import types
    now = [1000]
    real_time_mod = storage_mod.time
    storage_mod.time = types.SimpleNamespace(time=lambda: float(now[0]))   # only storage.py sees the fake clock
    try:
        st = Storage()
        h20 = Idx()
        keys = [hashlib.sha1(b"key%d" % i).digest() for i in range(3)]
        ids = [hashlib.sha1(b"id%d" % i).digest() for i in range(4)]
        meta = {}       # data bytes -> uid
        puts = []       # (key, data, time, max_age, id, version)
        lines_out.append("sreset")
        impl_out.append("ok")
        replaced = False
        for i, op in enumerate(ops):
            ctx.count("A.op:" + op[0])
            if op[0] == "put":
                _, k, idk, ident, d, max_age, ver = op
                key = keys[k]
                data = b"blob%d" % d
                meta[data] = d
                if idk == "own":
                    id_ = key
                elif idk == "id":
                    id_ = ids[ident]
                else:
                    id_ = None
                eff_id = id_ or hashlib.sha1(data).digest()
                before = [(v.id, v.version, v.data) for v in st.items.get(key, [])]
                st.put(key, data, id_=id_, max_age=max_age, version=ver)
                after = [(v.id, v.version, v.data) for v in st.items[key]]
                puts.append((key, data, now[0], max_age, eff_id, ver))
                lines_out.append(f"sput {now[0]} {h20(key)} {h20(eff_id)} {d} {max_age} {ver}")
                impl_out.append("ok")
                old = [x for x in before if x[0] == eff_id]
                if old:
                    replaced = True
                    ctx.count("A.put:" + ("older" if ver < old[0][1] else "equal" if ver == old[0][1] else "newer"))
                    if ver < old[0][1] and (old[0] not in after or any(x[0] == eff_id and x[1] < old[0][1] for x in after)):
                        ctx.oracle_fail("Storage.put:older-replaced-newer",
                                        f"put of version {ver} replaced the stored version {old[0][1]} of the same id",
                                        {"part": "A", "ops": ops[:i + 1]})
                        return False, replaced
                else:
                    ctx.count("A.put:new" + (":id==key" if eff_id == key else ""))
                if len([x for x in after if x[0] == eff_id]) != 1:
                    ctx.oracle_fail("Storage.put:duplicate-id", "two values with one id under one key",
                                    {"part": "A", "ops": ops[:i + 1]})
                    return False, replaced
            elif op[0] == "adv":
                now[0] += op[1]
                continue
            elif op[0] == "clean":
                # branch classes of cleanItems, from the harness's own record of what is past its lifetime
                for key in keys:
                    flags = [now[0] - v.last_update > v.max_age for v in st.items.get(key, [])]
                    if not flags:
                        continue
                    if not any(flags):
                        ctx.count("A.clean:nothing-expired")
                    elif all(flags):
                        ctx.count("A.clean:all-expired")
                    elif any(f and not all(flags[j:]) for j, f in enumerate(flags)):
                        ctx.count("A.clean:expired-in-front-of-fresh")     # the pattern the old tail scan got wrong
                    else:
                        ctx.count("A.clean:expired-tail-only")
                st.clean()
                lines_out.append(f"sclean {now[0]}")
                impl_out.append("ok")
                # every survivor must be justified by some put of that (key, data) that is not past its lifetime
                for key in keys:
                    for data in st.get(key):
                        if not any(p[0] == key and p[1] == data and now[0] - p[2] <= p[3] for p in puts):
                            ctx.count("A.expired-survivor")
                            ctx.oracle_fail("Storage.clean:expired-survives",
                                            f"value {data!r} is still returned by get() after clean() at t={now[0]} although "
                                            f"every put of it is past its max_age",
                                            {"part": "A", "ops": ops[:i + 1]})
                            return False, replaced
            elif op[0] == "get":
                _, k, start, limit = op
                res = st.get(keys[k], starting_point=start, limit=limit)
                lines_out.append(f"sget {h20(keys[k])} {start} {'none' if limit is None else limit}")
                impl_out.append("[" + ",".join(str(meta[d]) for d in res) + "]")
                ctx.count("A.get:len%d" % min(len(res), 4))
                total = len(st.items.get(keys[k], []))
                ctx.count("A.get:" + ("limit-none" if limit is None else "limit-zero" if limit == 0 else
                                      "limit-cuts" if start + limit < total else "limit-not-reached"))
                if start >= total > 0:
                    ctx.count("A.get:start-beyond-end")
            elif op[0] == "old":
                res = st.items_older_than(op[1])
                lines_out.append(f"sold {now[0]} {op[1]}")
                impl_out.append("[" + ",".join(f"{h20(k)}:{meta[d]}" for k, d in res) + "]")
            # full state after each mutating op
            if op[0] in ("put", "clean"):
                for k in range(3):
                    lines_out.append(f"sget {h20(keys[k])} 0 none")
                    impl_out.append("[" + ",".join(str(meta[d]) for d in st.get(keys[k])) + "]")
        return True, replaced
    finally:
        storage_mod.time = real_time_mod


def exhaustive_storage_seqs(depth: int):
    """every op sequence up to `depth` over a small alphabet (one key; ids: key itself / one other; two versions, two
    lifetimes; two clock steps; clean)"""
    import itertools
    alphabet = [("put", 0, idk, 0, None, age, ver) for idk in ("own", "id") for age in (5, 60) for ver in (0, 1)]
    alphabet += [("adv", 6), ("adv", 61), ("clean",)]
    for d in range(1, depth + 1):
        for combo in itertools.product(alphabet, repeat=d):
            if combo[-1][0] == "adv":
                continue
            ops, uid = [], 0
            for o in combo:
                if o[0] == "put":
                    uid += 1
                    o = o[:4] + (uid,) + o[5:]
                ops.append(o)
            ops.append(("clean",))
            yield ops


def part_a(ctx: Ctx, nseq: int, use_model: bool, seqs=None):
    rng = ctx.rng
    lines, impl, spans = [], [], []
    for s in range(nseq):
        ops = seqs[s] if seqs else gen_storage_ops(rng, rng.choice([8, 15, 30, 60]))
        a = len(lines)
        try:
            ok, nontrivial = run_storage_seq(ctx, ops, lines, impl)
        except AssertionError:
            raise
        except Exception as e:  # the model never raises on these sequences
            ctx.disagree(f"part A: implementation raised {type(e).__name__}: {e}", {"part": "A", "ops": ops})
            del lines[a:], impl[a:]
            continue
        spans.append((a, len(lines), ops))
        ctx.case(("A", repr(ops)), nontrivial)
        if s < 1:
            ctx.sample({"part": "A", "ops": ops[:6]})
    if use_model and lines:
        replies = ctx.driver().batch(lines)
        for a, b, ops in spans:
            for j in range(a, b):
                if replies[j] != impl[j]:
                    ctx.disagree(f"part A: model {replies[j]!r} != implementation {impl[j]!r} on `{lines[j]}`",
                                 {"part": "A", "ops": ops, "line": lines[j], "at": j - a})
                    break


# ==================================================================================================================
# Part B — a real DHT node on the mock network
# ==================================================================================================================
ADDRS = [("10.0.0.1", 1000), ("10.0.0.1", 1001), ("10.9.8.7", 1000)]
ADV_CHOICES = ([0, 0, 1, 1, 2, 4, 5, 6, 8, 20] * 2 + [30, 60, 100, 150, 290, 299, 300, 301, 310] * 2
               + [450, 599, 600, 601, 900, 1800, 3599, 3600, 3601])


def gen_node_ops(rng, n):
    ops = []
    # register every identity in the routing table first (so the rate limit applies to all of them)
    for k in range(3):
        for a in range(3):
            ops.append(("find", (k, a), rng.randrange(5), 0, False))
    for k in range(3):
        if rng.random() < 0.5:
            # the requester key is a VERIFIED peer of the node (introduction exchanged earlier, at one of its addresses):
            # message handlers then reuse the node's Peer object for it instead of building a fresh one per datagram
            ops.insert(rng.randrange(len(ops) + 1), ("verify", k, rng.randrange(3)))
    nfill = rng.choice([0, 0, 4, 8, 10])
    if nfill:
        ops.append(("fill", nfill))
    if rng.random() < 0.5:
        ops.append(("sfind", rng.randrange(6)))   # the node under test is a client too: it holds received tokens
    for _ in range(n):
        r = rng.random()
        ident = (rng.randrange(3), rng.randrange(3))
        if rng.random() < 0.5:
            ops.append(("adv", rng.choice([1, 2, 3, 5, 7])))
        if r < 0.20:
            ops.append(("find", ident, rng.randrange(6), rng.choice([0, 0, 0, 0, 1, 2, 9]), rng.random() < 0.1,
                        rng.random() < 0.35))
        elif r < 0.58:
            tk = rng.choice(["last", "last", "last", "last", "first", "nth", "other_addr", "other_key", "s2", "junk",
                             "flip", "last"])
            nvals = rng.choice([1] * 7 + [2] * 4 + [3, 3, 4, 8, 8, 9, 10, 0])
            vals = tuple(rand_blob_spec(rng) for _ in range(nvals))
            if tk == "last" and rng.random() < 0.5:
                ops.append(("find", ident, rng.randrange(6), 0, False, rng.random() < 0.3))   # refresh the token first
            ops.append(("store", ident, (tk, rng.randrange(8)), rng.randrange(6), vals))
        elif r < 0.78:
            ops.append(("adv", rng.choice(ADV_CHOICES)))
        elif r < 0.81:
            ops.append(("rotate",))
        elif r < 0.87:
            ops.append(("clean",))
        elif r < 0.875:
            # many distinct plain values under one target: more than MAX_VALUES_IN_FIND are stored, then looked up
            tgt = rng.randrange(6)
            base = rng.randrange(1000)
            for part in range(rng.choice([2, 2, 3])):
                ops.append(("find", ident, tgt, 0, False))
                ops.append(("store", ident, ("last", 0), tgt,
                            tuple(("str", 100 + base + 8 * part + j, 0) for j in range(rng.choice([5, 8, 8])))))
            ops.append(("find", ident, tgt, 0, False))
            ops.append(("find", ident, tgt, rng.choice([1, 3, 9]), False))
        elif r < 0.877:
            ops.append(("verify", rng.randrange(3), rng.randrange(3)))
        elif r < 0.880:
            ops.append(("sfind", rng.randrange(6)))
        elif r < 0.885:
            ops.append(("ping", ident))
        elif r < 0.90:
            ops.append(("burst", ident, rng.choice([9, 10, 11, 12])))
        elif r < 0.93:
            ops.append(("fill", rng.choice([2, 4, 6])))
        else:
            tk = rng.choice(["last", "last", "last", "first", "other_addr", "other_key", "s2", "junk", "flip"])
            ops.append(("storepeer", ident, (tk, rng.randrange(8)), rng.choice(["own", "own", "own", "other", "rand"])))
            if ops[-1][2][0] == "last" and ops[-1][3] == "own" and rng.random() < 0.5:
                ops.append(("find", ident, rng.randrange(6), 0, False))
                ops.append(ops[-2])      # the same peer registers again (fresh token): must not be stored twice
    ops.append(("clean",))
    return ops


class Cap:
    """a mock-network endpoint that records what it receives"""

    def __init__(self, mep, addr):
        class _Cap(mep.MockEndpoint):
            def __init__(s, a):
                super().__init__(a, a)
                s.open()
                s.got = []

            def notify_listeners(s, packet):
                s.got.append(packet)
        self.ep = _Cap(addr)


async def drain(n=4):
    for _ in range(n):
        await asyncio.sleep(0)


class NodeRun:
    """executes one symbolic op list against a fresh real node; collects protocol lines and implementation answers"""

    def __init__(self, ctx: Ctx, ops, tag="B"):
        self.ctx, self.ops, self.tag = ctx, ops, tag
        self.lines, self.impl = [], []
        self.failed = False
        self.flags = set()

    def emit(self, line, got):
        self.lines.append(line)
        self.impl.append(got)

    def fail(self, sig, what, upto):
        if not self.failed:
            self.ctx.oracle_fail(sig, what, {"part": self.tag, "ops": self.ops[:upto + 1]})
            self.failed = True

    async def run(self):
        from ipv8.dht.discovery import DHTDiscoveryCommunity
        from ipv8.dht.payload import (FindRequestPayload, FindResponsePayload, PingRequestPayload,
                                      StorePeerRequestPayload, StoreRequestPayload)
        from ipv8.dht.routing import Node, calc_node_id, distance
        from ipv8.messaging.interfaces.udp.endpoint import UDPv4Address
        from ipv8.messaging.payload_headers import BinMemberAuthenticationPayload
        from ipv8.test.mocking import endpoint as mep
        from ipv8.test.mocking.ipv8 import MockIPv8
        ctx = self.ctx
        loop = asyncio.get_running_loop()
        mep.internet.clear()
        W = World(ctx.rng)
        self.W = W
        S = det_node(ctx.rng, DHTDiscoveryCommunity)
        S2 = det_node(ctx.rng, DHTDiscoveryCommunity)
        for n in (S, S2):
            for tname in ("node_maintenance", "store_peer", "ping_all"):
                n.overlay.cancel_pending_task(tname)
        ov = S.overlay
        addrs = [UDPv4Address(*a) for a in ADDRS]
        caps = [Cap(mep, a).ep for a in addrs]
        sink = Cap(mep, UDPv4Address("10.255.255.254", 9)).ep
        aidx = Idx()
        nidx = Idx()
        t_start = loop.time()
        assert t_start == int(t_start)
        # observe when the node really cleans its storages (whatever schedule the code uses)
        from ipv8.dht import storage as storage_mod
        clean_runs = []
        orig_clean = storage_mod.Storage.clean

        def recording_clean(st_self, _orig=orig_clean):
            if st_self in ov.storages.values():
                clean_runs.append(loop.time())
            return _orig(st_self)
        storage_mod.Storage.clean = recording_clean
        self._restore = lambda: setattr(storage_mod.Storage, "clean", orig_clean)
        self.emit(f"reset {int(t_start)}", "ok")
        targets = [hashlib.sha1(b"target0").digest(), W.mid[0], W.mid[1],
                   hashlib.sha1(W.blob(("str", 0, 0))).digest(), hashlib.sha1(b"target4").digest(),
                   hashlib.sha1(b"target5").digest()]
        prefix = ov.get_prefix()
        ser = ov.serializer
        ident_no = [0]

        def pack(k, msg_id, payload):
            body = prefix + bytes([msg_id]) + ser.pack_serializable_list(
                [BinMemberAuthenticationPayload(W.pkb[k]), payload])
            return body + W.ec.create_signature(W.keys[k], body)

        def unpack(data, cls):
            auth, _ = ser.unpack_serializable(BinMemberAuthenticationPayload, data, offset=23)
            rem = data[2 + len(auth.public_key_bin):-64]
            return ser.unpack_serializable_list([cls], rem, offset=23)[0]

        async def deliver(node, a, packet, want_msg):
            cap = caps[a]
            n0 = len(cap.got)
            node.endpoint.notify_listeners((addrs[a], packet))
            await drain()
            for src, data in cap.got[n0:]:
                if data[22] == want_msg and src == node.endpoint.wan_address:
                    return data
            return None

        def storage_of():
            return ov.storages.get(UDPv4Address)

        def dump(key):
            st = storage_of()
            return list(st.get(key)) if st is not None else []

        def num_closer(target):
            rt = ov.routing_tables.get(UDPv4Address)
            if rt is None:
                return 0
            # closest_nodes() collapses entries that share a public key (Peer equality); use the table's own answer
            nodes = rt.closest_nodes(target, max_nodes=20)
            my = ov.get_my_node_id(ov.my_peer)
            return sum(1 for n in nodes if distance(n.id, target) < distance(my, target))

        def who(ident):
            k, a = ident
            nid = nidx(calc_node_id(addrs[a], W.mid[k]))
            return f"{aidx(addrs[a])} {W.pks(W.pkb[k])} {W.h20(W.mid[k])}", nid

        # token bookkeeping (provenance is the harness's own record, never read from the node under test)
        issued = []          # (bytes, ident, time, model ref or None)
        by_ident = {}
        s2_tokens = {}
        model_refs = [0]
        accepted = []        # (target, blob, time, spec max age)
        verified = set()     # requester keys that are verified peers of the node
        ntok_before = [0]
        npeers = []

        def pick_token(ident, tk):
            kind, n = tk
            mine = by_ident.get(ident, [])
            if kind == "last" and mine:
                return mine[-1]
            if kind == "first" and mine:
                return mine[0]
            if kind == "nth" and mine:
                return mine[n % len(mine)]
            if kind == "other_addr":
                o = by_ident.get((ident[0], (ident[1] + 1 + n % 2) % 3), [])
                if o:
                    return o[-1]
            if kind == "other_key":
                o = by_ident.get(((ident[0] + 1 + n % 2) % 3, ident[1]), [])
                if o:
                    return o[-1]
            if kind == "s2" and ident in s2_tokens:
                return (s2_tokens[ident], None, None, None)
            if kind == "flip" and mine:
                t = mine[-1][0]
                return (bytes([t[0] ^ 0x80]) + t[1:], None, None, None)
            return (hashlib.sha1(b"junk%d" % n).digest(), None, None, None)

        def token_ok(tok, ident, now):
            return tok[1] == ident and tok[2] is not None and now - tok[2] < SPEC_TOKEN_WINDOW

        def tok_ref(tok):
            return "j" if tok[3] is None else f"r{tok[3]}"

        async def do_find(i, ident, ti, offset, force, node=S, lan_other=False):
            k, a = ident
            ident_no[0] += 1
            lan = addrs[a]
            if lan_other and node is S:
                # the requester names another address as its LAN address: the token must still be bound to the source
                lan = addrs[(a + 1 + ident_no[0] % 2) % 3]
                ctx.count("B.find:lan-differs-from-source")
            pkt = pack(k, FindRequestPayload.msg_id,
                       FindRequestPayload(ident_no[0], lan, targets[ti], offset, force))
            data = await deliver(node, a, pkt, FindResponsePayload.msg_id)
            if node is not S:
                if data is not None:
                    s2_tokens[ident] = unpack(data, FindResponsePayload).token
                return
            w, nid = who(ident)
            line = f"find {w} {nid} {W.h20(targets[ti])} {offset} {1 if force else 0}"
            if data is None:
                self.emit(line, "none")
                ctx.count("B.find:blocked")
                return
            resp = unpack(data, FindResponsePayload)
            ref = model_refs[0]
            model_refs[0] += 1
            rec = (resp.token, ident, loop.time(), ref)
            issued.append(rec)
            by_ident.setdefault(ident, []).append(rec)
            self.emit(line, f"tok#{ref} {W.uids(resp.values)}")
            ctx.count("B.find:vals%d" % min(len(resp.values), 9))
            if force:
                ctx.count("B.find:force-nodes")
            if offset:
                ctx.count("B.find:offset>0" + (":nonempty" if resp.values else ":empty"))
            stored_now = len(dump(targets[ti]))
            if stored_now > 8 and not force:
                ctx.count("B.find:more-stored-than-limit")
            if len(resp.values) > SPEC_MAX_FIND:
                ctx.count("B.find:more-than-8-values-returned")   # no oracle: the property fixes no find limit; the model
                #                                                   (generated MAX_VALUES_IN_FIND) is compared instead

        async def do_ping(ident):
            k, a = ident
            ident_no[0] += 1
            data = await deliver(S, a, pack(k, PingRequestPayload.msg_id, PingRequestPayload(ident_no[0])), 2)
            _, nid = who(ident)
            self.emit(f"ping {nid}", "resp=1" if data is not None else "resp=0")
            ctx.count("B.ping:" + ("answered" if data is not None else "blocked"))

        for i, op in enumerate(self.ops):
            if self.failed:
                break
            now = loop.time()
            ntok_before[0] = len(ov.tokens)
            ctx.count("B.op:" + op[0])
            if op[0] == "find":
                await do_find(i, op[1], op[2], op[3], op[4], lan_other=len(op) > 5 and bool(op[5]))
                if op[1] not in s2_tokens:
                    await do_find(i, op[1], op[2], 0, False, node=S2)
            elif op[0] == "burst":
                for j in range(op[2]):
                    if j % 3 == 2:
                        await do_ping(op[1])      # pings count towards the same rate limit
                    else:
                        await do_find(i, op[1], 0, 0, True)
            elif op[0] == "ping":
                await do_ping(op[1])
            elif op[0] == "verify":
                from ipv8.peer import Peer
                ov.network.add_verified_peer(Peer(W.keys[op[1]].pub(), addrs[op[2]]))
                verified.add(op[1])
            elif op[0] == "sfind":
                # the node under test looks a key up itself (at the second real node): it now holds a RECEIVED token,
                # which its own token_maintenance - run by the task manager during later advances - has to expire
                s2n = Node(S2.my_peer.public_key, S2.endpoint.wan_address)
                rt = ov.get_routing_table(s2n)
                if not rt.has(s2n.id):
                    rt.add(s2n)
                t0 = loop.time()
                try:
                    await ov.find_values(targets[op[1]])
                    ctx.count("B.sfind:returned")
                except Exception as e:
                    ctx.count("B.sfind:raised:" + type(e).__name__)
                await drain(6)
                # the pool addresses never answer the node's own find requests; without this their routing-table entries
                # would count as failed, be evicted by later additions and silently lose their rate-limit history
                # (the standing assumption of part B is that requesters stay routing-table entries)
                for bucket in rt.trie.values():
                    for rn in bucket.nodes.values():
                        rn.failed = 0
                dt = loop.time() - t0
                assert dt == int(dt)
                # the second node answers when the crawl gets to it (silent nodes ahead of it time out first)
                t_ans = ov.tokens[s2n.id][0] if s2n.id in ov.tokens and t0 <= ov.tokens[s2n.id][0] <= t0 + dt else None
                if t_ans is not None:
                    if t_ans > t0:
                        self.emit(f"adv {int(t_ans - t0)}", "ok")
                    self.emit(f"recvtok {nidx(s2n.id)}", "ok")
                    if t0 + dt > t_ans:
                        self.emit(f"adv {int(t0 + dt - t_ans)}", "ok")
                elif dt:
                    self.emit(f"adv {int(dt)}", "ok")
                self.emit("ntok", str(len(ov.tokens)))
            elif op[0] == "fill":
                rt = ov.get_routing_table(Node(W.keys[0].pub(), addrs[0]))
                for _ in range(op[1]):
                    if sum(len(b.nodes) for b in rt.trie.values()) >= 19:
                        break
                    key = det_key(ctx.rng).pub()
                    ip = "%d.%d.%d.%d" % tuple(_pyrandom.randrange(1, 255) for _ in range(4))
                    mep.internet[UDPv4Address(ip, 7000)] = sink   # a silent host: punctures sent to it vanish
                    rt.add(Node(key, UDPv4Address(ip, 7000)))
            elif op[0] == "adv":
                if op[1]:
                    await asyncio.sleep(op[1])
                    await drain(6)
                    self.emit(f"adv {op[1]}", "ok")
                    # a scheduled value_maintenance run (every SPEC_VALUE_MAINTENANCE s since creation) fell into this
                    # advance: whatever survives must have been within its lifetime when that run happened
                    t_end = loop.time()
                    runs_in_adv = [t for t in clean_runs if now < t <= t_end]
                    if t_end - max(clean_runs + [t_start]) > 2 * SPEC_MAX_AGE:
                        self.fail("DHTCommunity.value_maintenance:never-runs",
                                  f"no maintenance run of the storage for {int(t_end - max(clean_runs + [t_start]))} s "
                                  f"(twice the longest lifetime): expired values are never removed", i)
                    if runs_in_adv:
                        t_run = runs_in_adv[-1]
                        ctx.count("B.scheduled-maintenance-crossed")
                        for ti, tg in enumerate(targets):
                            for b in dump(tg):
                                if not any(x[0] == tg and x[1] == b and t_run - x[2] <= x[3] for x in accepted):
                                    self.fail("Storage.clean:expired-survives",
                                              f"value {W.truth.get(b, {}).get('spec')} under target {ti} is still stored at "
                                              f"t+{int(t_end - t_start)}, after the maintenance run due at t+{int(t_run - t_start)}, "
                                              f"although every accepted store of it was past its lifetime by then", i)
            elif op[0] == "rotate":
                ov.token_maintenance()
                self.emit("rotate", "ok")
            elif op[0] == "clean":
                ov.value_maintenance()
                self.emit("clean", "ok")
                for ti, tg in enumerate(targets):
                    for b in dump(tg):
                        if not any(x[0] == tg and x[1] == b and now - x[2] <= x[3] for x in accepted):
                            self.fail("Storage.clean:expired-survives",
                                      f"value {W.truth.get(b, {}).get('spec')} under target {ti} is still stored after "
                                      f"value_maintenance() at t+{int(now - t_start)} although every accepted store of it is "
                                      f"past its lifetime", i)
            elif op[0] == "store":
                _, ident, tk, ti, vspecs = op
                k, a = ident
                tok = pick_token(ident, tk)
                vals = [W.blob(s) for s in vspecs]
                target = targets[ti]
                before = dump(target)
                nc = num_closer(target)
                ident_no[0] += 1
                pkt = pack(k, StoreRequestPayload.msg_id, StoreRequestPayload(ident_no[0], tok[0], target, vals))
                data = await deliver(S, a, pkt, 4)
                after = dump(target)
                w, nid = who(ident)
                self.emit(f"store {w} {nid} {tok_ref(tok)} {W.h20(target)} {nc} " + " ".join(W.line(b) for b in vals),
                          "resp=1" if data is not None else "resp=0")
                changed = before != after
                ok_tok = token_ok(tok, ident, now)
                big = any(len(b) > SPEC_MAX_SIZE for b in vals)
                many = len(vals) > SPEC_MAX_VALUES
                ctx.count(f"B.store:tok={tk[0]}:{'valid' if ok_tok else 'invalid'}")
                ctx.count("B.requester:" + ("verified-peer" if k in verified else "unknown-peer"))
                if tok[1] is not None and tok[1][0] == k and tok[1][1] != a:
                    ctx.count("B.store:token-of-same-key-other-address:" +
                              ("verified-peer" if k in verified else "unknown-peer"))
                ctx.count("B.store:" + ("accepted" if data is not None else "changed-no-resp" if changed else "rejected"))
                ctx.count("B.store:max_age=%d" % spec_max_age(nc))
                for s in vspecs:
                    ctx.count("B.value:" + s[0])
                if big:
                    ctx.count("B.store:oversized")
                for b in vals:
                    if SPEC_MAX_SIZE - 1 <= len(b) <= SPEC_MAX_SIZE + 2:
                        ctx.count(f"B.value-at-limit:{'signed' if W.truth[b]['wire'][0] == 'g' else 'plain'}:{len(b)}")
                if many:
                    ctx.count("B.store:too-many")
                if data is None and not changed:
                    ctx.count("B.reject-class:" + ("limits" if (big or many) else "token" if not ok_tok else
                                                   "blocked-or-noop"))
                    if ok_tok:
                        ctx.count("B.guard-only:" + ("size" if big and not many else "count" if many and not big else
                                                     "size+count" if big else "blocked-or-noop"))
                    elif not big and not many:
                        ctx.count("B.guard-only:token")
                if any(hashlib.sha1(W.truth[b]["wire"][3]).digest() == target if W.truth[b]["wire"][0] == "g"
                       else hashlib.sha1(b).digest() == target for b in vals):
                    ctx.count("B.store:value-id-equals-target")
                if data is None and changed:
                    ctx.count("B.store:exception-after-partial-store")
                if (data is not None or changed) and tok[2] is not None:
                    age = int(now - tok[2])
                    ctx.count("B.accepted-token-age:" + ("0-9" if age < 10 else "10-299" if age < 300 else
                                                         "300-599" if age < 600 else "600+"))
                if data is not None or changed:
                    self.flags.add("acc")
                    if not ok_tok:
                        why = ("never issued by this node" if tok[1] is None else
                               f"issued to identity {tok[1]}" if tok[1] != ident else
                               f"issued {int(now - tok[2])} s ago (window {SPEC_TOKEN_WINDOW} s)")
                        self.fail("DHTCommunity.on_store_request:token",
                                  f"store request from identity {ident} accepted with a token {why}", i)
                    if big or many:
                        self.fail("DHTCommunity.on_store_request:limits",
                                  f"store request with {len(vals)} values, max length {max(map(len, vals), default=0)} accepted", i)
                else:
                    self.flags.add("rej")
                if data is not None or changed or (ok_tok and not big and not many):
                    # possible (re-)puts: a re-put of identical bytes refreshes last_update without any visible change,
                    # and an entry that raises later in the same request suppresses the response
                    for b in vals:
                        accepted.append((target, b, now, spec_max_age(nc)))
                new = [b for b in after if b not in before]
                for b in new:
                    t = W.truth.get(b)
                    if t is None or b not in vals or t["ok"] is False:
                        self.fail("DHTCommunity.add_value:unauthentic-stored",
                                  f"value {t['spec'] if t else b[:20]!r} entered the storage although it is not a valid "
                                  f"(signed or plain) entry of this request", i)
                by_signer = {}
                for b in after:
                    t = W.truth.get(b)
                    if t and t["signer"] is not None:
                        by_signer.setdefault(t["signer"], []).append(t)
                for sg, ts in by_signer.items():
                    if len(ts) > 1:
                        self.fail("DHTCommunity.add_value:two-values-one-signer",
                                  f"target {ti} holds {len(ts)} values of signing key #{sg} (versions "
                                  f"{[x['version'] for x in ts]}, kinds {[x['spec'][0] for x in ts]}): an older version lives "
                                  f"next to a newer one", i)
                # version monotonicity per (target, signer)
                for b in before:
                    t = W.truth.get(b)
                    if t and t["signer"] is not None:
                        for b2 in after:
                            t2 = W.truth.get(b2)
                            if t2 and t2["signer"] == t["signer"] and t2["version"] < t["version"] \
                                    and b not in after:
                                self.fail("Storage.put:older-replaced-newer",
                                          f"signer {t['signer']}: stored version {t['version']} replaced by {t2['version']}", i)
                for b in vals:
                    t = W.truth[b]
                    if t["signer"] is not None and t["ok"]:
                        olds = [W.truth[x]["version"] for x in before if W.truth.get(x) and
                                W.truth[x]["signer"] == t["signer"]]
                        if olds:
                            ctx.count("B.version:" + ("older" if t["version"] < olds[0] else
                                                      "equal" if t["version"] == olds[0] else "newer"))
                for tg in targets:
                    self.emit(f"dump {W.h20(tg)}", W.uids(dump(tg)))
                continue
            elif op[0] == "storepeer":
                _, ident, tk, tkind = op
                k, a = ident
                tok = pick_token(ident, tk)
                target = W.mid[k] if tkind == "own" else W.mid[(k + 1) % 3] if tkind == "other" else targets[0]
                before = [(n.public_key.key_to_bin(), n.address) for n in ov.store.get(target, [])]
                ident_no[0] += 1
                pkt = pack(k, StorePeerRequestPayload.msg_id, StorePeerRequestPayload(ident_no[0], tok[0], target))
                data = await deliver(S, a, pkt, 8)
                after = [(n.public_key.key_to_bin(), n.address) for n in ov.store.get(target, [])]
                w, _ = who(ident)
                self.emit(f"storepeer {w} {tok_ref(tok)} {W.h20(target)}", "resp=1" if data is not None else "resp=0")
                self.emit(f"peers {W.h20(target)}", "[" + ",".join(f"{W.pks(p)}@{aidx(x)}" for p, x in after) + "]")
                ok_tok = token_ok(tok, ident, now)
                ctx.count(f"B.storepeer:{tkind}:{'valid' if ok_tok else 'invalid'}:{'acc' if data is not None else 'rej'}")
                if data is not None and before == after:
                    ctx.count("B.storepeer:already-stored")
                if data is not None or before != after:
                    if not ok_tok or target != W.mid[k]:
                        self.fail("DHTDiscoveryCommunity.on_store_peer_request:gate",
                                  f"store-peer from identity {ident} for "
                                  f"{'its own mid' if target == W.mid[k] else 'a foreign key'} accepted with "
                                  f"{'a valid' if ok_tok else 'an invalid'} token", i)
                npeers.append(len(after))
                continue
            if op[0] in ("adv", "rotate"):
                self.emit("ntok", str(len(ov.tokens)))
                if ov.tokens:
                    ctx.count("B.adv-with-received-tokens")
                if len(ov.tokens) < ntok_before[0]:
                    ctx.count("B.recv:pruned-by-maintenance")
                elif ntok_before[0] and op[0] == "rotate":
                    ctx.count("B.recv:kept-by-maintenance")
                if op[0] == "adv" and int((loop.time() - t_start) // 300) > int((now - t_start) // 300):
                    ctx.count("B.scheduled-rotation-crossed")
                if not ov.is_pending_task_active("token_maintenance"):
                    self.fail("DHTCommunity.token_maintenance:task-died",
                              f"the periodic token_maintenance task is no longer scheduled at t+{int(loop.time() - t_start)}: "
                              f"token secrets will never rotate again", i)
            if op[0] in ("adv", "clean"):
                for tg in targets:
                    self.emit(f"dump {W.h20(tg)}", W.uids(dump(tg)))
        self._restore()
        await S.stop()
        await S2.stop()
        mep.internet.clear()


def run_in_vloop(coro_fn):
    """run a coroutine function on a fresh virtual-clock loop"""
    import vclock
    from ipv8.test.mocking import endpoint as mep
    mep.AutoMockEndpoint.SEND_INET_EXCEPTION_TO_LOOP = False
    mep.MockEndpoint.SEND_INET_EXCEPTION_TO_LOOP = False
    import ipv8.dht.community  # noqa: F401  (so that install() patches their time references)
    import ipv8.dht.discovery  # noqa: F401
    import ipv8.dht.storage  # noqa: F401
    loop = vclock.VLoop()
    asyncio.set_event_loop(loop)
    vclock.install(loop)
    try:
        return loop.run_until_complete(coro_fn())
    finally:
        vclock.uninstall()
        try:
            loop.run_until_complete(loop.shutdown_asyncgens())
        finally:
            asyncio.set_event_loop(None)
            loop.close()


def part_b(ctx: Ctx, nscen: int, use_model: bool, seqs=None):
    import logging
    logging.disable(logging.CRITICAL)
    rng = ctx.rng
    runs = []

    async def go():
        for s in range(nscen):
            ops = seqs[s] if seqs else gen_node_ops(rng, rng.choice([25, 40, 60]))
            r = NodeRun(ctx, ops)
            try:
                await r.run()
            except AssertionError:
                raise
            except Exception as e:  # a direct call into the node raised: the model has no such behaviour
                getattr(r, "_restore", lambda: None)()
                ctx.disagree(f"part B: implementation raised {type(e).__name__}: {e}", {"part": "B", "ops": ops})
                continue
            runs.append(r)
            ctx.case(("B", repr(ops)), {"acc", "rej"} <= r.flags)
            if s < 1:
                ctx.sample({"part": "B", "ops": [repr(o)[:100] for o in ops[:8]], "lines": r.lines[:6]})

    _pyrandom.seed(rng.getrandbits(64))
    try:
        run_in_vloop(go)
    finally:
        logging.disable(logging.NOTSET)
    if use_model:
        lines = [ln for r in runs for ln in r.lines]
        replies = ctx.driver().batch(lines) if lines else []
        pos = 0
        for r in runs:
            for j, (ln, got) in enumerate(zip(r.lines, r.impl)):
                if replies[pos + j] != got:
                    ctx.disagree(f"part B: model {replies[pos + j]!r} != implementation {got!r} on `{ln[:200]}`",
                                 {"part": "B", "ops": r.ops, "line": ln, "at": j, "prefix": r.lines[max(0, j - 8):j]})
                    break
            pos += len(r.lines)


# ==================================================================================================================
# Part C — lookup side
# ==================================================================================================================
def check_lookup(ctx: Ctx, W: World, values, result, site, replay):
    """the property on a post-processed result, from ground truth only; result = list of (data, pk or None).
    A signer is a KEY (index in W.keys), whatever byte string names it."""
    must = {}      # signer -> highest version among entries that must be accepted
    claims = {}    # reported key bytes -> signer
    for b in values:
        t = W.truth[b]
        if t["signer"] is not None and t["ok"] is not False:
            claims[t["wire"][3]] = t["signer"]
            claims[t["claim"]] = t["signer"]
            if t["ok"]:
                must[t["signer"]] = max(must.get(t["signer"], -1), t["version"])
    seen = {}
    for data, pk in result:
        if pk is None:
            continue
        cands = [W.truth[b] for b in values if W.truth[b]["ok"] is not False and W.truth[b]["signer"] is not None
                 and pk in (W.truth[b]["wire"][3], W.truth[b]["claim"]) and W.truth[b]["data"] == data]
        if not cands:
            ctx.oracle_fail(site + ":unauthentic", f"lookup reports {data!r} as signed by key bytes #{W.pks(pk)} but no value "
                            f"with a verifying signature by that key carries this data", replay)
            return False
        signer = claims[pk]
        if signer in seen:
            ctx.oracle_fail(site + ":signer-twice",
                            f"signing key #{signer} is reported twice (as key bytes #{W.pks(seen[signer][0])} with version "
                            f"{seen[signer][1]} and as #{W.pks(pk)} with version {max(c['version'] for c in cands)}): not "
                            f"one highest version per signer", replay)
            return False
        seen[signer] = (pk, max(c["version"] for c in cands))
        if max(c["version"] for c in cands) < must.get(signer, -1):
            ctx.oracle_fail(site + ":not-highest-version",
                            f"lookup reports version {max(c['version'] for c in cands)} for signing key #{signer} although "
                            f"version {must[signer]} was among the values", replay)
            return False
    if not set(must) <= set(seen):
        ctx.oracle_fail(site + ":signer-missing", "a signer with a verifying value is not reported", replay)
        return False
    return True


def safe_check_lookup(ctx, W, values, result, site, replay):
    try:
        return check_lookup(ctx, W, values, [(d, pk) for d, pk in result], site, replay)
    except (TypeError, ValueError, KeyError):
        ctx.oracle_fail(site + ":shape", f"lookup result is not a list of (data, key-or-None) pairs: {result!r}"[:300], replay)
        return False


def gen_pp_specs(rng):
    n = rng.choice([0, 1, 2, 3, 4, 6, 8, 12])
    specs = [rand_blob_spec(rng, big=False) for _ in range(n)]
    # version races: same signer, several versions, duplicates of the maximum
    if rng.random() < 0.6:
        s = rng.randrange(3)
        for _ in range(rng.choice([2, 3, 4])):
            specs.append(("sig", s, rng.randrange(4), rng.choice([0, 1, 2, 3, 3, 5])))
        rng.shuffle(specs)
    if rng.random() < 0.85:
        specs = [s for s in specs if s[0] not in ("empty", "trunc", "sig_badkey")]
    return specs


def part_c(ctx: Ctx, ncases: int, use_model: bool, seqs=None):
    from ipv8.test.mocking import endpoint as mep
    from ipv8.test.mocking.ipv8 import MockIPv8
    import logging
    logging.disable(logging.CRITICAL)
    rng = ctx.rng
    lines, impl, reps = [], [], []

    async def go():
        from ipv8.dht.community import Crawl, DHTCommunity
        mep.internet.clear()
        W = World(rng)
        node = det_node(rng, DHTCommunity)
        for i in range(ncases):
            specs = seqs[i] if seqs else gen_pp_specs(rng)
            values = [W.blob(s) for s in specs]
            replay = {"part": "C", "specs": specs}
            line = "pp " + " ".join(W.line(b) for b in values) if values else "pp"
            try:
                res = node.overlay.post_process_values(values)
                got = "[" + ",".join(f"{W.datas(d)}:{'-' if pk is None else W.pks(pk)}" for d, pk in res) + "]"
                ok = safe_check_lookup(ctx, W, values, res, "DHTCommunity.post_process_values", replay)
                # plain values: reported once per occurrence, unsigned
                plain = sorted(W.truth[b]["data"] for b in values if W.truth[b]["wire"][0] == "s")
                if ok and sorted(d for d, pk in res if pk is None) != plain:
                    ctx.oracle_fail("DHTCommunity.post_process_values:plain", "unsigned values not reported as they are",
                                    replay)
            except Exception as e:  # malformed entries: the function raises today; mirrored by the model as `err`
                got = "err"
                ctx.count("C.pp:raised:" + type(e).__name__)
            lines.append(line)
            impl.append(got)
            reps.append(replay)
            signers = [W.truth[b]["signer"] for b in values if W.truth[b]["ok"] is not False and W.truth[b]["signer"] is not None]
            forged = any(W.truth[b]["ok"] is False and W.truth[b]["wire"][0] == "g" for b in values)
            if any(W.truth[b]["spec"][0] == "sig_trail" for b in values):
                ctx.count("C.pp:non-canonical-key")
            ctx.count("C.pp:n%d" % min(len(values), 12))
            ctx.count("C.pp:forged" if forged else "C.pp:no-forged")
            ctx.count("C.pp:dup-signer" if len(signers) != len(set(signers)) else "C.pp:unique-signers")
            tops = {}
            for b in values:
                t = W.truth[b]
                if t["ok"] and t["signer"] is not None:
                    tops.setdefault(t["signer"], []).append((t["version"], t["data"]))
            if any(len({d for v, d in l if v == max(x[0] for x in l)}) > 1 for l in tops.values()):
                ctx.count("C.pp:version-tie-different-data")       # Python max(): the first maximal element wins
            if any(W.truth[b]["wire"][0] == "u" for b in values):
                ctx.count("C.pp:unknown-entry")
            ctx.case(("C", repr(specs)), forged or len(signers) != len(set(signers)))
            # Crawl.values on per-node response lists built from the same values
            if values and i % 3 == 0:
                k = rng.choice([1, 2, 3])
                resp = [[v for v in values if rng.random() < 0.7] for _ in range(k)]
                c = Crawl.__new__(Crawl)
                c.responses = [(None, {"values": r}) if r else (None, {"nodes": []}) for r in resp]
                merged = c.values
                nonempty = [r for r in resp if r]
                if sum(map(len, nonempty)) > len(merged):
                    ctx.count("C.crawl:duplicates-removed")
                if len({len(r) for r in nonempty}) > 1:
                    ctx.count("C.crawl:uneven-lengths")
                if len(nonempty) < len(resp):
                    ctx.count("C.crawl:response-without-values")
                lines.append("crawl " + " ".join(W.uids(r) for r in resp if r) if any(resp) else "crawl")
                impl.append(W.uids(merged))
                reps.append({"part": "C", "crawl": True})
        await node.stop()
        mep.internet.clear()

    _pyrandom.seed(rng.getrandbits(64))
    try:
        run_in_vloop(go)
    finally:
        logging.disable(logging.NOTSET)
    if use_model and lines:
        replies = ctx.driver().batch(lines)
        for ln, m, g, rp in zip(lines, replies, impl, reps):
            if m != g:
                ctx.disagree(f"part C: model {m!r} != implementation {g!r} on `{ln[:200]}`", dict(rp, line=ln))
                break


def part_c_e2e(ctx: Ctx, ncases: int, seqs=None):
    """end-to-end find_values: one client, three real servers holding different versions; oracle only"""
    import logging
    from ipv8.test.mocking import endpoint as mep
    from ipv8.test.mocking.ipv8 import MockIPv8
    logging.disable(logging.CRITICAL)
    rng = ctx.rng

    async def go():
        from ipv8.dht.community import DHTCommunity
        from ipv8.dht.routing import Node
        from ipv8.dht.payload import FindResponsePayload
        from ipv8.messaging.interfaces.udp.endpoint import UDPv6Address
        from ipv8.messaging.payload_headers import BinMemberAuthenticationPayload
        for i in range(ncases):
            mep.internet.clear()
            W = World(rng)
            dual = (rng.random() < 0.4) if not seqs else bool(seqs[i][1])
            wide = (rng.random() < 0.3) if not seqs else False
            nodes = [det_node(rng, DHTCommunity) for _ in range(4)]
            for n in nodes:
                n.overlay.cancel_pending_task("node_maintenance")
            client, servers = nodes[0], nodes[1:]
            key = hashlib.sha1(b"e2e").digest()
            held = []
            spec_lists = []
            for si, s in enumerate(servers):
                specs = [rand_blob_spec(rng, big=True) for _ in range(rng.choice([0, 1, 2, 3, 5]))]
                specs = [x for x in specs if x[0] not in ("empty", "trunc", "sig_badkey")]
                if rng.random() < 0.15:
                    specs.append(("str", rng.randrange(3), rng.choice([168, 400, 5000])))   # a server may hold anything
                if rng.random() < 0.7:
                    specs.append(("sig", 0, rng.randrange(3), rng.choice([1, 2, 3, 4])))
                if wide:
                    # a wide lookup: two responders with different values, one with none (the cache candidate)
                    specs = [] if si == 0 else [("str", 300 + 10 * si + j, 0) for j in range(rng.choice([6, 7, 8]))]
                if seqs:
                    specs = list(seqs[i][0][si])
                spec_lists.append(specs)
                st = s.overlay.get_storage(Node(s.my_peer.key, s.my_peer.address))
                for sp in specs:
                    b = W.blob(sp)
                    # a (possibly dishonest) server holds whatever it likes: bypass its own add_value checks
                    st.put(key, b, id_=hashlib.sha1(b).digest())
                    held.append(b)
                saddr = s.my_peer.address
                if dual and si == len(servers) - 1:
                    # dual-stack client: this server is known (and reached) over IPv6, so the lookup runs a second crawl
                    saddr = UDPv6Address("2001:db8::%x" % (si + 6), 6000 + si)
                    mep.internet[saddr] = s.endpoint
                rn = Node(s.my_peer.public_key, saddr)
                client.overlay.get_routing_table(rn).add(rn)
            replay = {"part": "E", "servers": spec_lists, "dual": dual}
            ctx.count("C.e2e:dual-stack" if dual else "C.e2e:single-stack")
            if len(set(held)) > SPEC_MAX_VALUES:
                ctx.count("C.e2e:more-than-8-distinct-values-held")
            # what the lookup SAW: the values in the find responses that reached the client (not what servers hold)
            seen_vals = []
            orig_notify = client.endpoint.notify_listeners

            def tap(packet, _orig=orig_notify, _seen=seen_vals, _ov=client.overlay):
                try:
                    data = packet[1]
                    if data[:22] == _ov.get_prefix() and data[22] == FindResponsePayload.msg_id:
                        auth, _ = _ov.serializer.unpack_serializable(BinMemberAuthenticationPayload, data, offset=23)
                        rem = data[2 + len(auth.public_key_bin):-64]
                        _seen.extend(_ov.serializer.unpack_serializable_list([FindResponsePayload], rem, offset=23)[0].values)
                except Exception:   # not a find response we can read: the lookup cannot have seen values in it either
                    pass
                return _orig(packet)
            client.endpoint.notify_listeners = tap
            try:
                res = await client.overlay.find_values(key)
            except Exception as e:
                ctx.count("C.e2e:raised:" + type(e).__name__)
                res = None
            if res is not None:
                unknown = [b for b in seen_vals if b not in W.truth]
                ctx.count("C.e2e:seen%d-of-held%d" % (min(len(set(seen_vals)), 9), min(len(set(held)), 9)))
                safe_check_lookup(ctx, W, [b for b in dict.fromkeys(seen_vals) if b in W.truth], list(res),
                                  "DHTCommunity.find_values", replay)
                if unknown:
                    ctx.count("C.e2e:unknown-values-seen")
                ctx.count("C.e2e:results%d" % min(len(res), 6))
            # caching / own-storage side effects of the lookup: whatever a node stored on behalf of the lookup (not put
            # there by the harness) must be a valid entry
            for idx, n in enumerate(nodes):
                mine = set() if idx == 0 else {W.blob(sp) for sp in spec_lists[idx - 1]}
                taken = sum(1 for st in n.overlay.storages.values() for b in st.get(key) if b not in mine)
                if taken > SPEC_MAX_VALUES:
                    ctx.oracle_fail("DHTCommunity.store_on_nodes:too-many-stored",
                                    f"node {idx} took in {taken} values for one key during a single lookup (limit "
                                    f"{SPEC_MAX_VALUES}) without any store request", replay)
                if taken:
                    ctx.count("C.e2e:cached-per-node:%d" % min(taken, 9))
                for st in n.overlay.storages.values():
                    for b in st.get(key):
                        if b not in mine:
                            ctx.count("C.e2e:cached")
                            if len(b) > SPEC_MAX_SIZE:
                                ctx.count("C.e2e:cached-oversized")
                                ctx.oracle_fail("DHTCommunity.store_on_nodes:oversized-stored",
                                                f"node {idx} stored a {len(b)}-byte value (limit {SPEC_MAX_SIZE}) that it "
                                                f"received in a find response: the lookup's caching path writes the "
                                                f"storage without the size limit", replay)
                            if W.truth.get(b, {}).get("ok") is False or b not in W.truth:
                                ctx.oracle_fail("DHTCommunity.add_value:unauthentic-stored",
                                                f"node {idx} cached the invalid entry {W.truth.get(b, {}).get('spec')} during "
                                                f"a lookup", replay)
            ctx.case(("E", repr(spec_lists)), any(spec_lists))
            for n in nodes:
                await n.stop()
        mep.internet.clear()

    _pyrandom.seed(rng.getrandbits(64))
    try:
        run_in_vloop(go)
    finally:
        logging.disable(logging.NOTSET)


# ==================================================================================================================
# Part F — the node's own store_on_nodes (local store + what it sends on), also reached from every lookup
# ==================================================================================================================
def gen_cache_specs(rng):
    n = rng.choice([0, 1, 2, 3, 5, 8, 9, 10, 12])
    specs = [rand_blob_spec(rng) for _ in range(n)]
    if rng.random() < 0.3:
        # what a wide lookup hands over: many DISTINCT storable values (each keeps its own id in the storage)
        base = rng.randrange(1000)
        specs = [("str", 200 + base + j, 0) for j in range(rng.choice([7, 8, 9, 10, 13, 16]))] + specs[:2]
        rng.shuffle(specs)
    if rng.random() < 0.8:
        specs = [x for x in specs if x[0] not in ("empty", "trunc", "sig_badkey")]
    if rng.random() < 0.3:
        specs.insert(rng.randrange(len(specs) + 1), ("str", rng.randrange(3), rng.choice([168, 169, 400, 5000])))
    return specs


def part_f(ctx: Ctx, ncases: int, use_model: bool, seqs=None):
    import logging
    from ipv8.test.mocking import endpoint as mep
    logging.disable(logging.CRITICAL)
    rng = ctx.rng
    runs = []

    async def go():
        import time as _t

        from ipv8.dht.community import DHTCommunity
        from ipv8.dht.payload import StoreRequestPayload
        from ipv8.dht.routing import Node
        from ipv8.messaging.interfaces.udp.endpoint import UDPv4Address
        from ipv8.messaging.payload_headers import BinMemberAuthenticationPayload
        for ci in range(ncases):
            mep.internet.clear()
            W = World(rng)
            client = det_node(rng, DHTCommunity)
            client.overlay.cancel_pending_task("node_maintenance")
            ov = client.overlay
            raddr = UDPv4Address("10.3.3.3", 3000)
            cap = Cap(mep, raddr).ep
            remote = Node(W.keys[0].pub(), raddr)
            loop = asyncio.get_running_loop()
            lines, impl = [f"reset {int(loop.time())}"], ["ok"]
            key = hashlib.sha1(b"cachekey").digest()
            rounds = seqs[ci] if seqs else [gen_cache_specs(rng) for _ in range(rng.choice([1, 2, 3]))]
            replay = {"part": "F", "rounds": rounds}
            interesting = False
            for specs in rounds:
                values = [W.blob(sp) for sp in specs]
                # the token the node received from the remote node: fresh, at the edge of the window, stale, or none
                tok_age = rng.choice([0, 0, 0, 5, 300, 599, 600, 601, 2000, None])
                ov.tokens.pop(remote.id, None)
                if tok_age is not None:
                    ov.tokens[remote.id] = (_t.time() - tok_age, b"t" * 20)
                before = list(ov.storages[UDPv4Address].get(key)) if UDPv4Address in ov.storages else []
                n0 = len(cap.got)
                t0 = loop.time()
                aborted = False
                try:
                    await ov.store_on_nodes(key, values, [remote])
                    ctx.count("F.store_on_nodes:returned")
                except Exception as e:
                    ctx.count("F.store_on_nodes:raised:" + type(e).__name__)
                    aborted = type(e).__name__ != "DHTError"    # an entry raised in the local loop: nothing is sent
                dt = int(loop.time() - t0)
                after = list(ov.storages[UDPv4Address].get(key)) if UDPv4Address in ov.storages else []
                lines.append(f"cache {W.h20(key)} 1 " + " ".join(W.line(b) for b in values) if values
                             else f"cache {W.h20(key)} 1")
                impl.append("ok")
                if dt:
                    lines.append(f"adv {dt}")
                    impl.append("ok")
                lines.append(f"dump {W.h20(key)}")
                impl.append(W.uids(after))
                big = [b for b in values if len(b) > SPEC_MAX_SIZE]
                ctx.count("F.values:n%d" % min(len(values), 12))
                ctx.count("F.values:with-oversized" if big else "F.values:all-within-size")
                storable = {b for b in values if len(b) <= SPEC_MAX_SIZE and W.truth[b]["ok"] and W.truth[b]["signer"] is None}
                if len(storable) > SPEC_MAX_VALUES:
                    ctx.count("F.values:more-than-8-distinct-storable")
                small = [b for b in values if len(b) <= SPEC_MAX_SIZE]
                ctx.count("F.keep:" + ("size-filtered+capped" if big and len(small) > SPEC_MAX_VALUES else
                                       "size-filtered" if big else "capped" if len(small) > SPEC_MAX_VALUES else "all-kept"))
                interesting = interesting or (after != before and len(after) - len(before) < len(set(values)))
                # non-trivial = the local store changed and at least one offered value was not stored
                new = [b for b in after if b not in before]
                if len(new) > SPEC_MAX_VALUES:
                    ctx.oracle_fail("DHTCommunity.store_on_nodes:too-many-stored",
                                    f"one store_on_nodes call put {len(new)} values into the node's own storage "
                                    f"(limit {SPEC_MAX_VALUES})", replay)
                for b in after:
                    if len(b) > SPEC_MAX_SIZE:
                        ctx.oracle_fail("DHTCommunity.store_on_nodes:oversized-stored",
                                        f"the node's own storage holds a {len(b)}-byte value after store_on_nodes "
                                        f"(limit {SPEC_MAX_SIZE})", replay)
                    if W.truth[b]["ok"] is False:
                        ctx.oracle_fail("DHTCommunity.add_value:unauthentic-stored",
                                        f"store_on_nodes stored the invalid entry {W.truth[b]['spec']}", replay)
                # what it sends to the remote node
                sent = any(d[22] == StoreRequestPayload.msg_id for _, d in cap.got[n0:])
                ctx.count("F.token:" + ("none" if tok_age is None else "age<600" if tok_age < 600 else "age>=600")
                          + (":sent" if sent else ":not-sent"))
                # (when an entry raises, store_on_nodes ends before sending anything: nothing to compare with the model)
                if not aborted:
                    lines.append(f"maysend {int(t0)} {'none' if tok_age is None else int(t0) - tok_age}")
                    impl.append("true" if sent else "false")
                if sent and (tok_age is None or tok_age > SPEC_TOKEN_WINDOW):    # exactly at the window: not judged
                    ctx.oracle_fail("DHTCommunity.store_on_nodes:stale-token-presented",
                                    f"the node sent a store request with "
                                    f"{'no token' if tok_age is None else 'a token received %d s ago' % tok_age} "
                                    f"(window {SPEC_TOKEN_WINDOW} s)", replay)
                for src, data in cap.got[n0:]:
                    if data[22] != StoreRequestPayload.msg_id:
                        continue
                    auth, _ = ov.serializer.unpack_serializable(BinMemberAuthenticationPayload, data, offset=23)
                    rem = data[2 + len(auth.public_key_bin):-64]
                    pl = ov.serializer.unpack_serializable_list([StoreRequestPayload], rem, offset=23)[0]
                    ctx.count("F.sent:n%d" % min(len(pl.values), 9))
                    lines.append("keep " + " ".join(W.line(b) for b in values) if values else "keep")
                    impl.append(W.uids(pl.values))
                    if len(pl.values) > SPEC_MAX_VALUES or any(len(b) > SPEC_MAX_SIZE for b in pl.values):
                        ctx.oracle_fail("DHTCommunity.store_on_nodes:limits-sent",
                                        f"store request sent with {len(pl.values)} values, max length "
                                        f"{max(map(len, pl.values), default=0)}", replay)
            runs.append((lines, impl, replay))
            ctx.case(("F", repr(rounds)), interesting)
            await client.stop()
        mep.internet.clear()

    _pyrandom.seed(rng.getrandbits(64))
    try:
        run_in_vloop(go)
    finally:
        logging.disable(logging.NOTSET)
    if use_model:
        flat = [ln for r in runs for ln in r[0]]
        replies = ctx.driver().batch(flat) if flat else []
        pos = 0
        for lines, impl, replay in runs:
            for j, (ln, got) in enumerate(zip(lines, impl)):
                if replies[pos + j] != got:
                    ctx.disagree(f"part F: model {replies[pos + j]!r} != implementation {got!r} on `{ln[:200]}`",
                                 dict(replay, line=ln))
                    break
            pos += len(lines)


# ==================================================================================================================
# Part D — the value codec at byte level (unserialize_value / serialize_value vs Ipv8/C15/Wire.lean)
# ==================================================================================================================
def ref_fields(b: bytes):
    """(data, version, pk) of a SignedStrPayload at offset 1 per the documented wire format, or None"""
    try:
        (n,) = struct.unpack_from(">H", b, 1)
        if 3 + n > len(b):
            return None
        data = b[3:3 + n]
        (ver,) = struct.unpack_from(">I", b, 3 + n)
        (m,) = struct.unpack_from(">H", b, 7 + n)
        if 9 + n + m > len(b):
            return None
        return data, ver, b[9 + n:9 + n + m]
    except struct.error:
        return None


def mutate_bytes(rng, b: bytes):
    kind = rng.choice(["same", "trunc", "trunc_tail", "flip", "lenfield", "extend", "first", "random", "nosig"])
    if kind == "trunc" and b:
        return kind, b[:rng.randrange(len(b))]
    if kind == "trunc_tail" and b:
        return kind, b[:max(0, len(b) - rng.choice([1, 2, 63, 64, 65, 70, 100, 140]))]
    if kind == "flip" and b:
        i = rng.randrange(len(b))
        return kind, b[:i] + bytes([b[i] ^ (1 << rng.randrange(8))]) + b[i + 1:]
    if kind == "lenfield" and len(b) > 3:
        i = rng.choice([1, 2])
        return kind, b[:i] + bytes([rng.choice([0, 1, 2, 74, 255])]) + b[i + 1:]
    if kind == "extend":
        return kind, b + bytes(rng.getrandbits(8) for _ in range(rng.choice([1, 2, 64])))
    if kind == "first" and b:
        return kind, bytes([rng.choice([0, 1, 2, 255])]) + b[1:]
    if kind == "random":
        return kind, bytes([rng.choice([0, 1, 1, 1, 2])]) + bytes(rng.getrandbits(8) for _ in range(rng.choice([0, 1, 2, 5, 9, 40, 90])))
    if kind == "nosig" and len(b) > 64:
        return kind, b[:-64]
    return "same", b


def part_d(ctx: Ctx, ncases: int, use_model: bool):
    import logging
    from ipv8.test.mocking import endpoint as mep
    logging.disable(logging.CRITICAL)
    rng = ctx.rng
    lines, impl = [], []

    async def go():
        from ipv8.dht.community import DHTCommunity
        mep.internet.clear()
        W = World(rng)
        node = det_node(rng, DHTCommunity)
        ov = node.overlay
        ec = W.ec
        loop = asyncio.get_running_loop()
        for i in range(ncases):
            base = W.blob(rand_blob_spec(rng))
            kind, v = mutate_bytes(rng, base)
            ctx.count("D.mut:" + kind)
            try:
                r = ov.unserialize_value(v)
                if r is None:
                    got = "none"
                else:
                    data, pk, ver = r
                    got = f"ok {data.hex() or '-'} {'-' if pk is None else (pk.hex() or '-')} {ver}"
            except Exception as e:
                got = "raise"
                ctx.count("D.unser:raise:" + type(e).__name__)
                r = None
            # what the abstract interface answers for the one key / message / signature this value can ask about
            keyok, siglen, valid, q, canon = 0, 64, 0, "", b""
            f = ref_fields(v) if v[:1] == b"\x01" else None
            if f is not None:
                try:
                    pub = ec.key_from_public_bin(f[2])
                    keyok, siglen, canon = 1, ec.get_signature_length(pub), pub.key_to_bin()
                    valid = 1 if ec.is_valid_signature(pub, v[:-siglen], v[-siglen:]) else 0
                except Exception:
                    keyok = 0
                q = f" q={f[2].hex() or '-'}:{len(v[:-siglen])}:{len(v[-siglen:])}"
            # property on the implementation: a signed triple only for verifying values, fields as on the wire
            if r is not None and r[1] is not None:
                ctx.count("D.unser:ok-signed")
                if f is None or not keyok or not valid or (r[0], r[2]) != f[:2] or r[1] != canon:
                    ctx.oracle_fail("DHTCommunity.unserialize_value:unauthentic",
                                    f"unserialize_value returns data {r[0]!r} as signed by {r[1][:14]!r}… although "
                                    f"{'the fields do not parse' if f is None else 'the key does not parse' if not keyok else 'the signature does not verify' if not valid else 'the fields differ from the wire'}",
                                    {"part": "D", "value": v.hex()})
            elif r is not None:
                ctx.count("D.unser:ok-plain")
                if v[:1] != b"\x00" or r != (v[1:], None, 0):
                    ctx.oracle_fail("DHTCommunity.unserialize_value:plain", "plain entry not returned as it is",
                                    {"part": "D", "value": v.hex()})
            elif got == "none":
                ctx.count("D.unser:none" + (":badsig" if f is not None and keyok else ""))
            lines.append(f"unserb {v.hex() or '-'} {keyok} {siglen} {valid} {canon.hex() or '-'}")
            impl.append(got + q)
            ctx.case(("D", v.hex()), r is not None and r[1] is not None or (f is not None and keyok and not valid))
            # non-trivial = accepted as signed, or rejected only because the signature does not verify
            # the description handed to the abstract model (parts B, C) agrees with the real parser on unmutated blobs
            if kind == "same" and W.truth[base]["ok"] is not None:
                w = W.truth[base]["wire"]
                exp = ("raise" if w[0] == "m" else "none" if w[0] == "u" else
                       f"ok {w[1].hex() or '-'} - 0" if w[0] == "s" else
                       f"ok {w[1].hex() or '-'} {w[3].hex()} {w[2]}" if W.truth[base]["ok"] else "none")
                if exp != got:
                    ctx.disagree(f"part D: value {W.truth[base]['spec']} is described to the abstract model as `{exp}` "
                                 f"but unserialize_value says `{got}`", {"part": "D", "value": v.hex()})
            # serialize_value: byte-for-byte, and it reads back
            if i % 10 == 0:
                data = bytes(rng.getrandbits(8) for _ in range(rng.choice([0, 1, 5, 20])))
                sv = ov.serialize_value(data, sign=True)
                pkb = ov.my_peer.public_key.key_to_bin()
                lines.append(f"serb {data.hex() or '-'} {int(loop.time())} {pkb.hex()} {sv[-64:].hex()}")
                impl.append(sv.hex())
                back = ov.unserialize_value(sv)
                if back != (data, pkb, int(loop.time())):
                    ctx.oracle_fail("DHTCommunity.serialize_value:roundtrip", "a freshly signed value does not read back",
                                    {"part": "D", "data": data.hex()})
                pv = ov.serialize_value(data, sign=False)
                lines.append(f"serp {data.hex() or '-'}")
                impl.append(pv.hex() or "-")
                ctx.count("D.serialize")
        await node.stop()
        mep.internet.clear()

    _pyrandom.seed(rng.getrandbits(64))
    try:
        run_in_vloop(go)
    finally:
        logging.disable(logging.NOTSET)
    if use_model and lines:
        replies = ctx.driver().batch(lines)
        for ln, m, g in zip(lines, replies, impl):
            if m != g:
                ctx.disagree(f"part D: model {m!r} != implementation {g!r} on `{ln[:200]}`", {"part": "D", "line": ln})
                break


# ==================================================================================================================
def run(ctx: Ctx):
    if ctx.replay_input is not None:
        return replay(ctx, ctx.replay_input)
    use_model = ctx.model_ok
    if ctx.thorough():
        ex = list(exhaustive_storage_seqs(4))
        ctx.extra["exhaustive_storage_sequences"] = {"depth": 4, "alphabet": 11, "sequences": len(ex)}
        part_a(ctx, len(ex), use_model, seqs=ex)
    part_a(ctx, ctx.scale(800, 6000), use_model)
    part_b(ctx, ctx.scale(300, 2500), use_model)
    part_c(ctx, ctx.scale(1200, 10000), use_model)
    part_c_e2e(ctx, ctx.scale(40, 400))
    part_d(ctx, ctx.scale(1500, 20000), use_model)
    part_f(ctx, ctx.scale(150, 1500), use_model)
    coverage_gate(ctx)


# Branch classes of the hand-written model definitions (and of the generated ones they are parameterised by).  Every quick
# run must reach each of them at least once; otherwise the correspondence has silently stopped tying that branch to the
# code and the run ends with exit 2 (infrastructure), never with a pass.  `x*` = any counter with that prefix.
BRANCH_CLASSES = {
    "putItems: new id": ["A.put:new"], "putItems: new id == key (sorted to the tail)": ["A.put:new:id==key"],
    "putItems: older version refused": ["A.put:older", "B.version:older"],
    "putItems: equal version replaces": ["A.put:equal", "B.version:equal"],
    "putItems: newer version replaces": ["A.put:newer", "B.version:newer"],
    "putItems via the node: value id equals the target": ["B.store:value-id-equals-target"],
    "cleanItems: nothing expired": ["A.clean:nothing-expired"], "cleanItems: all expired": ["A.clean:all-expired"],
    "cleanItems: expired in front of fresh": ["A.clean:expired-in-front-of-fresh"],
    "cleanItems: expired tail only": ["A.clean:expired-tail-only"],
    "sliceItems: no limit": ["A.get:limit-none"], "sliceItems: limit 0": ["A.get:limit-zero"],
    "sliceItems: limit cuts": ["A.get:limit-cuts"], "sliceItems: start beyond end": ["A.get:start-beyond-end"],
    "unserialize: plain": ["B.value:str", "D.unser:ok-plain"], "unserialize: signed, verifies": ["B.value:sig", "D.unser:ok-signed"],
    "unserialize: signed, bad signature": ["B.value:sig_badsig", "D.unser:none:badsig"],
    "unserialize: tampered data / version / mis-claimed key": ["B.value:sig_tamper", "B.value:sig_vtamper", "B.value:sig_claim"],
    "unserialize: non-canonical key bytes": ["B.value:sig_trail", "C.pp:non-canonical-key"],
    "unserialize: unknown first byte": ["B.value:unknown", "D.unser:none"],
    "unserialize: raises (empty / truncated / bad key)": ["B.value:empty", "B.value:trunc", "B.value:sig_badkey",
                                                           "D.unser:raise:IndexError", "D.unser:raise:PackError",
                                                           "D.unser:raise:ValueError"],
    "addValues: exception after a partial store": ["B.store:exception-after-partial-store"],
    "storeReq: accepted": ["B.store:accepted"], "storeReq: blocked / no-op with a valid request": ["B.guard-only:blocked-or-noop"],
    "storeReq: only the size guard fires": ["B.guard-only:size"], "storeReq: only the count guard fires": ["B.guard-only:count"],
    "storeReq: only the token guard fires": ["B.guard-only:token"],
    "size guard boundary (170 / 171, plain and signed)": ["B.value-at-limit:plain:170", "B.value-at-limit:plain:171",
                                                          "B.value-at-limit:signed:170", "B.value-at-limit:signed:171"],
    "checkToken: newest secret": ["B.accepted-token-age:0-9"], "checkToken: previous secret": ["B.accepted-token-age:300-599"],
    "checkToken: each foreign provenance refused": ["B.store:tok=other_addr:invalid", "B.store:tok=other_key:invalid",
                                                    "B.store:tok=s2:invalid", "B.store:tok=junk:invalid",
                                                    "B.store:tok=flip:invalid", "B.store:tok=first:invalid"],
    "storeMaxAge: full and reduced lifetimes": ["B.store:max_age=3600", "B.store:max_age=1800", "B.store:max_age=900"],
    "findReq: blocked": ["B.find:blocked"], "findReq: limit reached": ["B.find:vals8", "B.find:more-stored-than-limit"],
    "findReq: force_nodes": ["B.find:force-nodes"], "findReq: offset": ["B.find:offset>0:nonempty", "B.find:offset>0:empty"],
    "findReq: token for the source, not the named LAN address": ["B.find:lan-differs-from-source"],
    "pingReq: answered / blocked": ["B.ping:answered", "B.ping:blocked"],
    "requester known to the node as a verified peer / unknown": ["B.requester:verified-peer", "B.requester:unknown-peer"],
    "token of the same key issued at another address, presented by a verified / unknown peer":
        ["B.store:token-of-same-key-other-address:verified-peer", "B.store:token-of-same-key-other-address:unknown-peer"],
    "storePeerReq: accepted": ["B.storepeer:own:valid:acc"], "storePeerReq: token guard": ["B.storepeer:own:invalid:rej"],
    "storePeerReq: own-mid guard": ["B.storepeer:other:valid:rej", "B.storepeer:rand:valid:rej"],
    "storePeerReq: peer already stored": ["B.storepeer:already-stored"],
    "rotate: scheduled": ["B.scheduled-rotation-crossed"], "rotate: explicit": ["B.op:rotate"],
    "rotate: received token pruned / kept": ["B.recv:pruned-by-maintenance", "B.adv-with-received-tokens"],
    "fireClean: scheduled run observed": ["B.scheduled-maintenance-crossed"],
    "postProcess: several values of one signer": ["C.pp:dup-signer"], "postProcess: forged entry skipped": ["C.pp:forged"],
    "postProcess: equal top versions, different data": ["C.pp:version-tie-different-data"],
    "postProcess: unknown entry skipped": ["C.pp:unknown-entry"], "postProcess: raises": ["C.pp:raised:*"],
    "crawlValues: duplicates removed": ["C.crawl:duplicates-removed"], "crawlValues: uneven lists": ["C.crawl:uneven-lengths"],
    "lookup end to end: single and dual stack": ["C.e2e:single-stack", "C.e2e:dual-stack"],
    "unserializeB: every mutation kind": ["D.mut:trunc", "D.mut:trunc_tail", "D.mut:flip", "D.mut:lenfield", "D.mut:extend",
                                          "D.mut:first", "D.mut:random", "D.mut:nosig", "D.mut:same"],
    "serialize round trip": ["D.serialize"],
    "keepLocal: size filter": ["F.keep:size-filtered"], "keepLocal: cap": ["F.keep:capped"],
    "keepLocal: more than 8 distinct storable values offered (direct / by a wide lookup)":
        ["F.values:more-than-8-distinct-storable", "C.e2e:more-than-8-distinct-values-held"],
    "keepLocal: nothing dropped": ["F.keep:all-kept"],
    "cacheStore: exception in the loop": ["F.store_on_nodes:raised:IndexError", "F.store_on_nodes:raised:PackError",
                                          "F.store_on_nodes:raised:ValueError"],
    "maySendStore: fresh / stale / no received token": ["F.token:age<600:sent", "F.token:age>=600:not-sent",
                                                        "F.token:none:not-sent"],
}


def coverage_gate(ctx: Ctx):
    """exit 2 when a listed branch class was not reached although nothing else went wrong"""
    from vlib import InfraError

    def hit(key):
        if key.endswith("*"):
            return any(v for k, v in ctx.counts.items() if k.startswith(key[:-1]))
        return ctx.counts.get(key, 0) > 0
    missing = {name: [k for k in keys if not hit(k)] for name, keys in BRANCH_CLASSES.items()}
    missing = {n: ks for n, ks in missing.items() if ks}
    ctx.extra["branch_classes"] = {"listed": len(BRANCH_CLASSES), "counters": sum(len(v) for v in BRANCH_CLASSES.values()),
                                   "missing": missing}
    if missing and not ctx.failures and not ctx.disagreements and not ctx.broken:
        raise InfraError("coverage gate: branch classes never reached in this run: " +
                         "; ".join(f"{n} ({', '.join(ks)})" for n, ks in list(missing.items())[:6]))


def search(ctx: Ctx, reason: str):
    """widened implementation-only search after an obligation broke; sized to add well under a minute to a red run"""
    part_a(ctx, 1200, False)
    if not ctx.failures:
        part_b(ctx, 150, False)
    if not ctx.failures:
        part_c(ctx, 1200, False)
        part_c_e2e(ctx, 30)
        part_d(ctx, 2500, False)
        part_f(ctx, 120, False)


def replay_value(ctx: Ctx, v: bytes):
    def go_sync():
        async def go():
            from ipv8.dht.community import DHTCommunity
            from ipv8.keyvault.crypto import default_eccrypto as ec
            node = det_node(ctx.rng, DHTCommunity)
            try:
                r = node.overlay.unserialize_value(v)
            except Exception as e:
                r = None
                print("replay: unserialize_value raised", type(e).__name__)
            if r is not None and r[1] is not None:
                f = ref_fields(v)
                good = False
                if f is not None and (r[0], r[2], r[1]) == f:
                    try:
                        pub = ec.key_from_public_bin(f[2])
                        n = ec.get_signature_length(pub)
                        good = ec.is_valid_signature(pub, v[:-n], v[-n:])
                    except Exception:
                        good = False
                if not good:
                    ctx.oracle_fail("DHTCommunity.unserialize_value:unauthentic", "replayed value still accepted", {"part": "D", "value": v.hex()})
            await node.stop()
        run_in_vloop(go)
    go_sync()
    ctx.case(("replay",), True)


def _tuplify(x):
    if isinstance(x, list):
        return tuple(_tuplify(y) for y in x)
    return x


def replay(ctx: Ctx, rec: dict):
    r = rec.get("replay", rec)
    part = r.get("part")
    n0 = len(ctx.failures)
    if part == "A":
        part_a(ctx, 1, ctx.model_ok, seqs=[[_tuplify(o) for o in r["ops"]]])
    elif part == "B":
        part_b(ctx, 1, ctx.model_ok, seqs=[[_tuplify(o) for o in r["ops"]]])
    elif part == "C" and "specs" in r:
        part_c(ctx, 1, ctx.model_ok, seqs=[[_tuplify(o) for o in r["specs"]]])
    elif part == "D" and "value" in r:
        replay_value(ctx, bytes.fromhex(r["value"]))
    elif part == "F":
        part_f(ctx, 1, ctx.model_ok, seqs=[[[_tuplify(o) for o in rd] for rd in r["rounds"]]])
    elif part == "E" and "servers" in r:
        part_c_e2e(ctx, 1, seqs=[([[_tuplify(o) for o in sv] for sv in r["servers"]], r.get("dual", False))])
    else:
        print("replay: this record has no re-runnable input")
        return
    if len(ctx.failures) > n0:
        f = ctx.failures[-1]
        print(f"replay: property FAILS: {f['signature']}: {f['what']}")
    else:
        print("replay: property holds on this input")
