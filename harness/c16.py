"""
C16 — a token tree only ever holds its owner's signed chain, in any order.

Link to the code:
  * translator tools/gen_c16.py regenerates lean/Ipv8/C16/GenConst.lean (default waiting-area size, default maxdepth,
    wire field widths, chunk size) from tree.py / token.py on every run; the rest of tree.py is control flow over
    dicts, not tables, and is tied by
  * correspondence: every scenario (a key, a forest of really signed tokens mixed with forged / foreign / dangling /
    duplicate ones, an arrival order, and a list of API calls) is executed on the real TokenTree / Token objects and on
    the Lean model (driver drv_c16, whose abstract hash / signature check are instantiated with tables measured on
    the real SHA3-256 and the real signature verification).  After every call the full observable state is compared:
    return value, elements (as a set, with attached content), unchained (in waiting order).
  * oracle (independent of the model, evaluated on the real code): the least fixpoint "signed by the tree key and
    hanging off genesis or a member" is computed here from the harness's own knowledge of which tokens it signed
    and which it tampered with (hashlib + raw key.signature; never Token.verify / get_hash), and compared with
    `elements`; the same multiset of tokens is offered in other orders and the results compared; content binding,
    verify / get_root_path, serialize_public -> unserialize_public round trips and arbitrary bytes are checked too.
"""
from __future__ import annotations

import hashlib
import itertools
import struct

import gen_c16
from vlib import Ctx

PROPERTY = "C16"
LEAN_TARGETS = ["Ipv8.C16.Props"]
PROPS_FILE = "Ipv8/C16/Props.lean"
DRIVER = "drv_c16"
RULE = ("scenario = (tree key, waiting-area cap, forest shape {chain, star, random, binary, comb, two roots} of 1-40 "
        "really signed tokens (plus >cap chains), mix-ins {forged signature, forged content pointer, foreign key, "
        "dangling parent, child of a forged token, duplicates with/without content}, arrival order {in order, "
        "reversed, random, leaves first, interleaved}, API calls {gather_token, verify, get_root_path, get_missing, "
        "serialize_public (full / up_to), unserialize_public of round trips, mutated and random bytes, "
        "receive_content}); distinct = distinct (shape, mix-in kinds, order class, size) signature plus the exact "
        "parent vector and arrival order; non-trivial = at least one token arrives before its parent or a bad token "
        "is mixed in; multi-tree scenarios: 2-3 keys, one view and forest each, foreign / foreign-child / forged tokens, "
        "every token offered to several views in a random interleaving as ONE shared Token object (80 %), plus direct "
        "token.verify(key) calls; loaded trees: elements written by _append without checks (forged/foreign/dangling "
        "elements with signed tokens behind them) then verify/get_root_path of every token; token forms built by "
        "from_database_tuple with right/wrong content; re-signed twins (ECDSA keys); small-scope enumeration: all "
        "shapes x all permutations, plain and with one extra bad/duplicate item; offered objects whose content field "
        "holds foreign bytes (first arrivals and duplicates of stored tokens); re-cut copies of tokens; reader trees "
        "opened with the bare public key or with a key object that also holds the secret; owner-mode trees; other "
        "objects signed by the key cut as tokens; Token(...) with both / neither of content and content_hash; identity "
        "manager histories on a database file with restarts")
TRUSTED_BASE = [
    "hand-written Lean model of tokentree/tree.py, token.py, signed_object.py (Ipv8/C16/Model.lean), tied to the code by "
    "the correspondence run; tools/gen_c16.py (AST extraction of five constants) for GenConst.lean",
    "SHA3-256 and the signature scheme are an abstract interface in the model; theorems assume only what they state "
    "(hash injective on the offered tokens for completeness / order independence; nothing for soundness)",
    "Python object aliasing (a caller mutating a Token after offering it) is outside the model: tokens are values",
]
ASSUMPTIONS = [
    "completeness and order independence: SHA3-256 does not collide on the signed bytes of the digest-sized offered "
    "tokens (others are ignored by gather_token), and the waiting area (unchained_max_size) never overflows on the "
    "orders compared",
    "unserialize_public raising struct.error on a trailing partial chunk is mirrored by the model and compared only "
    "while the implementation does raise it; refusing the string any other way is neither judged nor compared",
]

SPEC_CAP = 100          # the waiting area the property speaks of; a tree is left on its constructor default for it
SPEC_DEPTH = 1000       # default maxdepth; calls with it use the default argument


def generate(ctx: Ctx):
    src, consts = gen_c16.translate()
    ctx.extra["generated_constants"] = consts
    tsrc, trees = gen_c16.translate_trees()
    ctx.extra["generated_decision_trees"] = trees
    return [("Ipv8/C16/GenConst.lean", src), ("Ipv8/C16/GenGather.lean", tsrc)]


def capw(cap: int) -> str:
    return "default" if cap == SPEC_CAP else str(cap)


def depthw(d: int) -> str:
    return "default" if d == SPEC_DEPTH else str(d)

VERY_LOW_KEYS = [
    "30530201010415008cd5cdc373e12a40ea8e23524b2ec0edd6d839fca00706052b81040001a12e032c00040486ae45159f2405326712493c50acd55bba13093b0520d764ed2ef1cab57a5bfc2ebe0e6d21ef13a8f3",
    "305302010104150089a2e278a0d4403693ee9b3aeb16fab679e32d1ea00706052b81040001a12e032c0004013b1ba8846fbe622fbf784f1a9f8d2c11eb1f085203711e7c26132b7c6092f53ac68c9facf2893932f2",
]


def sha3(b: bytes) -> bytes:
    return hashlib.sha3_256(b).digest()


def hx(b: bytes) -> str:
    return b.hex() if b else "-"


def id8(h: bytes) -> str:
    return hx(h[:8])


# ------------------------------------------------------------------------------------------------------------
# scenario construction (pure data, JSON-able, so that a failing scenario can be replayed)
# ------------------------------------------------------------------------------------------------------------
def load_key(keyhex: str):
    from ipv8.keyvault.crypto import ECCrypto
    return ECCrypto().key_from_private_bin(bytes.fromhex(keyhex))


def seeded_key(rng) -> str:
    return (b"LibNaCLSK:" + bytes(rng.randrange(256) for _ in range(64))).hex()


def parents_for(rng, n: int, shape: str) -> list[int]:
    """parent index per token, -1 = genesis; always parent < child index"""
    if shape == "chain":
        return [i - 1 for i in range(n)]
    if shape == "star":
        return [-1] + [0] * (n - 1)
    if shape == "binary":
        return [-1] + [(i - 1) // 2 for i in range(1, n)]
    if shape == "comb":      # a spine with one leaf hanging off every spine node
        out = []
        for i in range(n):
            out.append(-1 if i == 0 else (i - 2 if i % 2 == 0 else i - 1))
        return out
    if shape == "tworoots":
        return [-1, -1] + [rng.randrange(i) for i in range(2, n)] if n >= 2 else [-1] * n
    if shape == "wide":      # few levels, many siblings
        return [-1] + [rng.randrange(max(1, min(i, 3))) for i in range(1, n)]
    return [rng.randrange(-1, i) for i in range(n)]   # random


def mk_token(sk, prev: bytes, content: bytes, label="real", good=True) -> dict:
    chash = sha3(content)
    sig = sk.signature(prev + chash)
    return {"prev": prev.hex(), "chash": chash.hex(), "sig": sig.hex(), "content": content.hex(), "good": good,
            "label": label}


def wellformed(t: dict) -> bool:
    """both pointers have the size of a SHA3-256 digest (the only shape the wire format can carry)"""
    return len(t["prev"]) == 64 and len(t["chash"]) == 64


def tk_hid(t: dict) -> bytes:
    return sha3(bytes.fromhex(t["prev"]) + bytes.fromhex(t["chash"]) + bytes.fromhex(t["sig"]))


def flip(b: bytes, rng) -> bytes:
    i = rng.randrange(len(b))
    return b[:i] + bytes([b[i] ^ (1 << rng.randrange(8))]) + b[i + 1:]


def build_tokens(rng, sk, fk, genesis: bytes, parents: list[int], mix: list[str]) -> list[dict]:
    toks = []
    for i, p in enumerate(parents):
        prev = genesis if p < 0 else tk_hid(toks[p])
        toks.append(mk_token(sk, prev, b"" if rng.random() < 0.04 else b"c%d-%d" % (i, rng.randrange(1 << 30))))
    real = list(toks)
    for kind in mix:
        base = rng.choice(real)
        if kind == "forged-sig":
            t = dict(base, sig=flip(bytes.fromhex(base["sig"]), rng).hex(), good=False, label=kind)
        elif kind == "forged-chash":   # pointer to other content under the old signature
            t = dict(base, chash=sha3(b"other%d" % rng.randrange(1 << 30)).hex(), content=None, good=False, label=kind)
        elif kind == "forged-prev":    # re-hung under another parent with the old signature
            other = rng.choice(real)
            t = dict(base, prev=(genesis if rng.random() < 0.4 else tk_hid(other)).hex(), good=False, label=kind)
            if t["prev"] == base["prev"]:
                t["prev"] = sha3(b"elsewhere").hex()
        elif kind == "foreign":        # signed by somebody else, hung into this tree
            prev = genesis if rng.random() < 0.5 else tk_hid(base)
            t = mk_token(fk, prev, b"foreign%d" % rng.randrange(1 << 30), label=kind, good=False)
        elif kind == "foreign-tree":   # a token of the other key's own tree
            fgen = sha3(fk.pub().key_to_bin())
            t = mk_token(fk, fgen, b"ftree%d" % rng.randrange(1 << 30), label=kind, good=False)
        elif kind in ("sig-extended", "sig-zero-padded", "sig-truncated"):
            # a copy of a genuine token whose signature was re-encoded without the private key: trailing bytes, the two
            # halves (r, s of ECDSA) each padded with a leading zero byte, a byte cut off.  Another hash, same pointers.
            sg = bytes.fromhex(base["sig"])
            if kind == "sig-extended":
                sg2 = sg + bytes(rng.randrange(256) for _ in range(rng.choice([1, 1, 2, 16])))
            elif kind == "sig-zero-padded":
                sg2 = b"\x00" + sg[:len(sg) // 2] + b"\x00" + sg[len(sg) // 2:]
            else:
                sg2 = sg[:-1]
            t = dict(base, sig=sg2.hex(), good=False, label=kind)
        elif kind == "signed-non-token":
            # something ELSE the key signed whose plaintext starts with a 32-byte pointer - the Metadata of a credential
            # is `token_pointer + JSON`, public in every disclosure - cut as Token(prev=pointer, content_hash=JSON)
            prev = genesis if rng.random() < 0.3 else tk_hid(base)
            body = b'{"name": "attr%d", "schema": "id_metadata", "date": %d.0}' % (rng.randrange(100), rng.randrange(10 ** 9))
            if rng.random() < 0.3:
                body = body[:rng.choice([1, 5, 31, 33])]
            t = {"prev": prev.hex(), "chash": body.hex(), "sig": sk.signature(prev + body).hex(), "content": None,
                 "good": True, "label": "signed-non-token"}
        elif kind == "resplit":
            # the same signed bytes cut at another place: same signature, same hash, `==` the original, other pointers
            k = rng.choice([31, 30, 33, 16, 0, 40])
            both = bytes.fromhex(base["prev"]) + bytes.fromhex(base["chash"])
            t = dict(base, prev=both[:k].hex(), chash=both[k:].hex(), content=None, label="resplit")
        elif kind in ("resigned", "resigned-child"):
            # the same pointer pair signed a second time (another valid signature with ECDSA keys, the identical
            # token with deterministic ones): a different token with its own hash and its own children
            twins = [x for x in toks if x["label"] == "resigned"]
            if kind == "resigned" or not twins:
                t = mk_token(sk, bytes.fromhex(base["prev"]), bytes.fromhex(base["content"]), label="resigned")
                if t["sig"] == base["sig"]:
                    t["label"] = "real"
            else:
                t = mk_token(sk, tk_hid(rng.choice(twins)), b"twinchild%d" % rng.randrange(1 << 30), label="real")
        elif kind == "dangling":       # properly signed, parent unknown
            t = mk_token(sk, sha3(b"nowhere%d" % rng.randrange(1 << 30)), b"dangling%d" % rng.randrange(1 << 30),
                         label=kind)
        elif kind == "dangling-child":  # properly signed child of a dangling / bad token already mixed in
            bad = [x for x in toks if x["label"] != "real"]
            par = rng.choice(bad) if bad else base
            t = mk_token(sk, tk_hid(par), b"dchild%d" % rng.randrange(1 << 30),
                         label=kind if bad else "real")
        else:
            raise ValueError(kind)
        toks.append(t)
    return toks


def arrival(rng, toks: list[dict], parents: list[int], order: str) -> list[int]:
    n = len(toks)
    idx = list(range(n))
    if order == "inorder":
        pass
    elif order == "reversed":
        idx.reverse()
    elif order == "random":
        rng.shuffle(idx)
    elif order == "leaves-first":   # deepest first
        depth = {}
        for i, p in enumerate(parents):
            depth[i] = 0 if p < 0 else depth[p] + 1
        idx.sort(key=lambda i: (-(depth.get(i, 0)), rng.random()))
    elif order == "siblings-then-parent":   # every parent right after all of its children
        kids = {}
        for i, p in enumerate(parents):
            kids.setdefault(p, []).append(i)
        out = []

        def visit(i):
            for k in kids.get(i, []):
                visit(k)
            if i >= 0:
                out.append(i)
        visit(-1)
        extra = [i for i in idx if i >= len(parents)]
        for e in extra:
            out.insert(rng.randrange(len(out) + 1), e)
        idx = out
    else:
        raise ValueError(order)
    return idx


def closing_ops(rng, toks: list, n: int, contents: list | None = None) -> list:
    """API calls after the arrivals: verify / get_root_path / receive_content / serialisations / reloads"""
    ops = []
    nt = len(toks) if toks else n
    for _ in range(rng.randrange(0, 4)):
        i = rng.randrange(nt)
        ops.append([rng.choice(["verify", "path"]), i, rng.choice([1000, 1000, 1000, 1, 2, 4, 0, -1])])
    for _ in range(rng.randrange(0, 3)):
        i = rng.randrange(nt)
        known = (toks[i]["content"] if toks else contents[i])
        good = known is not None and rng.random() < 0.5
        c = bytes.fromhex(known) if good else b"wrong%d" % rng.randrange(1 << 20)
        ops.append(["recv", i, rng.choice(["pub", "hash"]), c.hex()])
    for _ in range(rng.randrange(0, 3)):
        i = rng.randrange(nt)
        known = (toks[i]["content"] if toks else contents[i])
        ops.append(["todb", i, rng.choice(["pub", "full", "dbgood", "dbbad"]) if known is not None else "hash"])
    if rng.random() < 0.4:
        ops.append(["create", rng.randrange(nt), (b"created%d" % rng.randrange(1 << 30)).hex()])
    ops.append(["missing"])
    ops.append(["ser"])
    if rng.random() < 0.5:
        ops.append(["serupto", rng.randrange(nt)])
    tail = rng.random()
    if tail < 0.35:
        ops.append(["reload"])
    elif tail < 0.55:
        ops.append(["reload_upto", rng.randrange(nt)])
    elif tail < 0.85:
        ops.append(["unser_mut", rng.choice(["truncate", "flip", "flip", "random", "shuffle", "dup", "extend", "empty"]),
                    rng.randrange(1 << 30), rng.random() < 0.5])
    return ops


def make_own_scenario(rng) -> dict:
    """the owner's tree: tokens are created by TokenTree.add / add_by_hash with the private key"""
    keytype = "curve25519" if rng.random() < 0.8 else "very-low"
    keyhex = seeded_key(rng) if keytype == "curve25519" else VERY_LOW_KEYS[rng.randrange(2)]
    n = rng.choice([1, 2, 3, 5, 8, 12, 20])
    ops, contents = [], []
    for i in range(n):
        parent = rng.choice([-1, i - 1, i - 1, rng.randrange(-1, i)]) if i else -1
        c = b"own%d-%d" % (i, rng.randrange(1 << 30))
        by_hash = rng.random() < 0.25
        ops.append(["add", parent, c.hex(), by_hash])
        contents.append(None if by_hash else c.hex())
        if rng.random() < 0.1:      # the same content under the same parent again
            ops.append(["add", parent, c.hex(), rng.random() < 0.5])
            contents.append(None)
        if rng.random() < 0.15:
            ops.append([rng.choice(["verify", "path"]), rng.randrange(len(contents)), rng.choice([1000, 1, 2, n, -1])])
        if rng.random() < 0.08:     # a pointer that is not a digest: accepted and signed?  then it has to round-trip
            ops.append(["rawadd", rng.choice(["616263", "00" * 20, "ab" * 33, ""])])
        if rng.random() < 0.12:     # the owner's tree is offered one of its own tokens from outside
            ops.append(["gather", rng.randrange(len(contents)), rng.choice(["pub", "hash"])])
    ops += closing_ops(rng, [], len(contents), contents)
    return {"key": keyhex, "fkey": keyhex, "keytype": keytype, "cap": 100, "shape": "own", "order": "own",
            "size_class": "own", "parents": [op[1] for op in ops if op[0] == "add"], "mix": [], "tokens": [],
            "ops": ops, "own": True, "open_with_secret": rng.random() < 0.35}


def make_scenario(rng, size_class: str | None = None) -> dict:
    keytype = "curve25519" if rng.random() < 0.85 else "very-low"
    if keytype == "curve25519":
        keyhex, fkeyhex = seeded_key(rng), seeded_key(rng)
    else:
        keyhex, fkeyhex = VERY_LOW_KEYS[0], VERY_LOW_KEYS[1]
    sk, fk = load_key(keyhex), load_key(fkeyhex)
    genesis = sha3(sk.pub().key_to_bin())
    size_class = size_class or rng.choice(["tiny", "small", "small", "small", "medium", "medium", "large", "overflow"])
    cap = 100
    if size_class == "tiny":
        n = rng.randrange(1, 4)
    elif size_class == "small":
        n = rng.randrange(3, 8)
    elif size_class == "medium":
        n = rng.randrange(8, 20)
    elif size_class == "large":
        n = rng.randrange(20, 41)
    else:   # overflow of the waiting area: either a small cap or more than 100 waiting tokens
        if rng.random() < 0.8 or keytype != "curve25519":
            cap = rng.choice([0, 1, 2, 3, 5])
            n = rng.randrange(3, 14)
        else:
            n = rng.randrange(101, 125)
    if size_class != "overflow" and rng.random() < 0.15:
        cap = rng.choice([1, 2, 3, 4, 6, 10])
    shape = rng.choice(["chain", "star", "binary", "comb", "tworoots", "wide", "random", "random"])
    parents = parents_for(rng, n, shape)
    kinds = ["forged-sig", "forged-chash", "forged-prev", "foreign", "foreign-tree", "dangling", "dangling-child",
             "resplit", "resplit", "signed-non-token", "signed-non-token", "sig-extended", "sig-zero-padded",
             "sig-truncated"]
    nmix = rng.choice([0, 0, 1, 2, 3, 5]) if n < 50 else rng.choice([0, 1])
    mix = [rng.choice(kinds) for _ in range(nmix)]
    if keytype == "very-low" and n < 50:     # ECDSA: two valid signatures of one pointer pair exist
        mix += ["resigned", "resigned-child"] + (["resigned"] if rng.random() < 0.5 else [])
        mix += ["sig-zero-padded", rng.choice(["sig-extended", "sig-zero-padded", "sig-truncated"])]
    toks = build_tokens(rng, sk, fk, genesis, parents, mix)
    order = rng.choice(["inorder", "reversed", "random", "random", "leaves-first", "siblings-then-parent"])
    arr = arrival(rng, toks, parents, order)
    ops = []
    for i in arr:
        form = rng.choice(["pub", "pub", "full", "hash", "dbgood", "dbbad", "fullbad", "both", "bothgood"]) \
            if toks[i]["content"] is not None else rng.choice(["hash", "dbbad", "fullbad", "both", "neither"])
        if not wellformed(toks[i]):
            form = "hash"
        ops.append(["gather", i, form])
        r = rng.random()
        if r < 0.2:     # duplicate, maybe in another form (with real or with foreign content), now or later
            j = rng.choice(arr)
            f2 = rng.choice(["pub", "full", "full", "fullbad", "fullbad"]) if toks[j]["content"] is not None \
                else rng.choice(["hash", "fullbad"])
            if not wellformed(toks[j]):
                f2 = "hash"
            ops.append(["gather", j, f2])
        elif r < 0.26:
            ops.append(["verify", rng.randrange(len(toks)), rng.choice([1000, 1000, 1, 2, 3, 0, -1, n, n + 1])])
        elif r < 0.30:
            ops.append(["path", rng.randrange(len(toks)), rng.choice([1000, 1000, 1, 2, 3, 0, -1, n, n + 1])])
        elif r < 0.33:
            ops.append(["missing"])
    ops += closing_ops(rng, toks, n)
    owner_tree = rng.random() < 0.3      # the owner's own tree (private_key mode) is offered all of this
    return {"owner_tree": owner_tree, "open_with_secret": rng.random() < 0.35,
            "key": keyhex, "fkey": fkeyhex, "keytype": keytype, "cap": cap, "shape": shape, "order": order,
            "size_class": size_class, "parents": parents, "mix": mix, "tokens": toks, "ops": ops}


# ------------------------------------------------------------------------------------------------------------
# executing a scenario on the real code (+ protocol lines for the model) with the property oracle
# ------------------------------------------------------------------------------------------------------------
class Run:
    """One execution of a scenario on the implementation."""

    def __init__(self, ctx: Ctx, sc: dict, with_lines: bool, share: "Run | None" = None):
        from ipv8.attestation.tokentree.tree import TokenTree
        from ipv8.keyvault.crypto import ECCrypto
        self.ctx, self.sc, self.with_lines = ctx, sc, with_lines
        self.sk = load_key(sc["key"])
        self.pub = self.sk.pub()
        self.crypto = ECCrypto()
        self.genesis = sha3(self.pub.key_to_bin())
        self.siglen = self.pub.get_signature_length()
        self.chunk = 64 + self.siglen
        self.TokenTree = TokenTree
        self.toks = list(sc["tokens"])
        self.hid = [tk_hid(t) for t in self.toks]
        self.own_objs: list = []
        self.pre_contents: dict = {}
        self.lines: list[str] = []
        self.impl: list[str] = []
        self.registered_h: set[bytes] = set()
        self.registered_v: set[tuple[bytes, bytes]] = set()
        self.named: set[str] = set()
        self.offered: list[dict] = []          # token dicts offered so far (harness ground truth)
        self.failed = False
        self.sigs_made: list[str] = []
        if sc.get("own"):       # ECDSA signatures are not seedable: record them, and reuse recorded ones on replay
            recorded = list(sc.get("signatures") or [])
            orig = self.sk.signature

            def signature(msg, _orig=orig, _rec=recorded):
                sg = bytes.fromhex(_rec.pop(0)) if _rec else _orig(msg)
                self.sigs_made.append(sg.hex())
                return sg
            self.sk.signature = signature
        self.share = share
        if share is not None:                  # same key and tokens, same driver process: tables are already there
            self.registered_h, self.registered_v, self.named = share.registered_h, share.registered_v, share.named

    # -- protocol helpers --------------------------------------------------------------------------------
    def line(self, ln: str, reply: str):
        if self.with_lines:
            self.lines.append(ln)
            self.impl.append(reply)

    def reg_h(self, data: bytes):
        if self.with_lines and data not in self.registered_h:
            self.registered_h.add(data)
            self.line(f"h {hx(data)} {hx(sha3(data))}", "ok")

    def reg_v(self, msg: bytes, sig: bytes):
        if self.with_lines and (msg, sig) not in self.registered_v:
            self.registered_v.add((msg, sig))
            try:
                ok = self.crypto.is_valid_signature(self.pub, msg, sig)
            except Exception:
                ok = False
                self.ctx.count("crypto:is_valid_signature-raised")
            self.line(f"v {hx(msg)} {hx(sig)} {1 if ok else 0}", "ok")

    def reg_fields(self, prev: bytes, chash: bytes, sig: bytes):
        self.reg_h(prev + chash + sig)
        self.reg_v(prev + chash, sig)

    def claimed(self, i: int) -> bytes:
        return b"relay-claims-%d" % i

    def gather_class(self, tree, i, tok, res, keys_before, waiting_before, was_waiting, stored_before, carried,
                     empty_before) -> str:
        """which path through gather_token this call took, by the harness's own knowledge of the token and by the
        state before / after (a path class that stays at zero in a green run makes the run fail, see REQUIRED)"""
        t = self.toks[i]
        if not wellformed(t):
            return "unsized"
        if not t["good"]:
            return "bad-signature"
        if res is None:
            if was_waiting:
                return "park-duplicate-of-waiting"
            if waiting_before >= self.sc["cap"]:
                return "park-evicts-oldest"
            return "park-new"
        if stored_before is not None:
            if carried is None:
                return "shadow-no-content-offered"
            if not empty_before:
                return "shadow-content-already-there"
            return "shadow-receive-bound" if sha3(carried) == bytes.fromhex(t["chash"]) else "shadow-refuse-foreign"
        new = set(tree.elements) - keys_before - {self.hid[i]}
        if not new:
            return "chain-no-wakeup"
        if any(tree.elements[h].previous_token_hash in new for h in new):
            return "chain-wakes-nested"
        return "chain-wakes-1" if len(new) == 1 else "chain-wakes-siblings"

    def db_content(self, i: int, form: str):
        """the content column of the database row used for forms dbgood / dbbad / dbnone"""
        t = self.toks[i]
        if form == "dbgood" and t["content"] is not None:
            return bytes.fromhex(t["content"])
        if form == "dbbad":
            return b"row-of-another-token-%d" % i
        return None

    def name(self, i: int, form: str) -> str:
        t = self.toks[i]
        nm = f"t{i}{form[0] if not (form.startswith('db') or form in ('fullbad', 'both', 'bothgood', 'neither')) else form}"
        if self.with_lines and nm not in self.named:
            self.named.add(nm)
            prev, chash, sig = (bytes.fromhex(t[k]) for k in ("prev", "chash", "sig"))
            self.reg_fields(prev, chash, sig)
            if form.startswith("db"):       # Token.from_database_tuple(prev, sig, chash, content)
                c = self.db_content(i, form)
                if c is not None:
                    self.reg_h(c)
                kept = c if (c is not None and sha3(c) == chash) else None      # what a bound token may carry
                o = self.obj(i, form)
                self.line(f"fromdb {nm} {hx(prev)} {hx(sig)} {hx(chash)} {'none' if c is None else hx(c)}",
                          "none" if o.content is None else hx(o.content))
                self.ctx.count(f"fromdb:{'none' if c is None else ('bound' if kept is not None else 'unbound')}")
                return nm
            content = "none"
            if form == "full":
                content = hx(bytes.fromhex(t["content"]))
                self.reg_h(bytes.fromhex(t["content"]))
            elif form == "fullbad":
                content = hx(self.claimed(i))
                self.reg_h(self.claimed(i))
            self.line(f"tok {nm} {hx(prev)} {hx(chash)} {hx(sig)} {content}", "ok")
        return nm

    def obj(self, i: int, form: str):
        """a fresh Token object for descriptor i"""
        from ipv8.attestation.tokentree.token import Token
        t = self.toks[i]
        prev, chash, sig = (bytes.fromhex(t[k]) for k in ("prev", "chash", "sig"))
        if form in ("pub", "fullbad") and (not wellformed(t) or len(sig) != self.siglen):
            form = "hash"      # the wire format cannot carry it: build it through the constructor
        if form == "pub":
            return Token.unserialize(prev + chash + sig, self.pub)
        if form == "full":
            return Token(prev, content=bytes.fromhex(t["content"]), signature=sig)
        if form in ("both", "bothgood", "neither"):      # Token.__init__ given content AND content_hash / none of them
            kw = {} if form == "neither" else {
                "content": self.claimed(i) if form == "both" or t["content"] is None else bytes.fromhex(t["content"]),
                "content_hash": chash}
            try:
                o = Token(prev, signature=sig, **kw)
            except RuntimeError:
                self.ctx.count(f"init:{form}:refused")
                return None
            self.ctx.count(f"init:{form}:constructed")
            if o.content is not None and sha3(o.content) != o.content_hash:
                self.fail("Token.__init__:unbound-content",
                          f"Token(prev, content={o.content!r}, content_hash=<pointer>, signature=...) was constructed and "
                          f"carries content that does not hash to its content pointer")
            return o
        if form == "fullbad":      # a relay's claim: the content field is covered by neither hash nor signature
            o = Token.unserialize(prev + chash + sig, self.pub)
            o.content = self.claimed(i)
            return o
        if form.startswith("db"):
            c = self.db_content(i, form)
            o = Token.from_database_tuple(prev, sig, chash, c)
            if o.content is None and c is not None and sha3(c) == chash:
                self.ctx.count("fromdb:bound-content-dropped(unjudged)")
            if (o.previous_token_hash, o.content_hash, o.signature) != (prev, chash, sig) or \
                    (o.content is not None and (o.content != c or sha3(c) != chash)):
                self.fail("Token.from_database_tuple:unbound-content",
                          f"from_database_tuple with content {c!r} gives content {o.content!r} "
                          f"(hashes to the pointer: {c is not None and sha3(c) == chash})")
            return o
        return Token(prev, content_hash=chash, signature=sig)

    def state(self, tree) -> str:
        els = sorted(f"{id8(k)}:{'none' if v.content is None else hx(v.content)}" for k, v in tree.elements.items())
        unc = [id8(sha3(u.previous_token_hash + u.content_hash + u.signature)) for u in tree.unchained]
        return "E=" + ",".join(els) + " U=" + ",".join(unc)

    def new_tree(self, own: bool = False):
        # a reader's tree can be named by the bare public key or by a key object that also holds the secret (a
        # private key IS-A public key in this library): the same key, so the same genesis and the same tree
        if own:
            tree = self.TokenTree(private_key=self.sk)
        else:
            tree = self.TokenTree(public_key=self.sk if self.sc.get("open_with_secret") else self.pub)
        self.ctx.count("tree-opened-with:%s" % ("private_key" if own else
                                                "public_key=<secret holder>" if self.sc.get("open_with_secret")
                                                else "public_key=<bare public key>"))
        if tree.genesis_hash != self.genesis or tree.public_key.key_to_bin() != self.pub.key_to_bin():
            self.fail("TokenTree.__init__:wrong-genesis",
                      f"a tree opened with {'private_key' if own else 'public_key'}=<key object"
                      f"{' holding the secret' if own or self.sc.get('open_with_secret') else ''}> has genesis "
                      f"{id8(tree.genesis_hash)}, the hash of the public key is {id8(self.genesis)}")
        if self.sc["cap"] != SPEC_CAP:
            tree.unchained_max_size = self.sc["cap"]
        return tree

    # -- oracle ------------------------------------------------------------------------------------------
    def fail(self, sig: str, what: str, extra: dict | None = None):
        self.failed = True
        rep = {"scenario": dict(self.sc, signatures=list(self.sigs_made)) if self.sc.get("own") else self.sc}
        if extra:
            rep.update(extra)
        self.ctx.oracle_fail(sig, what, rep)

    def fixpoint(self, offered: list[dict]) -> set[bytes]:
        good = {}
        for t in offered:
            if t["good"] and wellformed(t):
                good[tk_hid(t)] = bytes.fromhex(t["prev"])
        inside: set[bytes] = set()
        changed = True
        while changed:
            changed = False
            for h, prev in good.items():
                if h not in inside and (prev == self.genesis or prev in inside):
                    inside.add(h)
                    changed = True
        return inside

    def may_overflow(self, offered: list[dict]) -> bool:
        waiting = {(t["prev"], t["chash"], t["sig"]) for t in offered
                   if t["good"] and bytes.fromhex(t["prev"]) != self.genesis}
        return len(waiting) > self.sc["cap"]

    def check_invariants(self, tree, where: str):
        """soundness: holds after every call, whatever arrived and in whatever order"""
        if self.sc.get("loaded"):       # elements were written directly, the tree promises nothing about them
            return
        fix = self.fixpoint(self.offered)
        goodh = {tk_hid(t) for t in self.offered if t["good"]}
        keys = set(tree.elements.keys())
        for k, v in tree.elements.items():
            real = sha3(v.previous_token_hash + v.content_hash + v.signature)
            if real != k:
                self.fail("TokenTree.elements:key-mismatch", f"{where}: element stored under {id8(k)} hashes to {id8(real)}")
                return
            if k not in goodh:
                self.fail("TokenTree.gather_token:bad-token-accepted",
                          f"{where}: element {id8(k)} is not a token signed by the tree key "
                          f"({self.label_of(k)}); elements={sorted(map(id8, keys))}")
                return
            if v.previous_token_hash != self.genesis and v.previous_token_hash not in keys:
                self.fail("TokenTree.gather_token:dangling-token-accepted",
                          f"{where}: element {id8(k)} has parent {id8(v.previous_token_hash)} which is not contained")
                return
            if k not in fix:
                self.fail("TokenTree.gather_token:unconnected-token-accepted",
                          f"{where}: element {id8(k)} is not connected to genesis through offered valid tokens")
                return
            if v.content is not None and sha3(v.content) != v.content_hash and \
                    v.content not in self.pre_contents.get(k, ()):
                # (an offered object that carried foreign content when it became the element is the caller's doing;
                #  content that got there any other way was attached by the tree)
                self.fail("Token.receive_content:unbound-content",
                          f"{where}: element {id8(k)} carries content {v.content!r} that does not hash to its content pointer")
                return
        if len(tree.unchained) > self.sc["cap"]:
            self.fail("TokenTree.gather_token:waiting-area-unbounded",
                      f"{where}: {len(tree.unchained)} waiting tokens, cap {self.sc['cap']}")

    def label_of(self, h: bytes) -> str:
        for t in self.offered:
            if tk_hid(t) == h:
                return t["label"]
        return "never offered"

    def check_complete(self, tree, where: str):
        """completeness: only while the waiting area cannot have overflowed"""
        if self.sc.get("loaded"):
            return
        if self.may_overflow(self.offered):
            self.ctx.count("oracle:complete-skipped(overflow-possible)")
            return
        fix = self.fixpoint(self.offered)
        keys = set(tree.elements.keys())
        if keys - fix:
            self.fail("TokenTree.gather_token:unconnected-token-accepted",
                      f"{where}: elements {sorted(id8(h) for h in keys - fix)} are not in the least fixpoint of the "
                      f"offered tokens")
            return
        if keys != fix:
            missing = sorted(id8(h) for h in fix - keys)
            self.fail("TokenTree.gather_token:incomplete",
                      f"{where}: tokens {missing} are signed by the tree key and connected to genesis through contained "
                      f"tokens but are not elements (elements={len(keys)}, expected={len(fix)}, "
                      f"waiting={len(tree.unchained)})")
            return
        good_rest = {tk_hid(t) for t in self.offered if t["good"] and wellformed(t)} - fix
        unc = {sha3(u.previous_token_hash + u.content_hash + u.signature) for u in tree.unchained
               if len(u.previous_token_hash) == 32 and len(u.content_hash) == 32}      # re-split copies may wait or not
        if unc != good_rest:
            self.fail("TokenTree.unchained:wrong-waiting-set",
                      f"{where}: waiting tokens {sorted(map(id8, unc))} but the valid unconnected offered tokens are "
                      f"{sorted(map(id8, good_rest))}")
        self.ctx.count("oracle:complete-checked")

    def expected_path(self, tree, i: int, maxdepth: int):
        """root path of descriptor i through the CURRENT elements, by ground truth; None = no path within depth"""
        t = self.toks[i]
        self.walk_class = "token-not-signed-or-unsized"
        if not t["good"] or maxdepth <= 0 or not wellformed(t):
            if maxdepth <= 0:
                self.walk_class = "zero-depth"
            return None
        goodh = {tk_hid(x) for x in self.toks if x["good"]}
        path = [self.hid[i]]
        prev = bytes.fromhex(t["prev"])
        steps = 0
        while True:
            if prev == self.genesis:
                self.walk_class = "success-len1" if len(path) == 1 else "success-len2+"
                return path
            if prev not in tree.elements:
                self.walk_class = "parent-missing"
                return None
            if prev not in goodh:
                self.walk_class = "ancestor-not-signed"
                return None
            steps += 1
            if steps >= maxdepth:
                self.walk_class = "depth-exhausted"
                return None
            path.append(prev)
            e = tree.elements[prev]
            prev = e.previous_token_hash

    # -- the run -----------------------------------------------------------------------------------------
    def run(self, ops=None) -> None:
        sc = self.sc
        tree = self.new_tree(own=bool(sc.get("own") or sc.get("owner_tree")))
        if self.with_lines:
            if self.share is None:
                self.line(f"key {hx(self.genesis)} {self.siglen}", "ok")
                pubbin = self.pub.key_to_bin()
                self.reg_h(pubbin)
                secret = self.sk.key_to_bin() if (sc.get("open_with_secret") or sc.get("own") or sc.get("owner_tree")) \
                    else None
                self.line(f"viewobj ctor {hx(pubbin)} {'none' if secret is None else hx(secret)} {capw(sc['cap'])}",
                          f"ok {hx(tree.genesis_hash)}")
            self.line(f"new {capw(sc['cap'])}", "ok")
        ops = sc["ops"] if ops is None else ops
        rng_local = None
        self.tree = tree
        try:
            for n, op in enumerate(ops):
                self.cur = (n, op)
                kind = op[0]
                self.ctx.count(f"op:{kind}")
                if kind == "gather":
                    _, i, form = op
                    tok = self.obj(i, form)
                    if form in ("both", "bothgood", "neither"):
                        t_ = self.toks[i]
                        c_ = None if form == "neither" else (self.claimed(i) if form == "both" or t_["content"] is None
                                                             else bytes.fromhex(t_["content"]))
                        if c_ is not None:
                            self.reg_h(c_)
                        self.line(f"init t{i}{form} {hx(bytes.fromhex(t_['prev']))} {'none' if c_ is None else hx(c_)} "
                                  f"{'none' if form == 'neither' else hx(bytes.fromhex(t_['chash']))} "
                                  f"{hx(bytes.fromhex(t_['sig']))}",
                                  "error" if tok is None else f"ok {hx(tok.content_hash)} "
                                  f"{'none' if tok.content is None else hx(tok.content)}")
                        if tok is None:
                            continue
                        self.reg_fields(*(bytes.fromhex(t_[k]) for k in ("prev", "chash", "sig")))
                        self.named.add(f"t{i}{form}")
                    nm = self.name(i, form)
                    self.offered.append(self.toks[i])
                    stored_before = tree.elements.get(self.hid[i])
                    empty_before = stored_before is not None and stored_before.content is None
                    if stored_before is None:       # an object that may itself become the element, content included
                        self.pre_contents.setdefault(self.hid[i], set()).add(tok.content)
                    carried = tok.content
                    if carried is not None:
                        self.ctx.count("offer-carries:%s:%s" % (
                            "bound" if sha3(carried) == tok.content_hash else "foreign-content",
                            "already-stored" if stored_before is not None else "not-stored"))
                    keys_before = set(tree.elements)
                    waiting_before = len(tree.unchained)
                    was_waiting = tok in tree.unchained
                    res = tree.gather_token(tok)
                    self.ctx.count("branch:gather:" + self.gather_class(tree, i, tok, res, keys_before, waiting_before,
                                                                        was_waiting, stored_before, carried,
                                                                        empty_before))
                    if empty_before and carried is not None and self.toks[i]["good"]:
                        now = tree.elements[self.hid[i]].content
                        want = carried if sha3(carried) == bytes.fromhex(self.toks[i]["chash"]) else None
                        if want is not None and now != want:
                            self.ctx.count("handover:bound-content-not-taken(unjudged)")
                        if want is None and now is not None:
                            self.fail("TokenTree.gather_token:content-handover",
                                      f"op {n}: a duplicate carrying {'bound' if want is not None else 'foreign'} content "
                                      f"{carried!r} was offered for the stored, content-less token {id8(self.hid[i])}; "
                                      f"the stored token now holds {now!r}")
                    k = "none" if res is None else ("added" if res is tok else "shadow")
                    self.ctx.count(f"gather:{k}")
                    k = "none" if res is None else "some"      # which object comes back is not compared
                    self.ctx.count(f"offered:{self.toks[i]['label']}")
                    self.line(f"gather {nm}", f"{k} {self.state(tree)}")
                    self.check_invariants(tree, f"after op {n} gather({i},{form})")
                    if res is not None and not self.toks[i]["good"]:
                        self.fail("TokenTree.gather_token:bad-token-accepted",
                                  f"gather_token returned a token for a {self.toks[i]['label']} token")
                elif kind == "add":
                    _, parent, chex, by_hash = op
                    c = bytes.fromhex(chex)
                    after = self.own_objs[parent] if parent >= 0 else None
                    n_before = len(tree.elements)
                    tok = tree.add_by_hash(sha3(c), after) if by_hash else tree.add(c, after)
                    self.ctx.count("branch:append:%s" % ("new-key" if len(tree.elements) > n_before else "overwrite"))
                    d = {"prev": tok.previous_token_hash.hex(), "chash": tok.content_hash.hex(), "sig": tok.signature.hex(),
                         "content": None if by_hash else chex, "good": True, "label": "own"}
                    i = len(self.toks)
                    self.toks.append(d)
                    self.hid.append(tk_hid(d))
                    self.own_objs.append(tok)
                    self.offered.append(d)
                    exp_prev = self.genesis if parent < 0 else self.hid[parent]
                    try:
                        sig_ok = self.crypto.is_valid_signature(self.pub, exp_prev + sha3(c), tok.signature)
                    except Exception:
                        sig_ok = False
                    if (tok.previous_token_hash != exp_prev or tok.content_hash != sha3(c) or not sig_ok
                            or tok.content != (None if by_hash else c) or tree.elements.get(self.hid[i]) is not tok):
                        self.fail("TokenTree.add:bad-token",
                                  f"add{'_by_hash' if by_hash else ''}(after={parent}) produced prev={id8(tok.previous_token_hash)} "
                                  f"(expected {id8(exp_prev)}), pointer ok={tok.content_hash == sha3(c)}, signature ok={sig_ok}, "
                                  f"stored under its hash={tree.elements.get(self.hid[i]) is tok}")
                    form = "hash" if by_hash else "full"
                    nm = self.name(i, form)
                    self.line(f"append {nm}", self.state(tree))
                    self.check_invariants(tree, f"after op {n} add(after={parent})")
                elif kind == "rawadd":    # side experiment on a tree of its own (implementation only)
                    raw = bytes.fromhex(op[1])
                    own2 = self.TokenTree(private_key=self.sk)
                    first = own2.add(b"first")
                    try:
                        own2.add_by_hash(raw, first)
                        accepted = True
                    except (RuntimeError, ValueError):
                        accepted = False
                    self.ctx.count(f"rawadd:{len(raw)}-byte-pointer:{'accepted' if accepted else 'refused'}")
                    if accepted:
                        dump = own2.serialize_public()
                        reader = self.TokenTree(public_key=self.pub)
                        try:
                            okr = reader.unserialize_public(dump)
                            same = set(reader.elements) == set(own2.elements)
                        except Exception as e:
                            okr, same = f"{type(e).__name__}", False
                        if not same:
                            self.fail("TokenTree.add_by_hash:pointer-does-not-round-trip",
                                      f"add_by_hash accepted and signed a {len(raw)}-byte content pointer; the public "
                                      f"serialisation of that tree ({len(dump)} bytes) reloads with {okr} to "
                                      f"{len(reader.elements)} of {len(own2.elements)} tokens")
                elif kind == "load":      # what a database load does: elements written without any check
                    _, i, form = op
                    tok = self.obj(i, form)
                    nm = self.name(i, form)
                    tree._append(tok)
                    self.ctx.count(f"load:{self.toks[i]['label']}")
                    self.line(f"append {nm}", self.state(tree))
                elif kind == "todb":
                    _, i, form = op
                    tok = self.obj(i, form)
                    nm = self.name(i, form)
                    row = tok.to_database_tuple()
                    self.line(f"todb {nm}", " ".join(hx(x) for x in row[:3]) + " " + ("none" if row[3] is None else hx(row[3])))
                    from ipv8.attestation.tokentree.token import Token as _T
                    back = _T.from_database_tuple(*row)
                    if (back.get_plaintext_signed(), back.content) != (tok.get_plaintext_signed(), tok.content):
                        self.fail("Token.from_database_tuple:roundtrip", "to_database_tuple -> from_database_tuple changed the token")
                elif kind == "create":
                    _, parent, chex = op
                    from ipv8.attestation.tokentree.token import Token as _T
                    c = bytes.fromhex(chex)
                    ptok, pnm = self.obj(parent, "hash"), self.name(parent, "hash")
                    new = _T.create(ptok, c, self.sk)
                    self.reg_h(c)
                    self.line(f"create c{n} {pnm} {hx(c)} {hx(new.signature)}",
                              f"{hx(new.previous_token_hash)} {hx(new.content_hash)} "
                              f"{'none' if new.content is None else hx(new.content)}")
                    try:
                        ok = self.crypto.is_valid_signature(self.pub, self.hid[parent] + sha3(c), new.signature)
                    except Exception:
                        ok = False
                    if new.previous_token_hash != self.hid[parent] or new.content_hash != sha3(c) or new.content != c or not ok:
                        self.fail("Token.create:bad-token", f"Token.create behind token {parent}: link ok="
                                  f"{new.previous_token_hash == self.hid[parent]}, pointer ok={new.content_hash == sha3(c)}, "
                                  f"signature ok={ok}")
                elif kind in ("verify", "path"):
                    _, i, depth = op
                    form = "hash"
                    tok = self.obj(i, form)
                    nm = self.name(i, form)
                    # a negative maxdepth ("-1") is not specified: today it never succeeds, a repair may make it mean
                    # "unbounded".  Such calls are made, but only judged for SAFETY (True / a path needs a genuine root
                    # path of some length) and not compared with the model.
                    judged = depth >= 0
                    exp = self.expected_path(tree, i, depth if judged else 10 ** 9)
                    if not judged:
                        self.ctx.count("maxdepth:negative(unjudged)")
                    else:
                        self.ctx.count(f"branch:walk:{self.walk_class}")
                    if kind == "verify":
                        r = tree.verify(tok) if depth == SPEC_DEPTH else tree.verify(tok, maxdepth=depth)
                        if judged:
                            self.line(f"verify {nm} {depthw(depth)}", "true" if r else "false")
                        self.ctx.count(f"verify:{r}:{'good' if self.toks[i]['good'] else 'bad'}")
                        if r and exp is None:
                            self.fail("TokenTree.verify:false-positive",
                                      f"verify({self.toks[i]['label']} token {id8(self.hid[i])}, {depth}) is True but it has "
                                      f"no root path of valid contained tokens within {depth}")
                        if judged and not r and exp is not None and depth > 0:
                            self.fail("TokenTree.verify:false-negative",
                                      f"verify(token {id8(self.hid[i])}, {depth}) is False but its root path has "
                                      f"{len(exp)} tokens")
                    else:
                        r = tree.get_root_path(tok) if depth == SPEC_DEPTH else tree.get_root_path(tok, maxdepth=depth)
                        got = [sha3(x.previous_token_hash + x.content_hash + x.signature) for x in r]
                        if judged:
                            self.line(f"path {nm} {depthw(depth)}", ",".join(id8(h) for h in got))
                        self.ctx.count(f"path:{'empty' if not got else 'len%d' % min(len(got), 5)}")
                        if got != (exp or []) and not (not judged and not got):
                            self.fail("TokenTree.get_root_path:wrong-path",
                                      f"get_root_path({self.toks[i]['label']} token {id8(self.hid[i])}, {depth}) = "
                                      f"{[id8(h) for h in got]}, expected {[id8(h) for h in (exp or [])]}")
                elif kind == "missing":
                    r = sorted(hx(h) for h in tree.get_missing())
                    self.line("missing", ",".join(r))
                    exp = sorted({hx(u.previous_token_hash) for u in tree.unchained})
                    if r != exp:
                        self.fail("TokenTree.get_missing:wrong", f"get_missing={r} waiting parents={exp}")
                elif kind == "recv":
                    _, i, form, chex = op
                    tok = self.obj(i, form)
                    nm = self.name(i, form)
                    c = bytes.fromhex(chex)
                    self.reg_h(c)
                    r = tok.receive_content(c)
                    self.line(f"recv {nm} {hx(c)}", f"{'true' if r else 'false'} "
                                                    f"{'none' if tok.content is None else hx(tok.content)}")
                    self.named.discard(nm)   # the driver's registry token changed; re-register on next use
                    binds = sha3(c) == bytes.fromhex(self.toks[i]["chash"])
                    self.ctx.count(f"recv:{'bound' if binds else 'unbound'}")
                    if r != binds or (tok.content is not None) != binds or (binds and tok.content != c):
                        self.fail("Token.receive_content:unbound-content",
                                  f"receive_content({c!r}) returned {r} / content={tok.content!r}; content hashes to the "
                                  f"pointer: {binds}")
                elif kind == "ser":
                    s = tree.serialize_public()
                    self.line("ser", self.canon_ser(hx(s)))
                    exp = sorted(v.previous_token_hash + v.content_hash + v.signature for v in tree.elements.values())
                    if sorted(s[j:j + self.chunk] for j in range(0, len(s), self.chunk)) != exp:
                        self.fail("TokenTree.serialize_public:wrong-dump", "full dump is not the concatenation of the elements")
                elif kind == "serupto":
                    _, i = op
                    tok = self.obj(i, "hash")
                    nm = self.name(i, "hash")
                    s = tree.serialize_public(tok)
                    self.line(f"serupto {nm}", hx(s))
                elif kind in ("reload", "reload_upto"):
                    if kind == "reload":
                        s = tree.serialize_public()
                        expect_keys = set(tree.elements.keys())
                        expect_flag = True
                        overflow_possible = False
                    else:
                        i = op[1]
                        if self.hid[i] not in tree.elements or not wellformed(self.toks[i]):
                            # serialize_public(up_to=<anything>) starts with that token, whatever it is; a reader must
                            # still end up with good, connected tokens only
                            self.ctx.count("reload_upto:not-an-element(soundness-only)")
                            sb = tree.serialize_public(self.obj(i, "hash"))
                            t2 = self.new_tree()
                            good_signed = {bytes.fromhex(t["prev"]) + bytes.fromhex(t["chash"]) + bytes.fromhex(t["sig"]): t
                                           for t in self.toks if t["good"] and wellformed(t)}
                            self.offered = []
                            for j in range(0, len(sb) - self.chunk + 1, self.chunk):
                                ch = sb[j:j + self.chunk]
                                self.reg_fields(ch[:32], ch[32:64], ch[64:])
                                self.offered.append(good_signed.get(ch) or {"prev": ch[:32].hex(), "chash": ch[32:64].hex(),
                                                                            "sig": ch[64:].hex(), "content": None,
                                                                            "good": False, "label": "bytes"})
                            try:
                                ok2 = "true" if t2.unserialize_public(sb) else "false"
                            except struct.error:       # the dump starts with an object that is not chunk sized
                                ok2 = "error"
                                self.ctx.count("reload_upto:not-an-element:struct.error")
                            self.line(f"new {capw(sc['cap'])}", "ok")
                            if ok2 == "error" or len(sb) % self.chunk == 0:
                                self.line(f"unser {hx(sb)}", f"{ok2} {self.state(t2)}")
                            tree = t2
                            self.pre_contents = {}
                            self.check_invariants(tree, "after reload of serialize_public(up_to=<not an element>)")
                            continue
                        tok = self.obj(i, "hash")
                        s = tree.serialize_public(tok)
                        p = self.expected_path(tree, i, 10 ** 9)
                        expect_keys = set(p or [])
                        expect_flag = len(expect_keys) <= 1      # every non-root chunk arrives before its parent
                        overflow_possible = len(expect_keys) - 1 > sc["cap"]
                    tree2 = self.new_tree()
                    for j in range(0, len(s) - self.chunk + 1, self.chunk):
                        self.reg_fields(s[j:j + 32], s[j + 32:j + 64], s[j + 64:j + self.chunk])
                    ok = tree2.unserialize_public(s)
                    self.line(f"new {capw(sc['cap'])}", "ok")
                    self.line(f"unser {hx(s)}", f"{'true' if ok else 'false'} {self.state(tree2)}")
                    self.ctx.count(f"{kind}:{ok}")
                    if not overflow_possible:
                        if set(tree2.elements.keys()) != expect_keys:
                            self.fail("TokenTree.unserialize_public:roundtrip",
                                      f"{kind}: reloading the public serialisation gives {len(tree2.elements)} elements, "
                                      f"the serialised tree/path has {len(expect_keys)}")
                        elif kind == "reload" and (not ok or len(tree2.unchained)):
                            self.fail("TokenTree.unserialize_public:roundtrip",
                                      f"reload of a full dump returned {ok} with {len(tree2.unchained)} waiting tokens")
                        elif kind == "reload_upto" and ok != expect_flag:
                            self.ctx.count("reload_upto:flag-differs")
                    # the reloaded tree replaces the current one (the driver holds a single tree)
                    self.offered = [t for t in self.offered if tk_hid(t) in expect_keys] if not overflow_possible else self.offered
                    tree = tree2
                    self.pre_contents = {}
                    self.check_invariants(tree, f"after {kind}")
                elif kind == "unser_mut":
                    _, how, mseed, fresh = op
                    import random as _r
                    rng_local = _r.Random(mseed)
                    s = tree.serialize_public()
                    s = self.mutate(s, how, rng_local)
                    target = self.new_tree() if fresh else tree
                    if fresh:
                        self.line(f"new {capw(sc['cap'])}", "ok")
                        self.offered = []
                    # ground truth for the chunks: a chunk is good iff it is byte-identical to a good offered token
                    good_signed = {bytes.fromhex(t["prev"]) + bytes.fromhex(t["chash"]) + bytes.fromhex(t["sig"]): t
                                   for t in self.toks if t["good"] and wellformed(t)}
                    for j in range(0, len(s) - self.chunk + 1, self.chunk):
                        ch = s[j:j + self.chunk]
                        self.reg_fields(ch[:32], ch[32:64], ch[64:])
                        if ch in good_signed:
                            self.offered.append(good_signed[ch])
                        else:
                            self.offered.append({"prev": ch[:32].hex(), "chash": ch[32:64].hex(), "sig": ch[64:].hex(),
                                                 "content": None, "good": False, "label": "bytes"})
                    try:
                        ok = target.unserialize_public(s)
                        flag = "true" if ok else "false"
                    except struct.error:
                        flag = "error"
                    self.ctx.count(f"unser_mut:{how}:{flag}")
                    if len(s) % self.chunk != 0 and flag != "error":
                        # a short tail: today struct.error after the whole chunks were gathered; refusing it any
                        # other way (False, nothing gathered, ...) is as good - not compared with the model
                        self.ctx.count("unser_mut:short-tail-not-struct-error(uncompared)")
                        if flag == "true":
                            self.fail("TokenTree.unserialize_public:true-with-rejected-chunk",
                                      "unserialize_public returned True for a string with a partial last chunk")
                    else:
                        self.line(f"unser {hx(s)}", f"{flag} {self.state(target)}")
                    if flag == "true":
                        lost = [id8(sha3(s[j:j + self.chunk])) for j in range(0, len(s), self.chunk)
                                if sha3(s[j:j + self.chunk]) not in target.elements]
                        if lost:
                            self.fail("TokenTree.unserialize_public:true-with-rejected-chunk",
                                      f"unserialize_public returned True although chunks {lost} did not become elements "
                                      f"({how} bytes)")
                    tree = target
                    if fresh:
                        self.pre_contents = {}
                    self.check_invariants(tree, f"after unserialize_public of {how} bytes")
                    if flag == "error" and len(s) % self.chunk == 0:
                        self.fail("TokenTree.unserialize_public:raises", "struct.error on a whole number of chunks")
                else:
                    raise ValueError(kind)
                self.tree = tree
        except Exception as e:      # the real code raised where the API promises a value
            n, op = self.cur
            self.fail(f"TokenTree.{op[0]}:raises",
                      f"op {n} {op[:3]} raised {type(e).__name__}: {str(e)[:200]}")
            if self.with_lines:      # keep request / reply lists aligned; the scenario ends here
                self.lines, self.impl = self.lines[:len(self.impl)], self.impl[:len(self.lines)]
            return
        self.tree = tree

    def canon_ser(self, h: str) -> str:
        if h == "-":
            return h
        w = 2 * self.chunk
        return "".join(sorted(h[j:j + w] for j in range(0, len(h), w)))

    def mutate(self, s: bytes, how: str, rng) -> bytes:
        c = self.chunk
        if how == "empty":
            return b""
        if how == "truncate":
            if s and rng.random() < 0.35:
                return s[:c * rng.randrange(len(s) // c + 1)]
            return s[:rng.randrange(len(s) + 1)] if s else s
        if how == "flip":
            return flip(s, rng) if s else s
        if how == "random":
            return bytes(rng.randrange(256) for _ in range(rng.choice([0, 1, 63, 64, c - 1, c, c + 1, 2 * c, 3 * c + 5])))
        if how == "extend":
            return s + bytes(rng.randrange(256) for _ in range(rng.choice([1, 32, c - 1, c])))
        chunks = [s[j:j + c] for j in range(0, len(s), c)]
        if how == "shuffle":
            rng.shuffle(chunks)
        elif how == "dup" and chunks:
            chunks.insert(rng.randrange(len(chunks) + 1), rng.choice(chunks))
        return b"".join(chunks)


def gather_ops(sc: dict) -> list[list]:
    return [op for op in sc["ops"] if op[0] == "gather"]


def order_check(ctx: Ctx, sc: dict, base: Run, orders: list[list[list]], what: str):
    """offer the same multiset of tokens in other orders (implementation only) and compare the outcome"""
    base_keys = set(base_tree_after_gathers(ctx, sc).elements.keys())
    for perm in orders:
        r = Run(ctx, sc, False)
        r.run(perm)
        keys = set(r.tree.elements.keys())
        r.check_complete(r.tree, f"{what} order")
        ctx.case(None, False)
        if keys != base_keys and not r.may_overflow(r.offered):
            r.fail("TokenTree.gather_token:order-dependent",
                   f"the same {len(perm)} offered tokens give {len(base_keys)} elements in one arrival order and "
                   f"{len(keys)} in another (waiting: {len(r.tree.unchained)})",
                   {"order_a": [op[1] for op in gather_ops(sc)], "order_b": [op[1] for op in perm]})
            return


_BASE_CACHE: dict = {}


def base_tree_after_gathers(ctx: Ctx, sc: dict):
    r = Run(ctx, sc, False)
    r.run(gather_ops(sc))
    r.check_complete(r.tree, "scenario")
    return r.tree


def feed_model(ctx: Ctx, runs: list[Run]):
    if not ctx.model_ok:
        return
    lines, impl = [], []
    for r in runs:
        lines += r.lines
        impl += r.impl
    if not lines:
        return
    replies = ctx.driver().batch(lines)
    # locate the scenario of each line for the replay
    owner = []
    for r in runs:
        owner += [r] * len(r.lines)
    reported = set()
    for ln, model, im, r in zip(lines, replies, impl, owner):
        m = canon_model(ln, model, r)
        if m != im and id(r) not in reported:
            reported.add(id(r))
            ctx.disagree(f"model {m[:300]!r} != implementation {im[:300]!r} on `{ln[:120]}`",
                         {"line": ln, "model": m, "impl": im, "scenario": r.sc})


def canon_model(ln: str, reply: str, r: Run) -> str:
    op = ln.split(" ", 1)[0]
    if op in ("gather", "unser", "state", "append", "offer", "vunser", "psubst", "pcred", "prestart"):
        parts = reply.split(" ")
        out = []
        for p in parts:
            if p in ("invalid", "orphan"):
                p = "none"
            elif op in ("offer", "gather") and p in ("shadow", "added"):
                p = "some"
            elif p.startswith("E="):
                p = "E=" + ",".join(sorted(x for x in p[2:].split(",") if x))
            out.append(p)
        return " ".join(out)
    if op == "missing":
        return ",".join(sorted(set(x for x in reply.split(",") if x)))
    if op in ("ser", "vser"):
        return r.canon_ser(reply)
    return reply


def sig_of(sc: dict) -> tuple:
    return (sc["shape"], tuple(sorted(set(sc["mix"]))), sc["order"], sc["size_class"], sc["cap"], len(sc["tokens"]),
            tuple(sc["parents"][:12]), tuple(op[1] for op in gather_ops(sc))[:16])


def nontrivial(sc: dict) -> bool:
    seen = set()
    early = False
    toks = sc["tokens"]
    hid = [tk_hid(t) for t in toks]
    for op in gather_ops(sc):
        i = op[1]
        prev = bytes.fromhex(toks[i]["prev"])
        if prev in hid and prev not in seen:
            early = True
        seen.add(hid[i])
    return early or bool(sc["mix"])


def run_random(ctx: Ctx, n_scen: int, n_orders: int, use_model: bool, size_class=None):
    rng = ctx.rng
    runs = []
    for k in range(n_scen):
        sc = make_scenario(rng, size_class)
        ctx.count(f"shape:{sc['shape']}")
        ctx.count("tree:%s" % ("owner(private_key)" if sc.get("owner_tree") else "reader(public_key)"))
        ctx.count(f"order:{sc['order']}")
        ctx.count(f"size:{sc['size_class']}")
        ctx.count(f"key:{sc['keytype']}")
        ctx.count("cap:%s" % ("100" if sc["cap"] == 100 else "small"))
        ctx.count("tokens:%s" % ("1-3" if len(sc["tokens"]) <= 3 else "4-7" if len(sc["tokens"]) <= 7 else
                                 "8-19" if len(sc["tokens"]) <= 19 else "20-49" if len(sc["tokens"]) <= 49 else "50+"))
        for m in sc["mix"]:
            ctx.count(f"mix:{m}")
        r = Run(ctx, sc, use_model)
        r.run()
        runs.append(r)
        ctx.case(sig_of(sc), nontrivial(sc))
        if k < 2:
            ctx.sample({"shape": sc["shape"], "order": sc["order"], "cap": sc["cap"], "parents": sc["parents"],
                        "mix": sc["mix"], "ops": sc["ops"][:12]})
        # other arrival orders of the same multiset
        g = gather_ops(sc)
        if len(g) <= 60:
            perms = []
            for _ in range(n_orders):
                p = list(g)
                rng.shuffle(p)
                perms.append(p)
            perms.append(list(reversed(g)))
            order_check(ctx, sc, r, perms, "shuffled")
        if len(runs) >= 50:
            if use_model:
                feed_model(ctx, runs)
            runs = []
    if use_model:
        feed_model(ctx, runs)


def make_loaded_scenario(rng) -> dict:
    """a tree whose elements were written without checks (`_append`: database load, "direct writing" in the words of
    TokenTree.verify's docstring): forged / foreign / dangling tokens ARE elements here, and properly signed tokens hang
    behind them; verify and get_root_path have to find that out themselves"""
    keytype = "curve25519" if rng.random() < 0.9 else "very-low"
    keyhex, fkeyhex = (seeded_key(rng), seeded_key(rng)) if keytype == "curve25519" else tuple(VERY_LOW_KEYS)
    sk, fk = load_key(keyhex), load_key(fkeyhex)
    genesis = sha3(sk.pub().key_to_bin())
    n = rng.randrange(1, 9)
    parents = parents_for(rng, n, rng.choice(["chain", "random", "binary", "tworoots"]))
    mix = [rng.choice(["forged-sig", "foreign", "forged-prev", "dangling"]) for _ in range(rng.randrange(1, 4))]
    mix += ["dangling-child"] * rng.randrange(1, 4)      # signed by the tree key, behind one of the bad tokens
    if rng.random() < 0.5:
        mix += ["dangling-child"]
    toks = build_tokens(rng, sk, fk, genesis, parents, mix)
    idx = list(range(len(toks)))
    rng.shuffle(idx)
    ops = []
    for i in idx:
        if rng.random() < 0.9:
            ops.append(["load", i, rng.choice(["pub", "hash", "full"]) if toks[i]["content"] is not None else "hash"])
        if rng.random() < 0.3:
            ops.append([rng.choice(["verify", "path"]), rng.randrange(len(toks)), rng.choice([1000, 1000, 1, 2, 3, -1])])
    for i in range(len(toks)):
        ops.append([rng.choice(["verify", "path"]), i, rng.choice([1000, 1000, 1000, 2, 4])])
    for _ in range(rng.randrange(0, 3)):      # tokens gathered on top of what was loaded
        ops.append(["gather", rng.randrange(len(toks)), "pub"])
        ops.append([rng.choice(["verify", "path"]), rng.randrange(len(toks)), 1000])
    ops.append(["ser"])
    if rng.random() < 0.5:
        ops.append(["serupto", rng.randrange(len(toks))])
    return {"key": keyhex, "fkey": fkeyhex, "keytype": keytype, "cap": 100, "shape": "loaded", "order": "loaded",
            "size_class": "loaded", "parents": parents, "mix": mix, "tokens": toks, "ops": ops, "loaded": True,
            "owner_tree": rng.random() < 0.4, "open_with_secret": rng.random() < 0.35}


def run_loaded(ctx: Ctx, n_scen: int, use_model: bool):
    runs = []
    for k in range(n_scen):
        sc = make_loaded_scenario(ctx.rng)
        ctx.count("shape:loaded")
        ctx.count("loaded:tree:%s" % ("owner(private_key)" if sc.get("owner_tree") else "reader(public_key)"))
        r = Run(ctx, sc, use_model)
        r.run()
        runs.append(r)
        bad_el = sum(1 for h in r.tree.elements if h not in {tk_hid(t) for t in sc["tokens"] if t["good"]})
        ctx.count("loaded:trees-with-invalid-elements" if bad_el else "loaded:trees-all-valid")
        ctx.case(("loaded", tuple(sc["parents"]), tuple(sc["mix"]), tuple(tuple(o[:2]) for o in sc["ops"][:20])), True)
        if k < 1:
            ctx.sample({"loaded": True, "parents": sc["parents"], "mix": sc["mix"], "ops": sc["ops"][:12]})
    if use_model:
        feed_model(ctx, runs)


def run_deep(ctx: Ctx):
    """implementation only (the table-driven driver is quadratic): a chain just beyond the default maxdepth"""
    rng = ctx.rng
    keyhex = seeded_key(rng)
    sk = load_key(keyhex)
    genesis = sha3(sk.pub().key_to_bin())
    n = SPEC_DEPTH + 1
    toks = build_tokens(rng, sk, sk, genesis, list(range(-1, n - 1)), [])
    sc = {"key": keyhex, "fkey": keyhex, "keytype": "curve25519", "cap": 100, "shape": "deep", "order": "inorder",
          "size_class": "deep", "parents": [], "mix": [], "tokens": toks,
          "ops": [["gather", i, "hash"] for i in range(n)] + [["verify", n - 1, SPEC_DEPTH], ["verify", n - 2, SPEC_DEPTH],
                                                              ["path", n - 2, SPEC_DEPTH], ["path", n - 1, SPEC_DEPTH],
                                                              ["verify", n - 1, n], ["verify", n - 1, -1]]}
    # only the closing calls are checked step by step; the arrivals are checked once at the end
    r = Run(ctx, dict(sc, loaded=True), False)
    r.run()
    r.sc = sc
    r.check_invariants(r.tree, "deep chain")
    r.check_complete(r.tree, "deep chain")
    ctx.count("special:deep-chain-%d" % n)
    ctx.case(("deep", n), True)


# ------------------------------------------------------------------------------------------------------------
# persistence: IdentityManager / PseudonymManager on a database file, with restarts
# ------------------------------------------------------------------------------------------------------------
def make_persist_scenario(rng) -> dict:
    ecdsa = rng.random() < 0.4      # a key level whose signatures are not deterministic: the same pointers signed twice
    keyhex, fkeyhex = (VERY_LOW_KEYS[0], VERY_LOW_KEYS[1]) if ecdsa else (seeded_key(rng), seeded_key(rng))
    sk, fk = load_key(keyhex), load_key(fkeyhex)
    genesis = sha3(sk.pub().key_to_bin())
    n = rng.randrange(2, 8)
    parents = parents_for(rng, n, rng.choice(["chain", "chain", "random", "binary"]))
    mix = [rng.choice(["dangling", "forged-sig", "signed-non-token", "foreign", "dangling-child"])
           for _ in range(rng.randrange(0, 3))]
    if ecdsa:       # re-signed twins, each with children of its own
        mix += ["resigned", "resigned-child"] + [rng.choice(["resigned", "resigned-child"]) for _ in range(rng.randrange(0, 3))]
    toks = build_tokens(rng, sk, fk, genesis, parents, mix)
    wire = [i for i, t in enumerate(toks) if wellformed(t)]
    evs = []
    for _ in range(rng.randrange(2, 6)):
        r = rng.random()
        if r < 0.55:      # a disclosure: a root path with its first tokens stripped, a subset, a shuffled dump ...
            how = rng.choice(["path-tail-stripped", "path-tail-stripped", "subset", "all-shuffled", "all-inorder"])
            if how == "path-tail-stripped":
                i = rng.randrange(n)
                path = [i]
                while parents[path[-1]] >= 0:
                    path.append(parents[path[-1]])
                keep = path[:max(1, len(path) - rng.randrange(1, 3))]      # child first, the root end is missing
                idx = keep
            elif how == "subset":
                idx = [i for i in wire if rng.random() < 0.6]
                rng.shuffle(idx)
            else:
                idx = list(wire)
                if how == "all-shuffled":
                    rng.shuffle(idx)
            evs.append(["substantiate", how, idx])
        elif r < 0.75:
            evs.append(["credential", rng.randrange(len(toks))])
        else:
            evs.append(["restart"])
    evs.append(["restart"])
    if rng.random() < 0.6:
        evs.append(["substantiate", "all-inorder", list(wire)])
        evs.append(["restart"])
    return {"persist": True, "key": keyhex, "fkey": fkeyhex, "keytype": "very-low" if ecdsa else "curve25519",
            "cap": 100, "shape": "persist",
            "order": "persist", "size_class": "persist", "parents": parents, "mix": mix, "tokens": toks, "ops": evs}


class PersistRun(Run):
    def twin_rows(self, tree, n, ev) -> bool:
        """an element whose parent is missing because the table (keyed by the pointer pair, not by the signature) kept
        the row of the parent's re-signed twin.  Returns True when such an element was found (and reported)."""
        found = False
        by_hid = {}
        for t in self.toks:
            by_hid.setdefault(tk_hid(t), t)
        for h, el in tree.elements.items():
            ph = el.previous_token_hash
            if ph == self.genesis or ph in tree.elements or ph not in by_hid:
                continue
            p = by_hid[ph]
            pair = (bytes.fromhex(p["prev"]), bytes.fromhex(p["chash"]))
            twins_in = [x for x, e2 in tree.elements.items()
                        if (e2.previous_token_hash, e2.content_hash) == pair and x != ph]
            if not twins_in:
                continue
            found = True
            if self.first_of_pair.get(pair) == ph:
                self.fail("IdentityDatabase.insert_token:stored-row-replaced",
                          f"after event {n} {ev[:2]}: element {id8(h)} dangles: the row of its parent {id8(ph)}, the FIRST "
                          f"token stored for its pointer pair, was replaced by the row of the re-signed twin {id8(twins_in[0])}")
            else:
                self.ctx.count("persist:known:later-twin-row-ignored")
                self.fail("IdentityDatabase.insert_token:twin-row-ignored",
                          f"after event {n} {ev[:2]}: element {id8(h)} dangles after the restart: its parent {id8(ph)} is a "
                          f"re-signed twin of {id8(twins_in[0])} (same pointer pair, other signature); the table is keyed by the "
                          f"pointer pair, so the later twin's row was never stored")
        return found

    def run(self, ops=None):
        self.first_of_pair: dict = {}
        import os
        import tempfile
        from ipv8.attestation.identity.manager import IdentityManager
        from ipv8.attestation.identity.metadata import Metadata
        sc = self.sc
        if self.with_lines:
            self.line(f"key {hx(self.genesis)} {self.siglen}", "ok")
            self.line("pnew default", "ok")
        with tempfile.TemporaryDirectory() as tmp:
            path = os.path.join(tmp, "identity.db")
            manager = IdentityManager(path)
            try:
                for n, ev in enumerate(sc["ops"]):
                    self.cur = (n, ev)
                    kind = ev[0]
                    if kind == "substantiate":
                        _, how, idx = ev
                        data = b"".join(bytes.fromhex(self.toks[i]["prev"]) + bytes.fromhex(self.toks[i]["chash"])
                                        + bytes.fromhex(self.toks[i]["sig"]) for i in idx)
                        for i in idx:
                            self.reg_fields(*(bytes.fromhex(self.toks[i][k]) for k in ("prev", "chash", "sig")))
                            self.offered.append(self.toks[i])
                        self.ctx.count(f"persist:substantiate:{how}")
                        manager.substantiate(self.pub, b"", data, b"", b"")
                        ln = f"psubst {hx(data)}"
                    elif kind == "credential":
                        i = ev[1]
                        tok = self.obj(i, "hash")
                        nm = self.name(i, "hash")
                        self.offered.append(self.toks[i])
                        md = Metadata(self.hid[i], b"{}", self.sk)
                        manager.get_pseudonym(self.pub).add_credential(tok, md)
                        self.ctx.count("persist:credential")
                        ln = f"pcred {nm}"
                    else:
                        tree = manager.get_pseudonym(self.pub).tree
                        if len(tree.unchained):
                            self.ctx.count("persist:waiting-at-restart")
                        fix = self.fixpoint(self.offered)
                        if any(tk_hid(t) not in fix for t in self.offered if t["good"] and wellformed(t)):
                            self.ctx.count("persist:substantiate:dangling-part")
                        manager.database.close()
                        manager = IdentityManager(path)
                        self.ctx.count("persist:restart")
                        self.ctx.count(f"persist:restart:{sc['keytype']}")
                        ln = "prestart"
                    tree = manager.get_pseudonym(self.pub).tree
                    rows = len(manager.database.get_tokens_for(self.pub))
                    self.line(ln, f"{self.state(tree)} D={rows}")
                    for h, el in tree.elements.items():      # which token of a pointer pair entered the tree first
                        self.first_of_pair.setdefault((el.previous_token_hash, el.content_hash), h)
                    if not self.twin_rows(tree, n, ev):
                        self.check_invariants(tree, f"after event {n} {ev[:2]} of a PseudonymManager"
                                              + (" (restarted on its database)" if kind == "restart" else ""))
                    self.tree = tree
            except Exception as e:
                n, ev = self.cur
                self.fail(f"IdentityManager.{ev[0]}:raises", f"event {n} {ev[:2]} raised {type(e).__name__}: {str(e)[:200]}")
                if self.with_lines:
                    self.lines, self.impl = self.lines[:len(self.impl)], self.impl[:len(self.lines)]
            finally:
                try:
                    manager.database.close()
                except Exception:
                    pass


def run_persist(ctx: Ctx, n_scen: int, use_model: bool):
    runs = []
    for k in range(n_scen):
        sc = make_persist_scenario(ctx.rng)
        ctx.count("shape:persist")
        r = PersistRun(ctx, sc, use_model)
        r.run()
        runs.append(r)
        ctx.case(("persist", tuple(sc["parents"]), tuple(sc["mix"]), tuple(str(e[:2]) for e in sc["ops"])), True)
        if k < 1:
            ctx.sample({"persist": True, "parents": sc["parents"], "mix": sc["mix"], "events": sc["ops"]})
    if use_model:
        feed_model(ctx, runs)


def run_own(ctx: Ctx, n_scen: int, use_model: bool):
    """the owner's side: add / add_by_hash, then the public serialisation is reloaded by a reader"""
    runs = []
    for _ in range(n_scen):
        sc = make_own_scenario(ctx.rng)
        ctx.count("shape:own")
        ctx.count(f"key:{sc['keytype']}")
        r = Run(ctx, sc, use_model)
        r.run()
        runs.append(r)
        ctx.case(("own", tuple(sc["parents"]), sc["keytype"], len(sc["ops"])), True)
    if use_model:
        feed_model(ctx, runs)



# ------------------------------------------------------------------------------------------------------------
# several trees of different keys in one process; the SAME Token objects travel between them
# ------------------------------------------------------------------------------------------------------------
def make_multi_scenario(rng) -> dict:
    """views of 2-3 keys; every key has its own forest; foreign tokens (signed by key j, hung into tree i), children
    of foreign tokens, forged tokens; every token is offered to its signer's view and to other views in a random
    interleaving, and (by default) it is one and the same Token object every time"""
    if rng.random() < 0.9:
        keytype, keys = "curve25519", [seeded_key(rng) for _ in range(rng.choice([2, 2, 3]))]
    else:
        keytype, keys = "very-low", list(VERY_LOW_KEYS)
    sks = [load_key(k) for k in keys]
    gen = [sha3(sk.pub().key_to_bin()) for sk in sks]
    nk = len(keys)
    toks, real_of = [], {k: [] for k in range(nk)}
    for k in range(nk):
        n = rng.randrange(1, 6)
        pv = parents_for(rng, n, rng.choice(["chain", "star", "random", "random"]))
        base = len(toks)
        for i, p in enumerate(pv):
            prev = gen[k] if p < 0 else tk_hid(toks[base + p])
            t = mk_token(sks[k], prev, b"k%d-%d-%d" % (k, i, rng.randrange(1 << 30)))
            t["signer"] = k
            real_of[k].append(len(toks))
            toks.append(t)
    for _ in range(rng.randrange(1, 6)):
        kind = rng.choice(["foreign", "foreign", "foreign", "foreign-child", "forged-sig"])
        j = rng.randrange(nk)
        i = rng.choice([x for x in range(nk) if x != j])
        if kind == "foreign":       # signed by j, claims a place in i's tree
            prev = gen[i] if rng.random() < 0.5 else tk_hid(toks[rng.choice(real_of[i])])
            t = mk_token(sks[j], prev, b"foreign%d" % rng.randrange(1 << 30), label="foreign")
            t["signer"] = j
        elif kind == "foreign-child":   # signed by i, behind a foreign token (or, if none yet, behind i's own token)
            fr = [x for x in toks if x["label"] == "foreign"]
            par = rng.choice(fr) if fr else toks[rng.choice(real_of[i])]
            t = mk_token(sks[i], tk_hid(par), b"fchild%d" % rng.randrange(1 << 30),
                         label="foreign-child" if fr else "real")
            t["signer"] = i
        else:
            b = toks[rng.choice(real_of[j])]
            t = dict(b, sig=flip(bytes.fromhex(b["sig"]), rng).hex(), label="forged-sig", signer=None)
        toks.append(t)
    offers = []
    for ti, t in enumerate(toks):
        for v in range(nk):
            pr = 0.9 if t["signer"] == v else (0.85 if t["label"] in ("foreign", "foreign-child") else 0.4)
            if rng.random() < pr:
                offers.append(["offer", v, ti])
        if rng.random() < 0.15:
            offers.append(["offer", rng.randrange(nk), ti])
    rng.shuffle(offers)
    if rng.random() < 0.4:      # the signer's view sees every token first
        offers.sort(key=lambda o: 0 if toks[o[2]]["signer"] == o[1] else 1)
    ops = []
    for o in offers:
        ops.append(o)
        r = rng.random()
        if r < 0.1:
            ops.append(["touch", rng.randrange(nk), rng.randrange(len(toks))])
        elif r < 0.2:
            ops.append([rng.choice(["verify", "path"]), rng.randrange(nk), rng.randrange(len(toks)),
                        rng.choice([1000, 1000, 1, 2, 5])])
    for v in range(nk):
        for _ in range(rng.randrange(1, 4)):
            ops.append([rng.choice(["verify", "path"]), v, rng.randrange(len(toks)), 1000])
        ops.append(["reload", v])
    cap = 100 if rng.random() < 0.85 else rng.choice([1, 2, 3])
    return {"multi": True, "keys": keys, "keytype": keytype, "cap": cap, "tokens": toks, "ops": ops,
            "open_with_secret": [rng.random() < 0.4 for _ in keys],
            "objects": "shared" if rng.random() < 0.8 else "fresh", "shape": "multi", "order": "interleaved",
            "size_class": "multi", "parents": [], "mix": sorted({t["label"] for t in toks if t["label"] != "real"})}


class MultiRun:
    def __init__(self, ctx: Ctx, sc: dict, with_lines: bool):
        from ipv8.attestation.tokentree.tree import TokenTree
        from ipv8.keyvault.crypto import ECCrypto
        self.ctx, self.sc, self.with_lines = ctx, sc, with_lines
        self.TokenTree = TokenTree
        self.crypto = ECCrypto()
        self.sks = [load_key(k) for k in sc["keys"]]
        self.pubs = [sk.pub() for sk in self.sks]
        self.keybin = [p.key_to_bin() for p in self.pubs]
        self.gen = [sha3(b) for b in self.keybin]
        self.siglen = self.pubs[0].get_signature_length()
        self.chunk = 64 + self.siglen
        self.toks = sc["tokens"]
        self.hid = [tk_hid(t) for t in self.toks]
        self.lines, self.impl = [], []
        self.objs: dict = {}
        self.reg: set = set()
        self.offered = [[] for _ in self.sks]
        self.failed = False

    canon_ser = Run.canon_ser

    def line(self, ln, reply):
        if self.with_lines:
            self.lines.append(ln)
            self.impl.append(reply)

    def once(self, key, ln):
        if self.with_lines and key not in self.reg:
            self.reg.add(key)
            self.line(ln, "ok")

    def fields(self, i):
        t = self.toks[i]
        return tuple(bytes.fromhex(t[k]) for k in ("prev", "chash", "sig"))

    def reg_chunk(self, v, prev, chash, sig):
        self.once(("h", prev + chash + sig), f"h {hx(prev + chash + sig)} {hx(sha3(prev + chash + sig))}")
        if self.with_lines and ("vk", v, prev + chash, sig) not in self.reg:
            try:
                ok = self.crypto.is_valid_signature(self.pubs[v], prev + chash, sig)
            except Exception:
                ok = False
            self.once(("vk", v, prev + chash, sig), f"vk {hx(self.keybin[v])} {hx(prev + chash)} {hx(sig)} {1 if ok else 0}")

    def name(self, v, i):
        prev, chash, sig = self.fields(i)
        self.once(("tok", i), f"tok t{i} {hx(prev)} {hx(chash)} {hx(sig)} none")
        self.reg_chunk(v, prev, chash, sig)
        return f"t{i}"

    def obj(self, i):
        """the Token object of descriptor i: one per scenario when objects are shared"""
        from ipv8.attestation.tokentree.token import Token
        if self.sc["objects"] == "shared" and i in self.objs:
            return self.objs[i]
        prev, chash, sig = self.fields(i)
        signer = self.toks[i]["signer"]
        o = Token.unserialize(prev + chash + sig, self.pubs[signer if signer is not None else 0])
        self.objs[i] = o
        return o

    def good(self, v, t) -> bool:
        return t["good"] and t["signer"] == v

    def state(self, tree):
        els = sorted(f"{id8(k)}:{'none' if x.content is None else hx(x.content)}" for k, x in tree.elements.items())
        unc = [id8(sha3(u.previous_token_hash + u.content_hash + u.signature)) for u in tree.unchained]
        return "E=" + ",".join(els) + " U=" + ",".join(unc)

    def fail(self, sig, what):
        self.failed = True
        self.ctx.oracle_fail(sig, what, {"scenario": self.sc})

    def fixpoint(self, v):
        good = {tk_hid(t): bytes.fromhex(t["prev"]) for t in self.offered[v] if self.good(v, t)}
        inside, changed = set(), True
        while changed:
            changed = False
            for h, prev in good.items():
                if h not in inside and (prev == self.gen[v] or prev in inside):
                    inside.add(h)
                    changed = True
        return inside

    def label_of(self, v, h):
        for t in self.toks:
            if tk_hid(t) == h:
                return f"{t['label']} token signed by key {t['signer']}"
        return "unknown token"

    def check_view(self, v, tree, where):
        fix = self.fixpoint(v)
        keys = set(tree.elements)
        for k, x in tree.elements.items():
            if sha3(x.previous_token_hash + x.content_hash + x.signature) != k:
                return self.fail("TokenTree.elements:key-mismatch", f"{where}: element stored under a wrong hash")
            if k not in fix:
                return self.fail("TokenTree.gather_token:foreign-token-accepted",
                                 f"{where}: the tree of key {v} contains {id8(k)}, a {self.label_of(v, k)}, which is not "
                                 f"signed by key {v} / not connected to its genesis through such tokens")
            if x.previous_token_hash != self.gen[v] and x.previous_token_hash not in keys:
                return self.fail("TokenTree.gather_token:dangling-token-accepted", f"{where}: element {id8(k)} dangles")
        if len(tree.unchained) > self.sc["cap"]:
            self.fail("TokenTree.gather_token:waiting-area-unbounded", f"{where}: {len(tree.unchained)} waiting")

    def check_complete(self, v, tree, where):
        waiting = {tk_hid(t) for t in self.offered[v] if self.good(v, t) and bytes.fromhex(t["prev"]) != self.gen[v]}
        if len(waiting) > self.sc["cap"]:
            return
        fix = self.fixpoint(v)
        if set(tree.elements) != fix:
            return self.fail("TokenTree.gather_token:incomplete",
                             f"{where}: the tree of key {v} has {len(tree.elements)} elements, the offered tokens signed by "
                             f"it and connected to its genesis are {len(fix)}")
        rest = {tk_hid(t) for t in self.offered[v] if self.good(v, t)} - fix
        unc = {sha3(u.previous_token_hash + u.content_hash + u.signature) for u in tree.unchained}
        if unc != rest:
            self.fail("TokenTree.unchained:wrong-waiting-set", f"{where}: view {v} waits for {len(unc)} tokens, expected {len(rest)}")

    def expected_path(self, v, tree, i, maxdepth):
        t = self.toks[i]
        if not self.good(v, t) or maxdepth <= 0:
            return None
        path, prev, steps = [self.hid[i]], bytes.fromhex(t["prev"]), 0
        while True:
            if prev == self.gen[v]:
                return path
            if prev not in tree.elements:
                return None
            steps += 1
            if steps >= maxdepth:
                return None
            path.append(prev)
            prev = tree.elements[prev].previous_token_hash

    def new_tree(self, v):
        holder = bool(self.sc.get("open_with_secret", [False] * len(self.sks))[v])
        tree = self.TokenTree(public_key=self.sks[v] if holder else self.pubs[v])
        self.ctx.count("multi:view-opened-with:%s" % ("secret holder" if holder else "bare public key"))
        if tree.genesis_hash != self.gen[v]:
            self.fail("TokenTree.__init__:wrong-genesis",
                      f"the view of key {v} opened with public_key=<key object{' holding the secret' if holder else ''}> has "
                      f"genesis {id8(tree.genesis_hash)}, the hash of the public key is {id8(self.gen[v])}")
        if self.sc["cap"] != SPEC_CAP:
            tree.unchained_max_size = self.sc["cap"]
        return tree

    def run(self):
        sc = self.sc
        nk = len(self.sks)
        trees = [self.new_tree(v) for v in range(nk)]
        self.trees = trees
        if self.with_lines:
            self.line(f"key {hx(self.gen[0])} {self.siglen}", "ok")
            for v in range(nk):
                self.once(("h", self.keybin[v]), f"h {hx(self.keybin[v])} {hx(self.gen[v])}")
                holder = bool(sc.get("open_with_secret", [False] * nk)[v])
                self.line(f"viewobj v{v} {hx(self.keybin[v])} {hx(self.sks[v].key_to_bin()) if holder else 'none'} "
                          f"{capw(sc['cap'])}", f"ok {hx(trees[v].genesis_hash)}")
        try:
            for n, op in enumerate(sc["ops"]):
                self.cur = (n, op)
                kind = op[0]
                self.ctx.count(f"multi:{kind}")
                if kind == "offer":
                    _, v, i = op
                    tok, nm = self.obj(i), self.name(v, i)
                    seen_elsewhere = any(self.toks[i] in self.offered[w] for w in range(nk) if w != v)
                    self.offered[v].append(self.toks[i])
                    res = trees[v].gather_token(tok)
                    self.ctx.count("multi:offer:%s:%s%s" % ("own-key" if self.toks[i]["signer"] == v else "other-key",
                                                             "accepted" if res is not None else "none",
                                                             ":seen-by-another-tree-before" if seen_elsewhere else ""))
                    self.line(f"offer v{v} {nm}", f"{'none' if res is None else 'some'} {self.state(trees[v])}")
                    if res is not None and not self.good(v, self.toks[i]):
                        self.fail("TokenTree.gather_token:foreign-token-accepted",
                                  f"op {n}: gather_token of the tree of key {v} returned a token for a "
                                  f"{self.toks[i]['label']} token signed by key {self.toks[i]['signer']}"
                                  f"{' (the object had been offered to another tree before)' if seen_elsewhere else ''}")
                    self.check_view(v, trees[v], f"after op {n} offer(view {v}, token {i})")
                elif kind == "touch":     # AbstractSignedObject.verify directly, against an arbitrary key
                    _, v, i = op
                    r = self.obj(i).verify(self.pubs[v])
                    self.ctx.count(f"multi:touch:{r}")
                    if r != self.good(v, self.toks[i]):
                        self.fail("AbstractSignedObject.verify:wrong-key-answer",
                                  f"op {n}: verify(key {v}) of a {self.toks[i]['label']} token signed by key "
                                  f"{self.toks[i]['signer']} is {r}")
                elif kind in ("verify", "path"):
                    _, v, i, depth = op
                    tok, nm = self.obj(i), self.name(v, i)
                    exp = self.expected_path(v, trees[v], i, depth)
                    if kind == "verify":
                        r = trees[v].verify(tok) if depth == SPEC_DEPTH else trees[v].verify(tok, maxdepth=depth)
                        self.line(f"vverify v{v} {nm} {depthw(depth)}", "true" if r else "false")
                        self.ctx.count(f"multi:verify:{r}:{'own-key' if self.toks[i]['signer'] == v else 'other-key'}")
                        if bool(r) != (exp is not None):
                            self.fail("TokenTree.verify:false-positive" if r else "TokenTree.verify:false-negative",
                                      f"op {n}: verify by the tree of key {v} of a {self.toks[i]['label']} token signed by key "
                                      f"{self.toks[i]['signer']} (depth {depth}) is {r}")
                    else:
                        r = trees[v].get_root_path(tok) if depth == SPEC_DEPTH else trees[v].get_root_path(tok, maxdepth=depth)
                        got = [sha3(x.previous_token_hash + x.content_hash + x.signature) for x in r]
                        self.line(f"vpath v{v} {nm} {depthw(depth)}", ",".join(id8(h) for h in got))
                        if got != (exp or []):
                            self.fail("TokenTree.get_root_path:wrong-path",
                                      f"op {n}: get_root_path by the tree of key {v} of a {self.toks[i]['label']} token signed "
                                      f"by key {self.toks[i]['signer']} has {len(got)} tokens, expected {len(exp or [])}")
                elif kind == "reload":
                    _, v = op
                    self.check_complete(v, trees[v], f"before reload of view {v}")
                    sbytes = trees[v].serialize_public()
                    self.line(f"vser v{v}", self.canon_ser(hx(sbytes)))
                    for j in range(0, len(sbytes) - self.chunk + 1, self.chunk):
                        self.reg_chunk(v, sbytes[j:j + 32], sbytes[j + 32:j + 64], sbytes[j + 64:j + self.chunk])
                    t2 = self.new_tree(v)
                    ok = t2.unserialize_public(sbytes)
                    self.line(f"view r{v} {hx(self.keybin[v])} {capw(sc['cap'])}", "ok")
                    self.line(f"vunser r{v} {hx(sbytes)}", f"{'true' if ok else 'false'} {self.state(t2)}")
                    fix = self.fixpoint(v)
                    if set(t2.elements) - fix:
                        self.fail("TokenTree.unserialize_public:roundtrip",
                                  f"the public dump of the tree of key {v} reloads to {len(t2.elements)} elements of which "
                                  f"{len(set(t2.elements) - fix)} are not signed by that key / connected to its genesis")
                    elif set(t2.elements) != set(trees[v].elements) or not ok:
                        self.fail("TokenTree.unserialize_public:roundtrip",
                                  f"reload of view {v}: {len(t2.elements)} elements (flag {ok}), the tree had {len(trees[v].elements)}")
                else:
                    raise ValueError(kind)
        except Exception as e:
            n, op = self.cur
            self.fail(f"TokenTree.{op[0]}:raises", f"op {n} {op[:3]} raised {type(e).__name__}: {str(e)[:200]}")
            if self.with_lines:
                self.lines, self.impl = self.lines[:len(self.impl)], self.impl[:len(self.lines)]


def run_multi(ctx: Ctx, n_scen: int, use_model: bool):
    runs = []
    for k in range(n_scen):
        sc = make_multi_scenario(ctx.rng)
        ctx.count("shape:multi")
        ctx.count(f"multi:objects:{sc['objects']}")
        ctx.count(f"multi:keys:{len(sc['keys'])}:{sc['keytype']}")
        for m in sc["mix"]:
            ctx.count(f"multi:mix:{m}")
        r = MultiRun(ctx, sc, use_model)
        r.run()
        runs.append(r)
        ctx.case(("multi", len(sc["tokens"]), tuple(tuple(o[:3]) for o in sc["ops"] if o[0] == "offer")[:24],
                  sc["objects"]), True)
        if k < 1:
            ctx.sample({"multi": True, "keys": len(sc["keys"]), "objects": sc["objects"],
                        "tokens": [(t["label"], t["signer"]) for t in sc["tokens"]], "ops": sc["ops"][:14]})
        if len(runs) >= 50:
            feed_model(ctx, runs) if use_model else None
            runs = []
    if use_model:
        feed_model(ctx, runs)


# ------------------------------------------------------------------------------------------------------------
# exhaustive small scope: every forest shape with up to N tokens, every arrival permutation
# ------------------------------------------------------------------------------------------------------------
def forest_shapes(n: int):
    """parent vectors (parent < child, -1 = genesis) of all forests on n nodes, one per isomorphism class"""
    seen = set()
    out = []
    for pv in itertools.product(*[range(-1, i) for i in range(n)]):
        kids: dict[int, list[int]] = {}
        for i, p in enumerate(pv):
            kids.setdefault(p, []).append(i)

        def canon(i):
            return "(" + "".join(sorted(canon(k) for k in kids.get(i, []))) + ")"
        c = canon(-1)
        if c not in seen:
            seen.add(c)
            out.append(list(pv))
    return out


EXTRA_KINDS = ["forged-sig", "foreign", "dangling", "duplicate", "duplicate-foreign-content", "wrong-content",
               "resplit", "signed-non-token"]
_BUILD_KIND = {"forged-sig": "forged-sig", "foreign": "foreign", "dangling": "dangling", "wrong-content": "forged-chash",
               "resplit": "resplit", "signed-non-token": "signed-non-token"}


def run_exhaustive(ctx: Ctx, sizes, use_model: bool, extra_kinds=None, tag="plain", one_kind_per_shape=False):
    """every forest shape with n in `sizes` really signed tokens, every arrival permutation; with `extra_kinds`, one
    more item is mixed in (a forged signature, a token of another key, a dangling token, a second arrival of one of
    the tokens - with content -, a token pointing to other content under the old signature) and all permutations of
    the n + 1 items are run for every kind (or, one_kind_per_shape, for one kind per shape in rotation)"""
    rng = ctx.rng
    keyhex, fkeyhex = seeded_key(rng), seeded_key(rng)
    sk, fk = load_key(keyhex), load_key(fkeyhex)
    genesis = sha3(sk.pub().key_to_bin())
    total, rot = 0, 0
    for n in sizes:
        shapes = forest_shapes(n)
        ctx.count(f"exhaustive:{tag}:shapes-n{n}", len(shapes))
        for pv in shapes:
            if extra_kinds is None:
                kinds = [None]
            elif one_kind_per_shape:
                kinds = [extra_kinds[rot % len(extra_kinds)]]
                rot += 1
            else:
                kinds = list(extra_kinds)
            for kind in kinds:
                mix = [_BUILD_KIND[kind]] if kind in _BUILD_KIND else []
                toks = build_tokens(rng, sk, fk, genesis, pv, mix)
                if kind is None:
                    items = [(i, "pub") for i in range(n)]
                else:
                    items = [(i, rng.choice(["pub", "full", "hash"])) for i in range(n)]
                    if kind == "duplicate":
                        items.append((rng.randrange(n), "full"))
                    elif kind == "duplicate-foreign-content":
                        j = rng.randrange(n)
                        items[j] = (j, "pub")
                        items.append((j, "fullbad"))
                    else:
                        items.append((n, "hash" if toks[n]["content"] is None else rng.choice(["pub", "full"])))
                    ctx.count(f"exhaustive:{tag}:extra:{kind}")
                base = {"open_with_secret": total % 3 == 0,
                        "key": keyhex, "fkey": fkeyhex, "keytype": "curve25519", "cap": 100, "shape": "exhaustive",
                        "order": "all", "size_class": f"n{n}", "parents": pv, "mix": [kind] if kind else [],
                        "tokens": toks, "ops": []}
                ref = None
                runs = []
                for perm in itertools.permutations(range(len(items))):
                    sc = dict(base, ops=[["gather", items[k][0], items[k][1]] for k in perm])
                    r = Run(ctx, sc, use_model, share=runs[0] if runs else None)
                    r.run()
                    r.check_complete(r.tree, "exhaustive order")
                    keys = frozenset(r.tree.elements.keys())
                    if ref is None:
                        ref = (keys, sc["ops"])
                    elif keys != ref[0]:
                        r.fail("TokenTree.gather_token:order-dependent",
                               f"parents {pv} (+{kind}): arrival order {[o[1] for o in ref[1]]} gives {len(ref[0])} "
                               f"elements, order {[o[1] for o in sc['ops']]} gives {len(keys)}",
                               {"order_a": [o[1] for o in ref[1]], "order_b": [o[1] for o in sc["ops"]]})
                    runs.append(r)
                    total += 1
                    order = [items[k][0] for k in perm]
                    early = any(pv[i] >= 0 and order.index(pv[i]) > order.index(i) for i in range(n))
                    ctx.case(("ex", tuple(pv), perm, kind), early or kind is not None)
                    if len(ctx.failures) > 20:
                        return
                if use_model:
                    feed_model(ctx, runs)
    ctx.extra.setdefault("small_scope_enumeration", {})[tag] = {
        "real_tokens": list(sizes), "extra_item_kinds": (extra_kinds or []),
        "every_kind_for_every_shape": bool(extra_kinds) and not one_kind_per_shape, "orders_run": total}


# branch classes of the modelled code that every green run has to reach (design.d/C16.md section 10).  A class that
# stays at zero although nothing failed is a silent loss of coverage: the run ends with exit 2, not with a pass.
REQUIRED = [
    "branch:gather:unsized", "branch:gather:bad-signature", "branch:gather:park-new",
    "branch:gather:park-duplicate-of-waiting", "branch:gather:park-evicts-oldest",
    "branch:gather:shadow-no-content-offered", "branch:gather:shadow-content-already-there",
    "branch:gather:shadow-receive-bound", "branch:gather:shadow-refuse-foreign",
    "branch:gather:chain-no-wakeup", "branch:gather:chain-wakes-1", "branch:gather:chain-wakes-siblings",
    "branch:gather:chain-wakes-nested",
    "branch:walk:token-not-signed-or-unsized", "branch:walk:zero-depth", "branch:walk:parent-missing",
    "branch:walk:ancestor-not-signed", "branch:walk:depth-exhausted", "branch:walk:success-len1",
    "branch:walk:success-len2+",
    "branch:append:new-key", "branch:append:overwrite",
    "recv:bound", "recv:unbound", "fromdb:bound", "fromdb:unbound",
    "unser_mut:*:error", "unser_mut:*:true", "unser_mut:*:false", "reload:True", "reload_upto:*",
    "tree-opened-with:private_key", "tree-opened-with:public_key=<secret holder>",
    "tree-opened-with:public_key=<bare public key>", "multi:view-opened-with:secret holder",
    "multi:view-opened-with:bare public key", "loaded:trees-with-invalid-elements",
    "offer-carries:foreign-content:already-stored", "offer-carries:bound:already-stored",
    "multi:offer:other-key:none:seen-by-another-tree-before", "offered:resplit", "op:create", "op:todb",
    "offered:signed-non-token", "init:both:refused", "init:neither:refused", "init:bothgood:refused",
    "persist:restart", "persist:substantiate:dangling-part", "persist:credential", "persist:waiting-at-restart",
    "persist:restart:very-low", "persist:restart:curve25519",
    "offered:sig-extended", "offered:sig-zero-padded", "offered:sig-truncated",
]


def check_required(ctx: Ctx):
    import fnmatch
    from vlib import InfraError
    missing = [pat for pat in REQUIRED if not any(v > 0 and fnmatch.fnmatchcase(k, pat) for k, v in ctx.counts.items())]
    ctx.extra["required_branch_classes"] = {"listed": len(REQUIRED), "reached": len(REQUIRED) - len(missing),
                                            "missing": missing}
    real_failures = [f for f in ctx.failures if f["signature"] != "IdentityDatabase.insert_token:twin-row-ignored"]
    if missing and not real_failures and not ctx.disagreements and not ctx.broken:
        raise InfraError("coverage lost: branch classes never reached in this run: " + ", ".join(missing))


def run_tour(ctx: Ctx, use_model: bool):
    """deterministic histories that walk through every branch class of REQUIRED that a random scenario could miss"""
    rng = ctx.rng
    keyhex, fkeyhex = seeded_key(rng), seeded_key(rng)
    sk, fk = load_key(keyhex), load_key(fkeyhex)
    g = sha3(sk.pub().key_to_bin())

    def scen(toks, ops, cap=100, **kw):
        return dict({"key": keyhex, "fkey": fkeyhex, "keytype": "curve25519", "cap": cap, "shape": "tour",
                     "order": "tour", "size_class": "tour", "parents": [], "mix": [], "tokens": toks, "ops": ops}, **kw)
    a = mk_token(sk, g, b"tour-a")
    b = mk_token(sk, tk_hid(a), b"tour-b")
    c = mk_token(sk, tk_hid(a), b"tour-c")
    d = mk_token(sk, tk_hid(b), b"tour-d")
    e = mk_token(sk, tk_hid(d), b"tour-e")
    f = dict(b, sig=flip(bytes.fromhex(b["sig"]), rng).hex(), good=False, label="forged-sig")
    both = bytes.fromhex(b["prev"]) + bytes.fromhex(b["chash"])
    x = dict(b, prev=both[:31].hex(), chash=both[31:].hex(), content=None, label="resplit")
    dg = mk_token(sk, sha3(b"tour-nowhere"), b"tour-dangling", label="dangling")
    body = b'{"name": "tour"}'
    nt = {"prev": tk_hid(a).hex(), "chash": body.hex(), "sig": sk.signature(tk_hid(a) + body).hex(), "content": None,
          "good": True, "label": "signed-non-token"}
    G = "gather"
    s1 = scen([a, b, c, d, e, f, x, dg],
              [[G, 6, "hash"], [G, 5, "pub"], [G, 3, "pub"], [G, 3, "hash"], [G, 4, "pub"], [G, 1, "pub"], [G, 2, "pub"],
               [G, 0, "pub"], [G, 0, "pub"], [G, 0, "full"], [G, 0, "fullbad"], [G, 2, "fullbad"], [G, 7, "pub"],
               ["verify", 5, 1000], ["verify", 4, 1], ["verify", 7, 1000], ["verify", 0, 1000], ["verify", 4, 1000],
               ["verify", 0, 0], ["path", 5, 1000], ["path", 4, 2], ["path", 7, 1000], ["path", 0, 1000],
               ["path", 4, 1000], ["path", 4, 0]])
    s2 = scen([a, b, d], [[G, 2, "pub"], [G, 1, "pub"], [G, 0, "pub"]], cap=1)
    s3 = scen([a, b, c, nt], [[G, 3, "hash"], [G, 1, "both"], [G, 1, "neither"], [G, 1, "pub"], [G, 2, "hash"],
                              [G, 0, "pub"], [G, 0, "hash"], [G, 3, "hash"], [G, 2, "bothgood"], ["ser"], ["reload"]])
    s4 = scen([a, b], [[G, 0, "pub"], [G, 1, "pub"]], open_with_secret=True)
    fr = mk_token(fk, g, b"tour-foreign", label="foreign", good=False)
    ch = mk_token(sk, tk_hid(fr), b"tour-child", label="dangling-child")
    s5 = scen([fr, ch], [["load", 0, "hash"], ["load", 1, "hash"], ["verify", 1, 1000], ["path", 1, 1000],
                         ["verify", 0, 1000]], loaded=True)
    s6 = scen([], [["add", -1, b"tour-own".hex(), False], ["add", -1, b"tour-own".hex(), False],
                   ["add", 0, b"tour-own2".hex(), True], ["reload"]], own=True)
    vsk = load_key(VERY_LOW_KEYS[0])
    vg = sha3(vsk.pub().key_to_bin())
    va = mk_token(vsk, vg, b"tour-va")
    vb = mk_token(vsk, tk_hid(va), b"tour-vb")
    vsig = bytes.fromhex(vb["sig"])
    vpad = dict(vb, sig=(b"\x00" + vsig[:len(vsig) // 2] + b"\x00" + vsig[len(vsig) // 2:]).hex(), good=False,
                label="sig-zero-padded")
    vext = dict(va, sig=(bytes.fromhex(va["sig"]) + b"\x01").hex(), good=False, label="sig-extended")
    vtr = dict(va, sig=va["sig"][:-2], good=False, label="sig-truncated")
    s7 = dict(scen([va, vb, vpad, vext, vtr],
                   [[G, 0, "pub"], [G, 2, "hash"], [G, 1, "pub"], [G, 3, "hash"], [G, 4, "hash"], [G, 2, "hash"],
                    ["verify", 2, 1000], ["path", 2, 1000], ["verify", 3, 1000], ["ser"], ["reload"]]),
              key=VERY_LOW_KEYS[0], fkey=VERY_LOW_KEYS[1], keytype="very-low")
    runs = []
    for sc in (s1, s2, s3, s4, s5, s6, s7):
        r = Run(ctx, sc, use_model)
        r.run()
        if not sc.get("loaded") and not sc.get("own"):
            r.check_complete(r.tree, "tour")
        runs.append(r)
        ctx.count("special:tour")
        ctx.case(("tour", len(sc["tokens"]), len(sc["ops"]), sc["cap"]), True)
    if use_model:
        feed_model(ctx, runs)


def run_special(ctx: Ctx, use_model: bool):
    """hand-picked histories: the fork woken from the waiting area, deep chains in reverse, the cap boundary"""
    rng = ctx.rng
    keyhex, fkeyhex = seeded_key(rng), seeded_key(rng)
    sk, fk = load_key(keyhex), load_key(fkeyhex)
    genesis = sha3(sk.pub().key_to_bin())
    runs = []

    def scen(pv, order, cap=100, extra_ops=()):
        toks = build_tokens(rng, sk, fk, genesis, pv, [])
        return {"key": keyhex, "fkey": fkeyhex, "keytype": "curve25519", "cap": cap, "shape": "special",
                "order": "special", "size_class": "special", "parents": pv, "mix": [], "tokens": toks,
                "ops": [["gather", i, "pub"] for i in order] + [list(o) for o in extra_ops]}
    cases = [
        scen([-1, 0, 0], [1, 2, 0]), scen([-1, 0, 0], [2, 1, 0]), scen([-1, 0, 0, 0, 1, 1, 2], [6, 5, 4, 3, 2, 1, 0]),
        scen([-1, 0, 0, 1, 1], [3, 4, 1, 2, 0], extra_ops=[("reload",)]),
        scen(list(range(-1, 99)), list(range(99, -1, -1)), extra_ops=[("verify", 99, 1000), ("verify", 99, 100),
                                                                       ("verify", 99, 99), ("path", 99, 1000),
                                                                       ("reload_upto", 99), ("reload",)]),
        scen(list(range(-1, 100)), list(range(100, -1, -1))),           # exactly 100 waiting: fits
        scen(list(range(-1, 101)), list(range(101, -1, -1))),           # 101 waiting: the oldest is dropped
        scen([-1] + [0] * 100, list(range(100, -1, -1))),               # star with 100 waiting children
        scen([-1] + [0] * 101, list(range(101, -1, -1))),
        scen([-1, 0, 1, 2], [3, 2, 1, 0], cap=3), scen([-1, 0, 1, 2], [3, 2, 1, 0], cap=2),
        scen([-1, 0, 1, 2], [3, 2, 1, 0], cap=0),
        scen(list(range(-1, 119)), list(range(120)), extra_ops=[("verify", 119, 1000), ("path", 119, 1000),
                                                                ("verify", 119, 119), ("reload_upto", 119), ("reload",)]),
    ]
    for sc in cases:
        r = Run(ctx, sc, use_model)
        r.run()
        r.check_complete(r.tree, "special")
        ctx.case(sig_of(sc), True)
        ctx.count("special")
        runs.append(r)
    if use_model:
        feed_model(ctx, runs)


def run(ctx: Ctx):
    if ctx.replay_input is not None:
        return replay(ctx, ctx.replay_input)
    run_tour(ctx, ctx.model_ok)
    run_special(ctx, ctx.model_ok)
    run_deep(ctx)
    # exhaustive small scope.  The property asks for "every tree shape with up to 6 tokens and every permutation of
    # their arrival, mixed with forged signatures, tokens of other keys, duplicates and wrong content":
    #   quick    : plain <= 4 tokens; <= 3 tokens + one extra item of each kind (<= 4 items)
    #   thorough : plain <= 6 tokens; <= 5 tokens + one extra item of each kind (<= 6 items)
    # More than one extra item per history is covered by the random scenarios only; evidence key
    # coverage.small_scope_enumeration (coverage.exhaustive stays false).
    run_exhaustive(ctx, range(1, ctx.scale(4, 6) + 1), ctx.model_ok)
    run_exhaustive(ctx, range(1, ctx.scale(3, 5) + 1), ctx.model_ok, EXTRA_KINDS, tag="one-extra-item")
    ctx.extra.setdefault("small_scope_enumeration", {})["property_scope"] = (
        "asked: <= 6 tokens mixed with forged/foreign/duplicate/wrong-content items, all permutations; run here: see the "
        "two entries (real_tokens + at most ONE extra item); several extra items at once are sampled, not enumerated")
    ctx.extra["exhaustive"] = False     # the property's quantifier is not exhausted by any tier (see the key above)
    run_loaded(ctx, ctx.scale(150, 1200), ctx.model_ok)
    run_persist(ctx, ctx.scale(60, 400), ctx.model_ok)
    run_own(ctx, ctx.scale(150, 1000), ctx.model_ok)
    run_multi(ctx, ctx.scale(250, 2000), ctx.model_ok)
    run_random(ctx, ctx.scale(400, 3000), ctx.scale(3, 5), ctx.model_ok)
    check_required(ctx)


def search(ctx: Ctx, reason: str):
    # When only the TRANSLATOR gave up (a shape of the source it does not know) the main run has already compared the
    # whole behaviour with the model and evaluated the oracle on it without finding anything: a second, fresh sample
    # of the same size adds little, so the search is kept short (the verdict is `no-failing-input-found` either way).
    parts = [x.strip() for x in reason.split(";") if x.strip()]
    light = bool(parts) and all(x.startswith("translator") for x in parts) and ctx.tier == "quick"
    ctx.extra["search_mode"] = "light (translator-only)" if light else "full"
    run_tour(ctx, False)
    run_special(ctx, False)
    run_exhaustive(ctx, range(1, 5 if ctx.tier == "quick" else 6), False, tag="search-plain")
    run_exhaustive(ctx, range(1, 4 if ctx.tier == "quick" else 5), False, EXTRA_KINDS, tag="search-one-extra-item")
    run_loaded(ctx, 60 if light else ctx.scale(150, 600), False)
    run_persist(ctx, 20 if light else 60, False)
    run_own(ctx, 50 if light else ctx.scale(150, 300), False)
    run_multi(ctx, 80 if light else ctx.scale(250, 600), False)
    run_random(ctx, 120 if light else ctx.scale(500, 4000), 3 if light else 4, False)


def replay(ctx: Ctx, rec: dict):
    r = rec.get("replay", rec)
    sc = r["scenario"]
    if sc.get("persist"):
        pr = PersistRun(ctx, sc, False)
        pr.run()
        print("replay: property " + ("FAILS" if ctx.failures else "holds") + " on the replayed manager history")
        ctx.case(("replay",), True)
        return
    if sc.get("multi"):
        m = MultiRun(ctx, sc, False)
        m.run()
        print("replay: property " + ("FAILS" if ctx.failures else "holds") + " on the replayed multi-tree scenario")
        ctx.case(("replay",), True)
        return
    run1 = Run(ctx, sc, False)
    run1.run()
    run1.check_complete(run1.tree, "replay") if not any(op[0] in ("reload", "reload_upto", "unser_mut") for op in sc["ops"]) else None
    if "order_b" in r:
        forms = {}
        for op in gather_ops(sc):
            forms.setdefault(op[1], op[2])
        a = Run(ctx, sc, False)
        a.run([["gather", i, forms.get(i, "pub")] for i in r["order_a"]])
        b = Run(ctx, sc, False)
        b.run([["gather", i, forms.get(i, "pub")] for i in r["order_b"]])
        ka, kb = set(a.tree.elements.keys()), set(b.tree.elements.keys())
        print(f"replay: order {r['order_a']} -> {len(ka)} elements / {len(a.tree.unchained)} waiting; "
              f"order {r['order_b']} -> {len(kb)} elements / {len(b.tree.unchained)} waiting")
        if ka != kb:
            b.fail("TokenTree.gather_token:order-dependent", "replayed orders still disagree",
                   {"order_a": r["order_a"], "order_b": r["order_b"]})
        b.check_complete(b.tree, "replay order_b")
    print("replay: property " + ("FAILS" if ctx.failures else "holds") + " on the replayed scenario")
    ctx.case(("replay",), True)
