/- line-protocol driver for the C04 model (Mathlib-free): a network of nodes over the toy AEAD -/
import Ipv8.Base.Proto
import Ipv8.C04.Model
import Ipv8.C04.Lemmas
open Ipv8 Ipv8.C04 Ipv8.Proto

abbrev N := Node toy

structure St where
  net : List N := []


def emptyNode (a mx : Nat) : N := { addr := a, circuits := [], relays := [], exits := [], maxEarly := mx, ctr := 0 }

def updNode (st : St) (a : Nat) (f : N → N) : Option St :=
  match findNode st.net a with
  | none => none
  | some nd => some { st with net := putNode st.net (f nd) }

def parseDir : String → Option Dir
  | "F" => some .fwd
  | "B" => some .bwd
  | _ => none

def showDir : Dir → String
  | .fwd => "F"
  | .bwd => "B"

def parseCType : String → Option CType
  | "data" => some .data
  | "ip" => some .ipSeeder
  | "rps" => some .rpSeeder
  | "rpd" => some .rpDownloader
  | _ => none

def showCType : CType → String
  | .data => "data"
  | .ipSeeder => "ip"
  | .rpSeeder => "rps"
  | .rpDownloader => "rpd"

def key? (s : String) : Option UInt8 := s.toNat?.map UInt8.ofNat

def bool? : String → Option Bool
  | "0" => some false
  | "1" => some true
  | _ => none

def showBool (b : Bool) : String := if b then "1" else "0"

/-- peel toy headers while the body is longer than the known plaintext length -/
def layersOf : Nat → Nat → Bytes → List String
  | 0, _, _ => []
  | fuel + 1, plainLen, body =>
    if body.length ≤ plainLen then []
    else match body with
      | _ :: k :: d :: _ :: rest =>
        if rest.take 20 = toyPad ∧ 20 ≤ rest.length ∧ (d = 0 ∨ d = 1) then
          (toString k.toNat ++ (if d = 0 then "F" else "B")) :: layersOf fuel plainLen (rest.drop 20)
        else ["?"]
      | _ => ["?"]

def showLayers (plainLen : Nat) (body : Bytes) : String :=
  let l := layersOf 16 plainLen body
  if l.isEmpty then "-" else ".".intercalate l

def showReason : Reason → String
  | .unknownCircuit => "unknownCircuit"
  | .noKeys => "noKeys"
  | .decryptFail => "decryptFail"
  | .notEncrypted => "notEncrypted"
  | .tooManyEarly => "tooManyEarly"
  | .earlyFlag => "earlyFlag"
  | .plaintextRule => "plaintextRule"
  | .emptyMsg => "emptyMsg"
  | .noOther => "noOther"
  | .noRoute => "noRoute"
  | .fuel => "fuel"

def showEv (plainLen : Nat) (e : Ev) : String :=
  s!"w:{e.src}>{e.dst}:{e.cell.cid}:{showBool e.cell.plaintext}{showBool e.cell.relayEarly}:{e.cell.msg.length}:{showLayers plainLen e.cell.msg}"

def showFinal : Final → String
  | .delivered a c => s!"fin:deliver@{a}:{c.cid}:{showBool c.plaintext}{showBool c.relayEarly}:{toHex c.msg}"
  | .dropped a r => s!"fin:drop@{a}:{showReason r}"
  | .misrouted a => s!"fin:lost@{a}"

def showTrace (plainLen : Nat) (evs : List Ev) (f : Final) : String :=
  "|".intercalate (evs.map (showEv plainLen) ++ [showFinal f])

/-- "[1F,2F,9B]" → layers (key, dir), outermost first -/
def parseLayers (s : String) : Option (List (UInt8 × Dir)) := do
  let items ← listItems? s
  items.mapM (fun it =>
    match it.toList.reverse with
    | 'F' :: r => (key? (String.ofList r.reverse)).map (fun k => (k, Dir.fwd))
    | 'B' :: r => (key? (String.ofList r.reverse)).map (fun k => (k, Dir.bwd))
    | _ => none)

def buildBody (nonce : Nat) : List (UInt8 × Dir) → Bytes → Bytes
  | [], m => m
  | (k, d) :: ls, m => toyEnc k d nonce (buildBody (nonce + 1) ls m)

def showKeys (ks : List UInt8) : String := "[" ++ ",".intercalate (ks.map (fun k => toString k.toNat)) ++ "]"

def insertSorted {β : Type} (p : Nat × β) : List (Nat × β) → List (Nat × β)
  | [] => [p]
  | q :: t => if p.1 ≤ q.1 then p :: q :: t else q :: insertSorted p t

def sortNat (l : List Nat) : List Nat :=
  l.foldr (fun x acc => (acc.filter (· < x)) ++ [x] ++ (acc.filter (· ≥ x))) []

def sortByCid {β : Type} (l : List (Nat × β)) : List (Nat × β) := l.foldr insertSorted []

def dumpNode (nd : N) : String :=
  let cs := (sortByCid nd.circuits).map (fun (c, e) =>
    s!"C{c}:{showKeys e.hops}:{e.firstHop}:{match e.hs with | some k => toString k.toNat | none => "-"}:{showCType e.ctype}:{e.early}")
  let rs := (sortByCid nd.relays).map (fun (c, e) =>
    s!"R{c}:{e.toCid}:{e.key.toNat}:{showDir e.dir}:{showBool e.rendezvous}:{e.next}:{e.early}")
  let xs := (sortByCid nd.exits).map (fun (c, e) => s!"X{c}:{e.key.toNat}:{e.prev}")
  let all := cs ++ rs ++ xs
  if all.isEmpty then "empty" else " ".intercalate all

def step (st : St) (toks : List String) : St × String :=
  let bad := (st, "bad-op")
  match toks with
  | ["reset"] => ({}, "ok")
  | ["node", a, mx] =>
    match a.toNat?, mx.toNat? with
    | some a, some mx => ({ st with net := st.net ++ [emptyNode a mx] }, "ok")
    | _, _ => bad
  | ["circ", a, cid, fh, ct, early, hs, keys] =>
    match a.toNat?, cid.toNat?, fh.toNat?, parseCType ct, early.toNat?, natList? keys with
    | some a, some cid, some fh, some ct, some early, some keys =>
      let hs' : Option UInt8 := if hs == "-" then none else key? hs
      let e : CircuitE toy := { hops := keys.map UInt8.ofNat, firstHop := fh, hs := hs', ctype := ct, early := early }
      match updNode st a (fun nd => { nd with circuits := (cid, e) :: nd.circuits.filter (fun p => p.1 != cid) }) with
      | some st' => (st', "ok")
      | none => bad
    | _, _, _, _, _, _ => bad
  | ["relay", a, cid, to, k, d, rdv, nxt, early] =>
    match a.toNat?, cid.toNat?, to.toNat?, key? k, parseDir d, bool? rdv, nxt.toNat?, early.toNat? with
    | some a, some cid, some to, some k, some d, some rdv, some nxt, some early =>
      let e : RelayE toy := { toCid := to, key := k, dir := d, rendezvous := rdv, next := nxt, early := early }
      match updNode st a (fun nd => { nd with relays := (cid, e) :: nd.relays.filter (fun p => p.1 != cid) }) with
      | some st' => (st', "ok")
      | none => bad
    | _, _, _, _, _, _, _, _ => bad
  | ["exit", a, cid, k, prev] =>
    match a.toNat?, cid.toNat?, key? k, prev.toNat? with
    | some a, some cid, some k, some prev =>
      let e : ExitE toy := { key := k, prev := prev }
      match updNode st a (fun nd => { nd with exits := (cid, e) :: nd.exits.filter (fun p => p.1 != cid) }) with
      | some st' => (st', "ok")
      | none => bad
    | _, _, _, _ => bad
  | ["unexit", a, cid] =>
    match a.toNat?, cid.toNat? with
    | some a, some cid =>
      match updNode st a (fun nd => { nd with exits := nd.exits.filter (fun p => p.1 != cid) }) with
      | some st' => (st', "ok")
      | none => bad
    | _, _ => bad
  | ["chainf", o, cid, nodes] =>
    -- do the tables satisfy the hypotheses of `forward_delivers` (FwdChain, decided by `checkFwd`, proved sound)?
    match o.toNat?, cid.toNat?, natList? nodes with
    | some o, some cid, some nodes =>
      match findNode st.net o, nodes.mapM (findNode st.net) with
      | some ond, some nds =>
        match List.lookup cid ond.circuits with
        | some ce =>
          if ce.hs.isSome then (st, "no:hs") else
          match checkFwd (decide (ce.early < ond.maxEarly)) cid nds ce.hops with
          | some (xa, xc) => (st, s!"ok {xa} {xc}")
          | none => (st, "no")
        | none => (st, "no:circuit")
      | _, _ => bad
    | _, _, _ => bad
  | ["chainb", x, cid, nodes] =>
    match x.toNat?, cid.toNat?, natList? nodes with
    | some x, some cid, some nodes =>
      match findNode st.net x, nodes.mapM (findNode st.net) with
      | some xnd, some nds =>
        match List.lookup cid xnd.circuits, List.lookup cid xnd.exits with
        | none, some xe =>
          match checkBwd cid nds [xe.key] with
          | some (oa, oc) => (st, s!"ok {oa} {oc}")
          | none => (st, "no")
        | _, _ => (st, "no:exit")
      | _, _ => bad
    | _, _, _ => bad
  | ["sink", ct, pfx, tep, dz, data, ids] =>
    match ofHex? pfx, bool? tep, bool? dz, ofHex? data, natList? ids with
    | some pfx, some tep, some dz, some data, some ids =>
      let own : Option CType := if ct == "-" then none else parseCType ct
      let r := match onDataSink own true true true pfx tep dz data (ids.map UInt8.ofNat) with
        | .raw => "raw"
        | .ownPacket => "ownPacket"
        | .otherCommunity => "otherCommunity"
        | .droppedNoTunnelEndpoint => "dropped"
        | .droppedNestedData => "dropped"
        | .exitSocket => "exitSocket"
        | .droppedZeroDest => "dropped"
      (st, r)
    | _, _, _, _, _ => bad
  | ["sink2", ct, sip, sport, hip, hport, pfx, tep, dz, data] =>
    match sip.toNat?, sport.toNat?, hip.toNat?, hport.toNat?, ofHex? pfx, bool? tep, bool? dz, ofHex? data with
    | some sip, some sport, some hip, some hport, some pfx, some tep, some dz, some data =>
      let own : Option CType := if ct == "-" then none else parseCType ct
      let r := match onDataSink own true (fromFirstHop (sip, sport) (hip, hport)) (sameIp (sip, sport) (hip, hport)) pfx tep dz data with
        | .raw => "raw"
        | .ownPacket => "ownPacket"
        | .otherCommunity => "otherCommunity"
        | .droppedNoTunnelEndpoint => "dropped"
        | .droppedNestedData => "dropped"
        | .exitSocket => "exitSocket"
        | .droppedZeroDest => "dropped"
      (st, r)
    | _, _, _, _, _, _, _, _ => bad
  | ["xsburst", ready, kinds] =>
    -- k datagrams handed to an exit socket back to back ("i" literal address / "n" host name), then everything drains
    match bool? ready, listItems? kinds with
    | some ready, some ks =>
      let sends : List XEv := ks.zipIdx.map (fun (k, i) => XEv.send i (if k == "n" then XDest.name 7 (1000 + i) else XDest.ip 9 (1000 + i)))
      let drain : List XEv := [XEv.transportsReady] ++ ks.map (fun _ => XEv.resolved)
      let s := XSock.run (fun h => h + 100) ({ ready := ready } : XSock) (sends ++ drain)
      let wrong := s.out.filter (fun (x : XItem) => x.2.2 != 1000 + x.1)
      let lost := (List.range ks.length).filter (fun i => s.out.map Prod.fst |>.count i |> (· != 1))
      (st, s!"out={s.out.length} lost={lost.length + wrong.length}")
    | _, _ => bad
  | ["tdeliver", packet, specs] =>
    -- specs: "[<prefixhex>:<0|1>,...]" = the overlays loaded on the tunnel endpoint with their anonymize flag
    match ofHex? packet, listItems? specs with
    | some packet, some items =>
      let ovs : Option (List (Bytes × Bool)) := items.mapM (fun it =>
        match splitChar it ':' with
        | [p, a] => do
          let pb ← ofHex? p
          let ab ← bool? a
          pure (pb, ab)
        | _ => none)
      match ovs with
      | some ovs => (st, showNatList (tunnelDelivery ovs packet))
      | none => bad
    | _, _ => bad
  | ["tepsend", flags] =>
    -- a history of TunnelEndpoint.send calls: "1" = a ready circuit exists at that call; packet i goes to destination i
    match listItems? flags with
    | some fs =>
      let evs : List (Bool × (Nat × Nat)) := fs.zipIdx.map (fun (f, i) => (f == "1", (i, i)))
      let s := TEp.run {} evs
      (st, s!"out={showNatList (s.out.map Prod.fst)} queued={showNatList (s.queue.map Prod.fst)}")
    | none => bad
  | ["allowed", bt, ipv8, pfx, data] =>
    match bool? bt, bool? ipv8, ofHex? pfx, ofHex? data with
    | some bt, some ipv8, some pfx, some data => (st, showBool (exitAllows bt ipv8 pfx data))
    | _, _, _, _ => bad
  | ["tepany", anon, att, ready] =>
    match bool? anon, bool? att, bool? ready with
    | some anon, some att, some ready =>
      let s := ({} : TEp).sendAny anon att ready (1, 1)
      (st, s!"direct={s.direct.length} out={s.out.length} queued={s.queue.length}")
    | _, _, _ => bad
  | ["createinuse", c, r, x] =>
    match bool? c, bool? r, bool? x with
    | some c, some r, some x => (st, showBool (genCreateInUse c r x))
    | _, _, _ => bad
  | ["dump", a] =>
    match a.toNat? with
    | some a => match findNode st.net a with
      | some nd => (st, dumpNode nd)
      | none => bad
    | none => bad
  | ["send", frm, tgt, cid, pt, re0, msg] =>
    match frm.toNat?, tgt.toNat?, cid.toNat?, bool? pt, bool? re0, ofHex? msg with
    | some frm, some tgt, some cid, some pt, some re0, some msg =>
      let (net', evs, fin) := originate 64 st.net frm tgt ⟨cid, pt, re0, msg⟩
      ({ st with net := net' }, showTrace msg.length evs fin)
    | _, _, _, _, _, _ => bad
  | ["sendcut", frm, tgt, cid, pt, re0, msg, n] =>
    match frm.toNat?, tgt.toNat?, cid.toNat?, bool? pt, bool? re0, ofHex? msg, n.toNat? with
    | some frm, some tgt, some cid, some pt, some re0, some msg, some n =>
      let (net', evs, fin) := originate (n - 1) st.net frm tgt ⟨cid, pt, re0, msg⟩
      ({ st with net := net' }, showTrace msg.length evs fin)
    | _, _, _, _, _, _, _ => bad
  | ["inject", dst, src, cid, pt, re, spec, inner] =>
    match dst.toNat?, src.toNat?, cid.toNat?, bool? pt, bool? re, ofHex? inner with
    | some dst, some src, some cid, some pt, some re, some inner =>
      let body? : Option (Bytes × Nat) :=
        if spec == "R" then some (inner, inner.length)      -- the body is given byte for byte
        else if spec.startsWith "G" then
          ((spec.drop 1).toString.toNat?).map (fun n => (List.replicate n (0xff : UInt8), 0))
        else (parseLayers spec).map (fun ls => (buildBody 100 ls inner, inner.length))
      match body? with
      | some (body, plainLen) =>
        let (net', evs, fin) := run 64 st.net dst src ⟨cid, pt, re, body⟩
        ({ st with net := net' }, showTrace plainLen evs fin)
      | none => bad
    | _, _, _, _, _, _ => bad
  | _ => bad

/-- like `Proto.loop`, but flushes after every reply (the harness talks to this driver interactively) -/
partial def loopFlush (h : IO.FS.Stream) (out : IO.FS.Stream) (st : St) : IO Unit := do
  let line ← h.getLine
  if line.isEmpty then
    out.flush
    return ()
  let toks := tokens (stripNl line)
  if toks.isEmpty then
    loopFlush h out st
  else
    let (st', reply) := step st toks
    out.putStrLn reply
    out.flush
    loopFlush h out st'

def main : IO Unit := do
  let i ← IO.getStdin
  let o ← IO.getStdout
  loopFlush i o {}
