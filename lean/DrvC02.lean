/- line-protocol driver for the C02 serializer model (Mathlib-free)

   tokens (no spaces inside a token):
     fmt  := S[u2,i4,b,c,x20,f8] | bits | ipv4 | addr0 | addr1 | raw | V<lw>:<base> | U<lw>:<base> | L<lw>(fmt)
           | A<lw>b|q|d | P(fmt,fmt,…) | P() | F<w> | node | @<registered name> | #<qualified class name>
     val  := n<nat> | i<int> | b0|b1 | x<hex> | f<hex>            (atoms; empty bytes: x-)
           | T(atom,…) | A(atom,…) | a4:<hex>:<port> | a6:<hex>:<port> | ad:<hex>:<port> | s<hex>
           | L(val,…) | R(val,…) | F(nat,…) | N(<addr>;<hex>)
   requests:
     pack <fmt> <val>                 -> ok <hex> | err <kind>
     unpack <fmt> <hex> <off>         -> ok <val> <newoff> | err <kind>
     packl <fmt=P(..)|#cls> <val=R(..)>      (Serializer.pack_serializable on the pack list)
     unpackl <fmt=P(..)|#cls> <hex> <off>    (Serializer.unpack_serializable, before from_unpack_list)
     ulist <0|1 consume_all> <hex> <off> <fmt>…   (Serializer.unpack_serializable_list)
     old <class> pack|unpack …        (hand-written to_pack_list / from_unpack_list models, see OldPayloads)
     dc <parents x,0,1> <names a.b/a.b.c/…> <ops i0,r1,…>   (dataclass conversion state: outcome of the last op ; names per class)
     cell tobin|frombin|unwrap …
-/
import Ipv8.Base.Proto
import Ipv8.C02.Tables
import Ipv8.C02.OldPayloads
import Ipv8.C02.Dataclass
import Ipv8.C02.Registry
import Ipv8.C02.Frame
open Ipv8 Ipv8.C02 Ipv8.Proto

abbrev P := List Char

def showErr : Err → String
  | .short => "short" | .range => "range" | .type => "type" | .addr => "addr"
  | .utf8 => "utf8" | .value => "value" | .extra => "extra"

/-! ### printing -/

def showAtom : Atom → String
  | .nat n => s!"n{n}"
  | .int i => s!"i{i}"
  | .bool b => if b then "b1" else "b0"
  | .bytes b => "x" ++ toHex b
  | .float b => "f" ++ toHex b

def showAddr : Addr → String
  | .v4 ip p => s!"a4:{toHex ip}:{p}"
  | .v6 ip p => s!"a6:{toHex ip}:{p}"
  | .domain h p => s!"ad:{toHex h}:{p}"

mutual
def showVal : Val → String
  | .atom a => showAtom a
  | .tuple as => "T(" ++ ",".intercalate (as.map showAtom) ++ ")"
  | .arr as => "A(" ++ ",".intercalate (as.map showAtom) ++ ")"
  | .addr a => showAddr a
  | .str b => "s" ++ toHex b
  | .list vs => "L(" ++ ",".intercalate (showVals vs) ++ ")"
  | .record vs => "R(" ++ ",".intercalate (showVals vs) ++ ")"
  | .nats l => "F(" ++ ",".intercalate (l.map toString) ++ ")"
  | .node a k => "N(" ++ showAddr a ++ ";" ++ toHex k ++ ")"
def showVals : ValList → List String
  | .nil => []
  | .cons v vs => showVal v :: showVals vs
end

/-! ### parsing (recursive descent over characters) -/

def takeWhileP (p : Char → Bool) : P → P × P
  | [] => ([], [])
  | c :: cs => if p c then let (a, b) := takeWhileP p cs; (c :: a, b) else ([], c :: cs)

def isAtomChar (c : Char) : Bool := c.isAlphanum || c == '-'

def pNat (s : P) : Option (Nat × P) :=
  let (d, r) := takeWhileP Char.isDigit s
  if d.isEmpty then none else (String.ofList d).toNat?.map (fun n => (n, r))

def pHex (s : P) : Option (Bytes × P) :=
  let (d, r) := takeWhileP (fun c => c.isAlphanum || c == '-') s
  (ofHex? (String.ofList d)).map (fun b => (b, r))

def pAtom : P → Option (Atom × P)
  | 'n' :: r => (pNat r).map (fun (n, r) => (.nat n, r))
  | 'i' :: '-' :: r => (pNat r).map (fun (n, r) => (.int (-(n : Int)), r))
  | 'i' :: r => (pNat r).map (fun (n, r) => (.int n, r))
  | 'b' :: '0' :: r => some (.bool false, r)
  | 'b' :: '1' :: r => some (.bool true, r)
  | 'x' :: r => (pHex r).map (fun (b, r) => (.bytes b, r))
  | 'f' :: r => (pHex r).map (fun (b, r) => (.float b, r))
  | _ => none

partial def pSep {α} (item : P → Option (α × P)) (sep : Char) : P → Option (List α × P)
  | ')' :: r => some ([], r)
  | s =>
    match item s with
    | none => none
    | some (x, r) =>
      match r with
      | [] => none
      | c :: r' =>
        if c == ')' then some ([x], r')
        else if c == sep then
          match pSep item sep r' with
          | some (xs, r'') => if xs.isEmpty then none else some (x :: xs, r'')
          | none => none
        else none

def pAddr : P → Option (Addr × P)
  | 'a' :: k :: ':' :: r => do
    let (b, r) ← pHex r
    match r with
    | ':' :: r => do
      let (p, r) ← pNat r
      match k with
      | '4' => some (.v4 b p, r)
      | '6' => some (.v6 b p, r)
      | 'd' => some (.domain b p, r)
      | _ => none
    | _ => none
  | _ => none

partial def pVal : P → Option (Val × P)
  | 'T' :: '(' :: r => (pSep pAtom ',' r).map (fun (as, r) => (.tuple as, r))
  | 'A' :: '(' :: r => (pSep pAtom ',' r).map (fun (as, r) => (.arr as, r))
  | 'L' :: '(' :: r => (pSep pVal ',' r).map (fun (vs, r) => (.list (ValList.ofList vs), r))
  | 'R' :: '(' :: r => (pSep pVal ',' r).map (fun (vs, r) => (.record (ValList.ofList vs), r))
  | 'F' :: '(' :: r => (pSep pNat ',' r).map (fun (l, r) => (.nats l, r))
  | 'N' :: '(' :: r => do
    let (a, r) ← pAddr r
    match r with
    | ';' :: r => do
      let (k, r) ← pHex r
      match r with
      | ')' :: r => some (.node a k, r)
      | _ => none
    | _ => none
  | 'a' :: r => (pAddr ('a' :: r)).map (fun (a, r) => (.addr a, r))
  | 's' :: r => (pHex r).map (fun (b, r) => (.str b, r))
  | s => (pAtom s).map (fun (a, r) => (.atom a, r))

def parseVal (s : String) : Option Val :=
  match pVal s.toList with
  | some (v, []) => some v
  | _ => none

def pSField : P → Option (SField × P)
  | 'u' :: r => (pNat r).map (fun (n, r) => (.uint n, r))
  | 'i' :: r => (pNat r).map (fun (n, r) => (.sint n, r))
  | 'x' :: r => (pNat r).map (fun (n, r) => (.fixed n, r))
  | 'f' :: r => (pNat r).map (fun (n, r) => (.float n, r))
  | 'b' :: r => some (.bool, r)
  | 'c' :: r => some (.char, r)
  | _ => none

partial def pSFields : P → Option (List SField × P)
  | ']' :: r => some ([], r)
  | s => do
    let (x, r) ← pSField s
    match r with
    | ']' :: r' => some ([x], r')
    | ',' :: r' => do
      let (xs, r'') ← pSFields r'
      some (x :: xs, r'')
    | _ => none

def classFmt (name : String) : Option Fmt :=
  (findPayload name).map (fun p => .nested p.fmts)

partial def pFmt : P → Option (Fmt × P)
  | 'S' :: '[' :: r => (pSFields r).map (fun (fs, r) => (.struct fs, r))
  | 'b' :: 'i' :: 't' :: 's' :: r => some (.bits, r)
  | 'i' :: 'p' :: 'v' :: '4' :: r => some (.ipv4, r)
  | 'a' :: 'd' :: 'd' :: 'r' :: '0' :: r => some (.address false, r)
  | 'a' :: 'd' :: 'd' :: 'r' :: '1' :: r => some (.address true, r)
  | 'r' :: 'a' :: 'w' :: r => some (.raw, r)
  | 'n' :: 'o' :: 'd' :: 'e' :: r => some (.node, r)
  | 'V' :: r => do
    let (lw, r) ← pNat r
    match r with
    | ':' :: r => (pNat r).map (fun (b, r) => (.varlen lw b, r))
    | _ => none
  | 'U' :: r => do
    let (lw, r) ← pNat r
    match r with
    | ':' :: r => (pNat r).map (fun (b, r) => (.varlenUtf8 lw b, r))
    | _ => none
  | 'L' :: r => do
    let (lw, r) ← pNat r
    match r with
    | '(' :: r => do
      let (f, r) ← pFmt r
      match r with
      | ')' :: r => some (.listOf lw f, r)
      | _ => none
    | _ => none
  | 'A' :: r => do
    let (lw, r) ← pNat r
    match r with
    | 'b' :: r => some (.array lw .bool, r)
    | 'q' :: r => some (.array lw .q, r)
    | 'd' :: r => some (.array lw .d, r)
    | _ => none
  | 'P' :: '(' :: r => (pSep pFmt ',' r).map (fun (fs, r) => (.nested (FmtList.ofList fs), r))
  | 'F' :: r => (pNat r).map (fun (w, r) => (.flags w, r))
  | _ => none

def parseFmt (s : String) : Option Fmt :=
  match s.toList with
  | '@' :: name =>
    match lookup Gen.packers (String.ofList name) with
    | some (.fmt f) => some f
    | _ => none
  | '#' :: name => classFmt (String.ofList name)
  | cs => match pFmt cs with
    | some (f, []) => some f
    | _ => none

/-! ### printing formats (same syntax as accepted by `parseFmt`) -/

def showSField : SField → String
  | .uint w => s!"u{w}" | .sint w => s!"i{w}" | .bool => "b" | .char => "c" | .fixed n => s!"x{n}" | .float w => s!"f{w}"

mutual
def showFmt : Fmt → String
  | .struct fs => "S[" ++ ",".intercalate (fs.map showSField) ++ "]"
  | .bits => "bits" | .ipv4 => "ipv4" | .raw => "raw" | .node => "node"
  | .address ipOnly => if ipOnly then "addr1" else "addr0"
  | .varlen lw b => s!"V{lw}:{b}"
  | .varlenUtf8 lw b => s!"U{lw}:{b}"
  | .listOf lw f => s!"L{lw}(" ++ showFmt f ++ ")"
  | .array lw k => s!"A{lw}" ++ (match k with | .bool => "b" | .q => "q" | .d => "d")
  | .nested fs => "P(" ++ ",".intercalate (showFmts fs) ++ ")"
  | .flags w => s!"F{w}"
def showFmts : FmtList → List String
  | .nil => []
  | .cons f fs => showFmt f :: showFmts fs
end

/-- the default table of a fresh `Serializer()`: the generated registry without the names the shipped overlays add -/
def defaultTable (exclude : List String) : Reg.Table :=
  Gen.packers.filterMap (fun e => match e.2 with
    | .fmt f => if exclude.contains e.1 then none else some (e.1, f)
    | _ => none)

/-! ### requests -/

def showRes (r : Except Err (Val × Nat)) : String :=
  match r with
  | .ok (v, o) => s!"ok {showVal v} {o}"
  | .error e => "err " ++ showErr e

def showBytes (r : Except Err Bytes) : String :=
  match r with
  | .ok b => "ok " ++ toHex b
  | .error e => "err " ++ showErr e

def step (_ : Unit) (toks : List String) : Unit × String :=
  let r : Option String :=
    match toks with
    | ["pack", f, v] => do
      let f ← parseFmt f
      let v ← parseVal v
      some (showBytes (pack f v))
    | ["unpack", f, h, off] => do
      let f ← parseFmt f
      let d ← ofHex? h
      let off ← off.toNat?
      some (showRes (unpackAt f d off))
    | ["packl", f, v] => do
      let f ← parseFmt f
      let v ← parseVal v
      match f, v with
      | .nested fs, .record vs => some (showBytes (packList fs vs))
      | _, _ => none
    | ["unpackl", f, h, off] => do
      let f ← parseFmt f
      let d ← ofHex? h
      let off ← off.toNat?
      match f with
      | .nested fs => some (match unpackListAt fs d off with
          | .ok (vs, o) => s!"ok {showVal (.record vs)} {o}"
          | .error e => "err " ++ showErr e)
      | _ => none
    | "ulist" :: c :: h :: off :: fs => do
      let d ← ofHex? h
      let off ← off.toNat?
      let fs ← fs.mapM (fun t => do
        match ← parseFmt t with
        | .nested l => some l
        | _ => none)
      some (match unpackPayloadsAt fs d off (c == "1") with
        | .ok (vss, rem) => "ok " ++ showVal (.list (ValList.ofList (vss.map Val.record))) ++ " " ++ toHex rem
        | .error e => "err " ++ showErr e)
    | ["encode", cls, v] => do
      let v ← parseVal v
      let p ← findPayload cls
      match v with
      | .record attrs => some (match Code.evalPack (Gen.codeOf cls) attrs.toList with   -- the TRANSLATED to_pack_list
          | some pl => showBytes (packList p.fmts (ValList.ofList pl))
          | none => "err topack")
      | _ => none
    | ["decode", cls, h, off] => do
      let p ← findPayload cls
      let d ← ofHex? h
      let off ← off.toNat?
      some (match unpackListAt p.fmts d off with
        | .ok (ul, o) => (match Code.evalUnpack (Gen.codeOf cls) (flatten p.fmts ul) with   -- the TRANSLATED from_unpack_list
            | some attrs => s!"ok {showVal (.record (ValList.ofList attrs))} {o}"
            | none => "err fromunpack")
        | .error e => "err " ++ showErr e)
    | "dlist" :: c :: h :: off :: clss => do
      let d ← ofHex? h
      let off ← off.toNat?
      let ps ← clss.mapM findPayload
      some (match unpackPayloadsAt (ps.map (·.fmts)) d off (c == "1") with
        | .ok (vss, rem) =>
          (match (List.zip ps vss).mapM (fun (p, ul) => Code.evalUnpack (Gen.codeOf p.name) (flatten p.fmts ul)) with
            | some as => "ok " ++ showVal (.list (ValList.ofList (as.map (fun a => Val.record (ValList.ofList a))))) ++ " " ++ toHex rem
            | none => "err fromunpack")
        | .error e => "err " ++ showErr e)
    | ["old", cls, "pack", v] => do
      let v ← parseVal v
      match v with
      | .record args => some (match Old.toPack cls args with
          | some vs => "ok " ++ showVal (.record vs)
          | none => "none")
      | _ => none
    | ["old", cls, "unpack", v] => do
      let v ← parseVal v
      match v with
      | .record ul => some (match Old.fromUnpack cls ul with
          | some vs => "ok " ++ showVal (.record vs)
          | none => "none")
      | _ => none
    | ["cell", "tobin", pre, cid, pt, re, msg] => do
      let pre ← ofHex? pre
      let cid ← cid.toNat?
      let msg ← ofHex? msg
      some (showBytes (Old.cellToBin pre cid (pt == "1") (re == "1") msg))
    | ["cell", "unwrap", pre, cid, msg] => do
      let pre ← ofHex? pre
      let cid ← cid.toNat?
      let msg ← ofHex? msg
      some (showBytes (Old.cellUnwrap pre cid msg))
    | ["dc", parents, names, ops] => do
      let ps := (splitChar parents ',').map (fun t => t.toNat?)
      let ns := (splitChar names '/').map (fun t => if t == "-" then [] else splitChar t '.')
      let ops ← (splitChar ops ',').mapM (fun t =>
        match t.toList with
        | 'i' :: r => (String.ofList r).toNat?.map Dc.Op.inst
        | 'r' :: r =>
          match splitChar (String.ofList r) ':' with
          | [c, fm] => do
            let c ← c.toNat?
            let fm := if fm == "-" then [] else (splitChar fm '.').map (fun x => x.toNat?)
            some (Dc.Op.recv c fm)
          | [c] => c.toNat?.map (fun c => Dc.Op.recv c [])
          | _ => none
        | _ => none)
      let all : Nat → List String := fun c => ns.getD c []
      let parent : Nat → Option Nat := fun c => (ps.getD c none)
      let fuel := ps.length + 1
      let st0 := Dc.run all parent fuel ops.dropLast
      let res := match ops.getLast? with
        | some (.recv c fm) => (match Dc.recvResult all parent st0 fuel c fm with
            | some a => s!"cls{a}"
            | none => "raise")
        | _ => "inst"
      let st := Dc.run all parent fuel ops
      let shown := (List.range ps.length).map (fun c =>
        let l := Dc.lookupNames parent st fuel c
        if l.isEmpty then "-" else ".".intercalate l)
      some (res ++ ";" ++ "|".intercalate shown)
    | ["old", cls, "init", v] => do
      let v ← parseVal v
      match v with
      | .record args => some (match Code.evalInit (Gen.codeOf cls) args.toList with   -- the TRANSLATED __init__
          | some attrs => "ok " ++ showVal (.record (ValList.ofList attrs))
          | none => "err init")
      | _ => none
    | ["reg", excl, overlays, k, name] => do
      let exclude := if excl == "-" then [] else splitChar excl ','
      let regss ← (splitChar overlays '|').mapM (fun o =>
        if o == "-" then some [] else (splitChar o '&').mapM (fun r =>
          match splitChar r '=' with
          | [n, f] => (parseFmt f).map (fun f => (n, f))
          | _ => none))
      let w := Reg.run (defaultTable exclude) regss
      let id ← if k == "d" then some 0 else k.toNat?.map (· + 1)
      some (match Reg.lookup (w.tbl id) name with
        | some f => showFmt f
        | none => "none")
    | "ezunpack" :: sigLen :: h :: clss => do
      -- sigLen = "-" : _ez_unpack_noauth ; otherwise _ez_unpack_auth with that signature length; classes after the auth header
      let d ← ofHex? h
      let ps ← clss.mapM findPayload
      let fss := ps.map (·.fmts)
      let attrsOf := fun (vss : List ValList) =>
        (List.zip ps vss).mapM (fun (p, ul) => Code.evalUnpack (Gen.codeOf p.name) (flatten p.fmts ul))
      if sigLen == "-" then
        some (match Frame.ezUnpackNoAuth fss d with
          | .ok vss => (match attrsOf vss with
              | some as => "ok - " ++ showVal (.list (ValList.ofList (as.map (fun a => Val.record (ValList.ofList a)))))
              | none => "err fromunpack")
          | .error e => "err " ++ showErr e)
      else do
        let n ← sigLen.toNat?
        some (match Frame.ezUnpackAuth n fss d with
          | .ok (key, vss) => (match attrsOf vss with
              | some as => "ok " ++ toHex key ++ " " ++ showVal (.list (ValList.ofList (as.map (fun a => Val.record (ValList.ofList a)))))
              | none => "err fromunpack")
          | .error e => "err " ++ showErr e)
    | ["dcrule", chain] => do
      let anns ← (splitChar chain ',').mapM Dc.Container.ofString
      some (Dc.applyRule (Dc.chainRule none anns)).toString
    | ["cell", "frombin", pkt] => do
      let pkt ← ofHex? pkt
      some (match Old.cellFromBin pkt with
        | .ok (cid, pt, re, msg) => s!"ok {cid} {if pt then 1 else 0} {if re then 1 else 0} {toHex msg}"
        | .error e => "err " ++ showErr e)
    | _ => none
  ((), r.getD "bad-op")

def main : IO Unit := Proto.run () step
