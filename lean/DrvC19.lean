/- line-protocol driver for the C19 crash model (core Lean only)

  tl <call> <call> …          timeline of a workload: for every crash point (k, j) in execution order one entry
                              `label|acks|rows`, entries separated by `;`, first entry `init||`.
       call tokens:  m<method>.<path>[/<n>]:<key>:<val>   insert through generated method/path (first n primitives only)
                     en | ex | xx | cm | kk         __enter__ | __exit__(no exc) | __exit__(exception) | commit() |
                                                    process killed, next process opens the file
       label: X (row added) Xi (ignored duplicate) X! (IntegrityError) C (real commit) D (deferred commit)
              R (returned) en ex exC xx ;  rows / acks are printed as `=` when unchanged from the previous entry
  tlc <call> …                the same timeline in compact form (long workloads):
                              `order=<rows>;acks=<ids>;init|0|0;label|#acks|#rows;…` or `nonmonotone`
  reload <id>:<prev|-> …      the ids in the rebuilt token tree after PseudonymManager.__init__ read the stored tokens
                              in this order (generated reload mode)
  causal d:<t>.<k>><t>.<k> … <call> …   does the workload write every record after the one it points to (dependency
                              table given by the d: tokens; absent = genesis)?  `true` | `false`
  openok <cls> <option> <version> <ver> <col>   a complete open() of class 0 (identity) / 1 (wallet) on a file whose
                              option table / version row / version value / upgraded column are as given:
                              `ok <option> <version> <ver> <col>` (state afterwards) | `error`
-/
import Ipv8.Base.Proto
import Ipv8.C19.Model
import Ipv8.C19.GenDbOps
open Ipv8 Ipv8.C19

def parseCall (i : Nat) (tok : String) : Option Call :=
  match tok with
  | "en" => some ⟨i, [.enter], 0, 0⟩
  | "ex" => some ⟨i, [.exit], 0, 0⟩
  | "xx" => some ⟨i, [.exitExc], 0, 0⟩
  | "cm" => some ⟨i, [.callCommit], 0, 0⟩
  | "kk" => some ⟨i, [.kill], 0, 0⟩
  | _ =>
    match Proto.splitChar tok ':' with
    | [m, k, v] =>
      match m.toList with
      | 'm' :: rest =>
        match Proto.splitChar (String.ofList rest) '.' with
        | [mi, pi] => do
          let mi ← mi.toNat?
          -- "<path>" or "<path>/<n>": only the first n primitives ran before the process was killed
          let (pi, cut) ← (match Proto.splitChar pi '/' with
            | [p] => p.toNat?.map (fun p => (p, none))
            | [p, n] => do
              let p ← p.toNat?
              let n ← n.toNat?
              pure (p, some n)
            | _ => none)
          let k ← k.toNat?
          let v ← v.toNat?
          let meth ← Gen.insertMethods[mi]?
          let ops ← meth.paths[pi]?
          pure ⟨i, (match cut with | some n => ops.take n | none => ops), k, v⟩
        | _ => none
      | _ => none
    | _ => none

def parseCalls : Nat → List String → Option (List Call)
  | _, [] => some []
  | i, t :: ts => do
    let c ← parseCall i t
    let cs ← parseCalls (i + 1) ts
    pure (c :: cs)

def showRows (rows : List Row) : String :=
  ",".intercalate (rows.map (fun r => s!"{r.table}.{r.key}.{r.val}"))

def showNats (l : List Nat) : String := ",".intercalate (l.map toString)

def label (C : CommitMethod) (c : Call) (p : Prim) (db : Db) : String :=
  match p with
  | .exec _ _ =>
    match stepPrim C c p db with
    | (db', .running) => if db'.work == db.work then "Xi" else "X"
    | _ => "X!"
  | .callCommit => if db.defer = 0 then "C" else "D"
  | .connCommit => "C"
  | .incPending => "D"
  | .ret => "R"
  | .enter => "en"
  | .exit => if db.defer > 1 then "exC" else "ex"
  | .exitExc => "xx"
  | .kill => "kk"

/-- entries for call `k`: walk its primitives with `stepPrim` for the labels, take the states from `crashAt` -/
def callEntries (C : CommitMethod) (W : List Call) (k : Nat) (c : Call) : List (String × Db) :=
  let rec go (j : Nat) (ps : List Prim) (db : Db) (fuel : Nat) : List (String × Db) :=
    match fuel, ps with
    | 0, _ => []
    | _, [] => []
    | fuel + 1, p :: ps =>
      let lab := label C c p db
      let st := crashAt C W k (j + 1)
      match stepPrim C c p db with
      | (db', .running) => (lab, st) :: go (j + 1) ps db' fuel
      | _ => [(lab, st)]
  go 0 c.ops (crashAt C W k 0) (c.ops.length + 1)

def timeline (C : CommitMethod) (W : List Call) : String :=
  let rec loop (k : Nat) (cs : List Call) (acc : List (String × Db)) : List (String × Db) :=
    match cs with
    | [] => acc
    | c :: cs => loop (k + 1) cs (acc ++ callEntries C W k c)
  let es := loop 0 W []
  let rec render (prev : Db) (es : List (String × Db)) : List String :=
    match es with
    | [] => []
    | (lab, db) :: rest =>
      let a := if db.acks == prev.acks then "=" else showNats db.acks
      let r := if visible db == visible prev then "=" else showRows (visible db)
      s!"{lab}|{a}|{r}" :: render db rest
  ";".intercalate ("init||" :: render Db.init es)

/-- one incremental walk over the workload with the model's own `stepPrim` (the state after `j` primitives of call
    `k` is `crashAt C W k j` by unfolding `runPrims`/`runCalls`); used for long workloads where recomputing `crashAt`
    per entry is too slow -/
def walk (C : CommitMethod) (W : List Call) : List (String × Db) :=
  let rec prims (c : Call) (ps : List Prim) (db : Db) (acc : List (String × Db)) : List (String × Db) × Db :=
    match ps with
    | [] => (acc, db)
    | p :: ps =>
      let lab := label C c p db
      match stepPrim C c p db with
      | (db', .running) => prims c ps db' ((lab, db') :: acc)
      | (db', _) => ((lab, db') :: acc, db')
  let rec calls (cs : List Call) (db : Db) (acc : List (String × Db)) : List (String × Db) :=
    match cs with
    | [] => acc.reverse
    | c :: cs =>
      let (acc', db') := prims c c.ops db acc
      calls cs db' acc'
  calls W Db.init []

/-- compact timeline: the final durable rows and ack list once, then per entry `label|#acks|#durable rows`; valid when
    both only ever grow (no OR REPLACE): checked, otherwise `nonmonotone` -/
def timelineCompact (C : CommitMethod) (W : List Call) : String :=
  let es := walk C W
  let final : Db := match es.getLast? with
    | some (_, db) => db
    | none => Db.init
  let mono := es.all (fun (_, db) =>
    final.durable.take db.durable.length == db.durable && final.acks.take db.acks.length == db.acks)
  if !mono then "nonmonotone"
  else
    let ents := es.map (fun (lab, db) => s!"{lab}|{db.acks.length}|{db.durable.length}")
    s!"order={showRows final.durable};acks={showNats final.acks};" ++ ";".intercalate ("init|0|0" :: ents)

def parseTok (s : String) : Option Tok :=
  match Proto.splitChar s ':' with
  | [a, b] => do
    let a ← a.toNat?
    if b == "-" then pure ⟨a, none⟩ else do
      let b ← b.toNat?
      pure ⟨a, some b⟩
  | _ => none

def bit? (s : String) : Option Bool :=
  match s with
  | "0" => some false
  | "1" => some true
  | _ => none

def step (_ : Unit) (toks : List String) : Unit × String :=
  let r : Option String :=
    match toks with
    | "tl" :: calls => do
      let W ← parseCalls 0 calls
      pure (timeline Gen.commitMethod W)
    | "tlc" :: calls => do
      let W ← parseCalls 0 calls
      pure (timelineCompact Gen.commitMethod W)
    | "reload" :: toks => do
      let ts ← toks.mapM parseTok
      pure (Proto.showNatList (reload Gen.reloadMode ts))
    | ["openok", cls, o, v, ver, col] => do
      -- a complete open() on a file in the observed state: does the model say it raises?
      let o ← bit? o
      let v ← bit? v
      let ver ← ver.toNat?
      let col ← bit? col
      let cfg ← (match cls with
        | "0" => some Gen.openIdentityDatabase
        | "1" => some Gen.openAttestationsDB
        | _ => none)
      let s : OpenSt := { tables := [], option := o, version := v, ver := ver, col := col }
      if openOk cfg s then
        let e := openEnd cfg s
        pure s!"ok {if e.option then 1 else 0} {if e.version then 1 else 0} {e.ver} {if e.col then 1 else 0}"
      else pure "error"
    | "causal" :: rest => do
      -- causal d:<t>.<k>>(<t>.<k>) … <call> <call> …
      let depToks := rest.filter (fun t => t.startsWith "d:")
      let callToks := rest.filter (fun t => !t.startsWith "d:")
      let deps ← depToks.mapM (fun t => do
        match Proto.splitChar (String.ofList (t.toList.drop 2)) '>' with
        | [a, b] =>
          match Proto.splitChar a '.', Proto.splitChar b '.' with
          | [t1, k1], [t2, k2] => do
            let t1 ← t1.toNat?
            let k1 ← k1.toNat?
            let t2 ← t2.toNat?
            let k2 ← k2.toNat?
            pure ((t1, k1), (t2, k2))
          | _, _ => none
        | _ => none)
      let W ← parseCalls 0 callToks
      pure (toString (causalCheck (depOfList deps) W))
    | ["methods"] => pure (toString Gen.insertMethods.length)
    | _ => none
  ((), r.getD "bad-op")

/-- like `Proto.run`, but flushes after every reply so that the harness can converse interactively -/
partial def loopFlush (i o : IO.FS.Stream) : IO Unit := do
  let line ← i.getLine
  if line.isEmpty then
    o.flush
    return ()
  let toks := Proto.tokens (Proto.stripNl line)
  if toks.isEmpty then
    loopFlush i o
  else
    let (_, reply) := step () toks
    o.putStrLn reply
    o.flush
    loopFlush i o

def main : IO Unit := do
  loopFlush (← IO.getStdin) (← IO.getStdout)
