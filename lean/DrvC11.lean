/- line-protocol driver for the C11 model (Mathlib-free) -/
import Ipv8.Base.Proto
import Ipv8.C11.Model
import Ipv8.C11.GenOverlays
open Ipv8 Ipv8.C11

structure DState where
  svc : Svc := {}
  w : World := {}
  tm : TM := {}
  seen : Nat := 0        -- log entries already reported

def b01 (b : Bool) : String := if b then "1" else "0"

def parseKind : String → Option TKind
  | "imm" => some .imm | "long" => some .long | "delayed" => some .delayed
  | "interval" => some .interval | "fut" => some .fut | _ => none

def parseSpec : List String → Option Spec
  | [k, d, i, s] => do
    let k ← parseKind k
    let d ← d.toNat?
    let i ← i.toNat?
    let s ← s.toNat?
    pure { kind := k, delay := d, ivl := i, stub := s }
  | _ => none

def insertSorted (x : Nat) : List Nat → List Nat
  | [] => [x]
  | y :: ys => if x ≤ y then x :: y :: ys else y :: insertSorted x ys

def sortNat (l : List Nat) : List Nat := l.foldr insertSorted []

def nameOf (ts : List Task) (id : Nat) : Nat :=
  match ts.find? (fun t => t.id == id) with
  | some t => t.name
  | none => 999

/-- every `start n (some t)` entry is preceded (older in the log) by `fin t` -/
def orderOk : List Ev → Bool
  | [] => true
  | Ev.start _ (some t) :: rest => rest.contains (Ev.fin t) && orderOk rest
  | _ :: rest => orderOk rest

def summary (st : DState) : DState × String :=
  let tm := st.tm
  let fresh := tm.log.take (tm.log.length - st.seen)
  let runs := sortNat (fresh.filterMap (fun e => match e with | .run id => some (nameOf tm.tasks id) | _ => none))
  let active := sortNat ((tm.map.filter (fun e => !(taskDone tm.tasks e.2))).map (fun e => e.1))
  let alive := (tm.tasks.filter (fun t => !t.done)).length
  ({ st with seen := tm.log.length },
   s!"active={Proto.showNatList active} runs={Proto.showNatList runs} alive={alive} down={b01 tm.shutdownReturned} order={b01 (orderOk tm.log)}")

def passes (tm : TM) : Nat → TM
  | 0 => tm
  | n + 1 => passes tm.pass n

def notSetRef : ROp → Bool
  | .setRef _ => false
  | _ => true

/-- stack 0 = plain endpoint, 1 = TunnelEndpoint wrapper, 2 = StatisticsEndpoint wrapper -/
def unloadReply (c : ClassInfo) (stack : Nat) (delay circuits relays exits openExit : Nat) : String :=
  let viaOuter := stack != 0
  let w0 : World := if stack == 2 then { fwdAdd := true, fwdRemove := Gen.statisticsEndpointForwardsRemove }
                    else { fwdAdd := Gen.tunnelEndpointForwardsAdd, fwdRemove := Gen.tunnelEndpointForwardsRemove }
  let ops := if stack == 2 then (loadOps c viaOuter 1 2 7).filter notSetRef else loadOps c viaOuter 1 2 7
  let w1 := (w0.run [.add false 3, .addPrefix false 4 8]).run ops
  let s0 : UState := { w := w1, self := 1, proxy := 2, viaOuter := viaOuter,
                       circuits := circuits, relays := relays, exits := exits, openExit := openExit }
  let s := s0.run (fun k now => Gen.removalSleeps k now delay) (fun _ => 0) c.script
  let hears := fun (l : Lid) => [7, 8, 99].any (fun p => (s.w.reach p).contains l)
  let direct := fun (l : Lid) => [7, 8, 99].any (fun p => (s.w.inner.recipients p).contains l)
  s!"listening={b01 (hears 1)} proxy={b01 (direct 2)} tm={b01 s.tmDown} cache={b01 (s.cacheDown || !c.hasCache)} " ++
  s!"db={b01 (s.dbClosed || !c.hasDb)} open={s.openExit} tables={s.circuits + s.relays + s.exits} ref={b01 (s.w.tunnelRef == some 1)}"

def step (st : DState) (toks : List String) : DState × String :=
  match toks with
  | ["reset", a, r] =>
      ({ w := { fwdAdd := a == "1", fwdRemove := r == "1" } }, "ok")
  | ["s", "reset"] => ({ st with svc := {} }, "ok")
  | ["s", "add", o, sid] =>
      match o.toNat?, sid.toNat? with
      | some o, some sid => ({ st with svc := st.svc.addStrategy o sid }, "ok")
      | _, _ => (st, "bad-op")
  | ["s", "unload", o] =>
      match o.toNat? with
      | some o => ({ st with svc := st.svc.unloadOverlay o }, "ok")
      | none => (st, "bad-op")
  | ["s", "list"] =>
      (st, s!"overlays={Proto.showNatList st.svc.overlays} strategies={Proto.showStrList (st.svc.stepped.map (fun e => s!"{e.1}:{e.2}"))}")
  | ["gen"] =>
      (st, s!"fwdAdd={b01 Gen.tunnelEndpointForwardsAdd} fwdRemove={b01 Gen.tunnelEndpointForwardsRemove} " ++
           s!"delay={Gen.defaultRemoveDelay} classes={Proto.showStrList (Gen.classes.map (·.name))}")
  | "r" :: rest =>
      let op : Option ROp := match rest with
        | ["add", o, l] => do pure (.add (o == "1") (← l.toNat?))
        | ["addp", o, l, p] => do pure (.addPrefix (o == "1") (← l.toNat?) (← p.toNat?))
        | ["rm", o, l] => do pure (.remove (o == "1") (← l.toNat?))
        | ["fwd", a, b] => do pure (.setFwd (← a.toNat?) (← b.toNat?))
        | ["unfwd", a] => do pure (.clearFwd (← a.toNat?))
        | ["open", b] => some (.setOpen (b == "1"))
        | ["ref", x] => if x == "none" then some (.setRef none) else do pure (.setRef (some (← x.toNat?)))
        | ["anon", l, b] => do pure (.setAnon (← l.toNat?) (b == "1"))
        | _ => none
      match op, rest with
      | some op, _ => ({ st with w := st.w.step op }, "ok")
      | none, ["tnotify", b, p] =>
          match p.toNat? with
          | some p => (st, Proto.showNatList (st.w.reachTunnel p (b == "1")))
          | none => (st, "bad-op")
      | none, ["driven"] => (st, Proto.showNatList st.w.tunnelRef.toList)
      | none, ["notify", p] =>
          match p.toNat? with
          | some p => (st, Proto.showNatList (st.w.reach p))
          | none => (st, "bad-op")
      | none, _ => (st, "bad-op")
  | "t" :: rest =>
      match rest with
      | "reg" :: n :: sp =>
          match n.toNat?, parseSpec sp with
          | some n, some sp =>
              let r := st.tm.register n sp
              ({ st with tm := r.1 }, match r.2 with | .ok _ => "ok" | .exists => "exists" | .refused => "refused")
          | _, _ => (st, "bad-op")
      | ["cancel", n] =>
          match n.toNat? with
          | some n => let r := st.tm.cancel n
                      ({ st with tm := r.1 }, if r.2.1 then "some" else "none")
          | none => (st, "bad-op")
      | "replace" :: n :: sp =>
          match n.toNat?, parseSpec sp with
          | some n, some sp => ({ st with tm := st.tm.replace n sp }, "ok")
          | _, _ => (st, "bad-op")
      | ["shutdown"] => ({ st with tm := st.tm.shutdownOp }, "ok")
      | ["selfshutdown", n] =>
          match n.toNat? with
          | some n => ({ st with tm := st.tm.shutdownFrom n }, "ok")
          | none => (st, "bad-op")
      | ["active", n] =>
          match n.toNat? with
          | some n => (st, b01 (st.tm.isActive n))
          | none => (st, "bad-op")
      | ["settle"] => summary { st with tm := st.tm.settle }
      | ["tick"] => summary { st with tm := st.tm.tick }
      | _ => (st, "bad-op")
  | ["u", cls, o, delay, c, r, e, oe] =>
      match Gen.classes.find? (fun ci => ci.name == cls), delay.toNat?, c.toNat?, r.toNat?, e.toNat?, oe.toNat? with
      | some ci, some d, some c, some r, some e, some oe => (st, unloadReply ci (o.toNat?.getD 0) d c r e oe)
      | _, _, _, _, _, _ => (st, "bad-op")
  | _ => (st, "bad-op")

def main : IO Unit := Proto.run ({} : DState) step
