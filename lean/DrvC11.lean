/- line-protocol driver for the C11 model (Mathlib-free) -/
import Ipv8.Base.Proto
import Ipv8.C11.Model
import Ipv8.C11.GenOverlays
open Ipv8 Ipv8.C11

structure DState where
  svc : Svc := {}
  w : World := {}
  tm : TM := {}
  seen : Nat := 0        -- log entries already reported
  cov : List (String × Nat) := []   -- branch classes of the model definitions exercised so far (tag, count)

def b01 (b : Bool) : String := if b then "1" else "0"

def parseKind : String → Option TKind
  | "imm" => some .imm | "long" => some .long | "delayed" => some .delayed
  | "interval" => some .interval | "fut" => some .fut | _ => none

def parseSpec : List String → Option Spec
  | [k, d, i, s] => do
    let k ← parseKind k
    let d ← d.toNat?
    let i ← i.toNat?
    let s ← s.toNat?
    pure { kind := k, delay := d, ivl := i, stub := s }
  | _ => none

def insertSorted (x : Nat) : List Nat → List Nat
  | [] => [x]
  | y :: ys => if x ≤ y then x :: y :: ys else y :: insertSorted x ys

def sortNat (l : List Nat) : List Nat := l.foldr insertSorted []

def nameOf (ts : List Task) (id : Nat) : Nat :=
  match ts.find? (fun t => t.id == id) with
  | some t => t.name
  | none => 999

/-- every `start n (some t)` entry is preceded (older in the log) by `fin t` -/
def orderOk : List Ev → Bool
  | [] => true
  | Ev.start _ (some t) :: rest => rest.contains (Ev.fin t) && orderOk rest
  | _ :: rest => orderOk rest

def summary (st : DState) : DState × String :=
  let tm := st.tm
  let fresh := tm.log.take (tm.log.length - st.seen)
  let runs := sortNat (fresh.filterMap (fun e => match e with | .run id => some (nameOf tm.tasks id) | _ => none))
  let active := sortNat ((tm.map.filter (fun e => !(taskDone tm.tasks e.2))).map (fun e => e.1))
  let alive := (tm.tasks.filter (fun t => !t.done)).length
  ({ st with seen := tm.log.length },
   s!"active={Proto.showNatList active} runs={Proto.showNatList runs} alive={alive} down={b01 tm.shutdownReturned} order={b01 (orderOk tm.log)}")

def passes (tm : TM) : Nat → TM
  | 0 => tm
  | n + 1 => passes tm.pass n

def notSetRef : ROp → Bool
  | .setRef _ => false
  | _ => true

/-- stack 0 = plain endpoint, 1 = TunnelEndpoint wrapper, 2 = StatisticsEndpoint wrapper -/
def unloadReply (c : ClassInfo) (stack : Nat) (delay circuits relays exits openExit : Nat) : String :=
  let viaOuter := stack != 0
  let w0 : World := if stack == 2 then { fwdAdd := true, fwdRemove := Gen.statisticsEndpointForwardsRemove }
                    else { fwdAdd := Gen.tunnelEndpointForwardsAdd, fwdRemove := Gen.tunnelEndpointForwardsRemove }
  let ops := if stack == 2 then (loadOps c viaOuter 1 2 7).filter notSetRef else loadOps c viaOuter 1 2 7
  let w1 := (w0.run [.add false 3, .addPrefix false 4 8]).run ops
  let s0 : UState := { w := w1, self := 1, proxy := 2, viaOuter := viaOuter,
                       circuits := circuits, relays := relays, exits := exits, openExit := openExit }
  let s := s0.run (fun k now => Gen.removalSleeps k now delay) (fun _ => 0) c.script
  let hears := fun (l : Lid) => [7, 8, 99].any (fun p => (s.w.reach p).contains l)
  let direct := fun (l : Lid) => [7, 8, 99].any (fun p => (s.w.inner.recipients p).contains l)
  s!"listening={b01 (hears 1)} proxy={b01 (direct 2)} tm={b01 s.tmDown} cache={b01 (s.cacheDown || !c.hasCache)} " ++
  s!"db={b01 (s.dbClosed || !c.hasDb)} open={s.openExit} tables={s.circuits + s.relays + s.exits} ref={b01 (s.w.tunnelRef == some 1)}"

def step (st : DState) (toks : List String) : DState × String :=
  match toks with
  | ["reset", a, r] =>
      ({ w := { fwdAdd := a == "1", fwdRemove := r == "1" } }, "ok")
  | ["s", "reset"] => ({ st with svc := {} }, "ok")
  | ["s", "add", o, sid] =>
      match o.toNat?, sid.toNat? with
      | some o, some sid => ({ st with svc := st.svc.addStrategy o sid }, "ok")
      | _, _ => (st, "bad-op")
  | ["s", "unload", o] =>
      match o.toNat? with
      | some o => ({ st with svc := st.svc.unloadOverlay o }, "ok")
      | none => (st, "bad-op")
  | ["s", "list"] =>
      (st, s!"overlays={Proto.showNatList st.svc.overlays} strategies={Proto.showStrList (st.svc.stepped.map (fun e => s!"{e.1}:{e.2}"))}")
  | ["gen"] =>
      (st, s!"fwdAdd={b01 Gen.tunnelEndpointForwardsAdd} fwdRemove={b01 Gen.tunnelEndpointForwardsRemove} " ++
           s!"delay={Gen.defaultRemoveDelay} classes={Proto.showStrList (Gen.classes.map (·.name))}")
  | "r" :: rest =>
      let op : Option ROp := match rest with
        | ["add", o, l] => do pure (.add (o == "1") (← l.toNat?))
        | ["addp", o, l, p] => do pure (.addPrefix (o == "1") (← l.toNat?) (← p.toNat?))
        | ["rm", o, l] => do pure (.remove (o == "1") (← l.toNat?))
        | ["fwd", a, b] => do pure (.setFwd (← a.toNat?) (← b.toNat?))
        | ["unfwd", a] => do pure (.clearFwd (← a.toNat?))
        | ["open", b] => some (.setOpen (b == "1"))
        | ["ref", x] => if x == "none" then some (.setRef none) else do pure (.setRef (some (← x.toNat?)))
        | ["anon", l, b] => do pure (.setAnon (← l.toNat?) (b == "1"))
        | _ => none
      match op, rest with
      | some op, _ => ({ st with w := st.w.step op }, "ok")
      | none, ["tnotify", b, p] =>
          match p.toNat? with
          | some p => (st, Proto.showNatList (st.w.reachTunnel p (b == "1")))
          | none => (st, "bad-op")
      | none, ["driven"] => (st, Proto.showNatList st.w.tunnelRef.toList)
      | none, ["notify", p] =>
          match p.toNat? with
          | some p => (st, Proto.showNatList (st.w.reach p))
          | none => (st, "bad-op")
      | none, _ => (st, "bad-op")
  | "t" :: rest =>
      match rest with
      | "reg" :: n :: sp =>
          match n.toNat?, parseSpec sp with
          | some n, some sp =>
              let r := st.tm.register n sp
              ({ st with tm := r.1 }, match r.2 with | .ok _ => "ok" | .exists => "exists" | .refused => "refused")
          | _, _ => (st, "bad-op")
      | ["cancel", n] =>
          match n.toNat? with
          | some n => let r := st.tm.cancel n
                      ({ st with tm := r.1 }, if r.2.1 then "some" else "none")
          | none => (st, "bad-op")
      | "replace" :: n :: sp =>
          match n.toNat?, parseSpec sp with
          | some n, some sp => ({ st with tm := st.tm.replace n sp }, "ok")
          | _, _ => (st, "bad-op")
      | ["shutdown"] => ({ st with tm := st.tm.shutdownOp }, "ok")
      | ["selfshutdown", n] =>
          match n.toNat? with
          | some n => ({ st with tm := st.tm.shutdownFrom n }, "ok")
          | none => (st, "bad-op")
      | ["active", n] =>
          match n.toNat? with
          | some n => (st, b01 (st.tm.isActive n))
          | none => (st, "bad-op")
      | ["settle"] => summary { st with tm := st.tm.settle }
      | ["tick"] => summary { st with tm := st.tm.tick }
      | _ => (st, "bad-op")
  | ["u", cls, o, delay, c, r, e, oe] =>
      match Gen.classes.find? (fun ci => ci.name == cls), delay.toNat?, c.toNat?, r.toNat?, e.toNat?, oe.toNat? with
      | some ci, some d, some c, some r, some e, some oe => (st, unloadReply ci (o.toNat?.getD 0) d c r e oe)
      | _, _, _, _, _, _ => (st, "bad-op")
  | _ => (st, "bad-op")

/-! ### which branch of which model definition does a request exercise?  (reported by the `coverage` request; the harness
    fails the run when a branch class listed in the design stays at zero) -/

def bump (cov : List (String × Nat)) (tag : String) : List (String × Nat) :=
  match cov with
  | [] => [(tag, 1)]
  | (t, n) :: rest => if t == tag then (t, n + 1) :: rest else (t, n) :: bump rest tag

def deliverTag (now : Nat) (t : Task) : String :=
  if t.done then "deliver.done"
  else if t.cancelReq then
    if t.stub = 0 || !t.started then "deliver.cancel-immediate"
    else match t.dying with
      | none => "deliver.cancel-starts-dying"
      | some d => if d ≤ now then "deliver.cancel-died" else "deliver.cancel-still-dying"
  else match t.kind with
    | .imm => "deliver.imm-runs"
    | .long => if t.started then "deliver.long-waits" else "deliver.long-starts"
    | .delayed => if t.due ≤ now then "deliver.delayed-fires" else "deliver.delayed-waits"
    | .interval => if t.due ≤ now then "deliver.interval-fires" else "deliver.interval-waits"
    | .fut => "deliver.fut-waits"

/-- tags of one loop pass (same sub-expressions as `TM.pass`) -/
def passTags (tm : TM) : List String :=
  let none := tm.conts.filter (fun c => c.after.isNone)
  let tm0 := none.foldl TM.fireCont { tm with conts := tm.conts.filter (fun c => c.after.isSome) }
  let ts := tm0.tasks.map (deliver tm0.now)
  let ready := tm0.conts.filter (contReady ts)
  let waiting := tm0.conts.filter (fun c => !(contReady ts c))
  let fired (t : TM) (cs : List Cont) : List String :=
    (cs.foldl (fun (acc : TM × List String) c =>
      let r := acc.1.register c.name c.spec
      (acc.1.fireCont c, acc.2 ++ [match r.2 with | .ok _ => "cont.fires-ok" | .exists => "cont.fires-name-taken" | .refused => "cont.fires-refused"]))
      (t, [])).2
  (tm0.tasks.map (deliverTag tm0.now)) ++ fired { tm with conts := tm.conts.filter (fun c => c.after.isSome) } none ++
  (if waiting.isEmpty then [] else ["cont.still-waiting"]) ++
  fired { tm0 with tasks := ts, map := tm0.map.filter (fun e => !(taskDone ts e.2)), conts := waiting } ready ++
  (if (tm0.map.filter (fun e => taskDone ts e.2)).isEmpty then [] else ["pass.untracks-finished"])

def settleTags (tm : TM) : List String := passTags tm ++ passTags tm.pass ++ passTags tm.pass.pass

def hasDup : List Lid → Bool
  | [] => false
  | x :: xs => xs.contains x || hasDup xs

def tagsOf (st : DState) (toks : List String) : List String :=
  let w := st.w
  let tm := st.tm
  match toks with
  | ["r", "add", o, _] =>
      [if o == "1" then (if w.fwdAdd then "reg.add.via-wrapper-forwarded" else "reg.add.via-wrapper-own-lists") else "reg.add.direct",
       if w.inner.pmap.isEmpty then "reg.add.no-prefix-lists" else "reg.add.appended-to-prefix-lists"]
  | ["r", "addp", _, _, p] =>
      [match p.toNat? with
       | some p => if (lookupP w.inner.pmap p).isSome then "reg.addp.existing-prefix" else "reg.addp.new-prefix"
       | none => "bad",
       if w.inner.listeners.isEmpty then "reg.addp.no-generic-listeners" else "reg.addp.copies-generic-listeners"]
  | ["r", "rm", o, l] =>
      match l.toNat? with
      | some l =>
        let w' := w.step (.remove (o == "1") l)
        [if o == "1" then (if w.fwdRemove then "reg.rm.via-wrapper-forwarded" else "reg.rm.via-wrapper-own-lists") else "reg.rm.direct",
         if w.inner.listeners.contains l then "reg.rm.generic-listener" else "reg.rm.not-generic",
         if w.inner.pmap.any (fun e => e.2.contains l) then "reg.rm.prefix-listener" else "reg.rm.not-in-prefix-lists",
         if w'.inner.pmap.length < w.inner.pmap.length then "reg.rm.prefix-entry-dropped" else "reg.rm.prefix-entries-kept"]
      | none => ["bad"]
  | ["r", "fwd", a, _] => [match a.toNat? with
                            | some a => if (lookupF w.fwd a).isSome then "reg.fwd.replaces" else "reg.fwd.new"
                            | none => "bad"]
  | ["r", "unfwd", _] => ["reg.unfwd"]
  | ["r", "open", b] => [if b == "1" then "reg.open" else "reg.close"]
  | ["r", "ref", x] => [if x == "none" then "reg.ref.cleared" else "reg.ref.set"]
  | ["r", "anon", _, b] => [if b == "1" then "reg.anon.on" else "reg.anon.off"]
  | ["r", "notify", p] =>
      match p.toNat? with
      | some p =>
        let ds := w.inner.recipients p
        [if !w.inner.isOpen then "notify.closed" else if (lookupP w.inner.pmap p).isSome then "notify.prefix-list" else "notify.generic-listeners",
         if (ds.filterMap (fun l => lookupF w.fwd l)).isEmpty then "notify.no-proxy-forward" else "notify.proxy-forwards"]
      | none => ["bad"]
  | ["r", "tnotify", b, p] =>
      match p.toNat? with
      | some p =>
        let rs := w.inner.recipients p
        let fl := rs.filter (fun l => w.anon.contains l == (b == "1"))
        [if b == "1" then "tnotify.from-tunnel" else "tnotify.from-socket",
         if fl.length < rs.length then "tnotify.anonymize-filter-drops" else "tnotify.anonymize-filter-keeps-all",
         if hasDup fl then "tnotify.duplicate-delivered-once" else "tnotify.no-duplicate"]
      | none => ["bad"]
  | ["r", "driven"] => [if w.tunnelRef.isSome then "driven.refers-to-community" else "driven.no-community"]
  | "t" :: "reg" :: n :: sp =>
      match n.toNat?, parseSpec sp with
      | some n, some spec =>
        let r := tm.register n spec
        [match r.2 with | .ok _ => "register.ok" | .exists => "register.active-name-raises" | .refused => "register.refused-after-shutdown",
         "register.kind." ++ (sp.headD "?")]
      | _, _ => ["bad"]
  | ["t", "cancel", n] =>
      match n.toNat? with
      | some n =>
        [match lookupN tm.map n with
         | none => "cancel.unknown-name"
         | some id => if taskDone tm.tasks id then "cancel.finished-task" else if taskIsFut tm.tasks id then "cancel.future-completes-at-once" else "cancel.task-cancel-requested"]
      | none => ["bad"]
  | "t" :: "replace" :: n :: _ =>
      match n.toNat? with
      | some n => [if (tm.cancel n).2.2.isSome then "replace.waits-for-old-task" else "replace.nothing-to-wait-for"]
      | none => ["bad"]
  | ["t", "shutdown"] =>
      [if tm.shutdown then "shutdown.already-down" else if (tm.tasks.filter (fun t => inMap tm.map t.id && !t.done)).isEmpty then "shutdown.nothing-tracked" else "shutdown.cancels-tracked-tasks"]
  | ["t", "selfshutdown", _] => ["shutdown.from-own-task"]
  | ["t", "active", n] => [match n.toNat? with | some n => if tm.isActive n then "is-active.true" else "is-active.false" | none => "bad"]
  | ["t", "settle"] => settleTags tm
  | ["t", "tick"] => settleTags tm ++ settleTags tm.settle.advance
  | ["s", "add", o, _] => [match o.toNat? with
                            | some o => if st.svc.overlays.contains o then "svc.add.known-overlay" else "svc.add.new-overlay"
                            | none => "bad"]
  | ["s", "unload", o] =>
      match o.toNat? with
      | some o =>
        let k := (st.svc.strategies.filter (fun e => e.2 == o)).length
        [if k == 0 then "svc.unload.no-strategy" else if k == 1 then "svc.unload.one-strategy" else "svc.unload.several-strategies",
         if st.svc.overlays.contains o then "svc.unload.listed-overlay" else "svc.unload.unlisted-overlay"]
      | none => ["bad"]
  | ["u", cls, o, _, _, _, _, _] =>
      match Gen.classes.find? (fun ci => ci.name == cls) with
      | some ci => ("unload.stack." ++ o) :: ci.script.map (fun op => "uop." ++ (toString (repr op)).takeWhile (fun ch => ch != ' '))
      | none => ["bad"]
  | _ => []

def stepCov (st : DState) (toks : List String) : DState × String :=
  match toks with
  | ["coverage"] => (st, ";".intercalate (st.cov.map (fun e => s!"{e.1}={e.2}")))
  | _ =>
    let tags := tagsOf st toks
    let r := step st toks
    ({ r.1 with cov := tags.foldl bump st.cov }, r.2)

def main : IO Unit := Proto.run ({} : DState) stepCov
