/- line-protocol driver for the C14 model (Mathlib-free).  Bits are strings over '0','1' ("-" = empty). -/
import Ipv8.Base.Proto
import Ipv8.C14.Model
open Ipv8 Ipv8.C14

structure St where
  m : Nat
  rt : RT
  trie : Trie Nat
  bkt : Bucket

def bits? (s : String) : Option Bits :=
  if s == "-" then some [] else
  s.toList.mapM (fun c => if c == '0' then some false else if c == '1' then some true else none)

def showBits (b : Bits) : String :=
  if b.isEmpty then "-" else String.ofList (b.map (fun x => if x then '1' else '0'))

def bool? (s : String) : Option Bool :=
  if s == "0" then some false else if s == "1" then some true else none

def showNode (n : Node) : String :=
  s!"{n.tag}.{n.addr}.{if n.bad then 1 else 0}.{n.rtt}"

/-- insertion sort on strings / naturals for canonical output -/
def insSorted {α : Type} (lt : α → α → Bool) (x : α) : List α → List α
  | [] => [x]
  | y :: ys => if lt y x then y :: insSorted lt x ys else x :: y :: ys

def sortBy {α : Type} (lt : α → α → Bool) (l : List α) : List α := l.foldr (insSorted lt) []

def showBucket (b : Bucket) : String :=
  showBits b.pfx ++ "/" ++ toString b.cap ++ "=" ++ ",".intercalate ((sortBy (fun a b => a.tag < b.tag) b.nodes).map showNode)

/-! branch tags: which branch of the model definitions a request went through.  Appended to the reply as " #tag"; the harness
    strips them before comparing, counts them (`model-branch:*`) and fails the run (exit 2) when a listed branch class stays at
    zero, so that a silent loss of coverage of the hand-written definitions cannot look like a pass. -/

def addTag (rt : RT) (n : Node) : String :=
  match rt.getBucket n.id with
  | none => "add:no-bucket"
  | some (p, b) =>
    let look := if p.isEmpty && (rt.trie.lpi (fun _ => true) n.id).isNone then "root-fallback" else "lpi"
    let branch :=
      if !b.owns n.id then "not-owned"
      else if b.nodes.any (fun x => x.id == n.id) then "update"
      else if b.nodes.length < b.cap then "insert-room"
      else
        let eb := b.nodes.any (fun x => x.bad)
        let es := (b.nodes.eraseP (fun x => x.bad)).any (Bucket.slower n)
        if eb && es then "evict-bad+slow" else if eb then "evict-bad" else if es then "evict-slow"
        else if b.owns rt.me then "split" else "refuse-off-own-path"
    s!"add:{branch} getbucket:{look}"

def closestTag (rt : RT) (target : Bits) (k : Nat) (excl : Option Bits) : String :=
  let p := rt.closestPrefix target
  let first := (RT.level rt.trie excl p).length
  let all := (RT.level rt.trie excl []).length
  let stop := if RT.brk Gen.closestBreakStrict first k then (if p.isEmpty then "single-bucket" else "first-level")
    else if p.isEmpty then "single-bucket" else if RT.brk Gen.closestBreakStrict all k then "inner-level" else "root-reached"
  let cut := if all > k then "cut-to-k" else "fewer-than-k"
  let ex := match excl with
    | none => "no-exclude"
    | some e => if (rt.allNodes.any (fun x => x.id == e)) then "exclude-stored" else "exclude-absent"
  s!"closest:{stop} closest:{cut} closest:{ex}"

def statusTag (n : Node) : String :=
  let rec go (i : Nat) : List (Bool × Nat) → String
    | [] => "status:default"
    | (onFailed, _) :: rest =>
      if (if onFailed then decide (n.failed ≥ Gen.badFailedThreshold) else n.recent) then s!"status:rule{i}" else go (i + 1) rest
  go 0 Gen.statusRules

def step (st : St) (toks : List String) : St × String :=
  let bad : St × String := (st, "bad-op")
  match toks with
  | ["rt.new", me, m] =>
    match bits? me, m.toNat? with
    | some me, some m => ({ st with m := m, rt := RT.init me m }, "ok")
    | _, _ => bad
  | ["rt.add", id, f, rc, rtt, addr, tag] =>
    match bits? id, f.toNat?, bool? rc, rtt.toNat?, addr.toNat?, tag.toNat? with
    | some id, some f, some rc, some rtt, some addr, some tag =>
      let n : Node := { id := id, failed := f, recent := rc, rtt := rtt, addr := addr, tag := tag }
      let r := st.rt.add n
      let splits := r.1.trie.keys.length - st.rt.trie.keys.length
      let stag := if splits == 0 then "" else if splits == 1 then " add:one-split" else " add:repeated-split"
      ({ st with rt := r.1 },
        (match r.2 with
        | .stored x => s!"stored {x.tag} {x.addr}"
        | .none => "none"
        | .keyError => "keyerror"
        | .outOfFuel => "fuel") ++ " #" ++ addTag st.rt n ++ stag)
    | _, _, _, _, _, _ => bad
  | ["rt.rmbad"] =>
    let r := st.rt.removeBad
    ({ st with rt := r.1 }, Proto.showNatList (sortBy (fun a b => a < b) (r.2.map (·.tag)))
      ++ (if r.2.isEmpty then " #rmbad:nothing-removed" else " #rmbad:some-removed"))
  | ["rt.set", id, f, rc, rtt] =>
    match bits? id, f.toNat?, bool? rc, rtt.toNat? with
    | some id, some f, some rc, some rtt =>
      ({ st with rt := st.rt.setNode id f rc rtt }, "ok" ++ (if (st.rt.get id).isSome then " #setnode:hit" else " #setnode:miss"))
    | _, _, _, _ => bad
  | ["rt.status", id] =>
    match bits? id with
    | some id => (st, match st.rt.get id with | some x => (if x.bad then "bad" else "live") | none => "none")
    | none => bad
  | ["node.status", f, rc] =>
    match f.toNat?, bool? rc with
    | some f, some rc =>
      let n : Node := { id := [], failed := f, recent := rc, rtt := 0, addr := 0, tag := 0 }
      (st, (if n.bad then "bad" else "live") ++ " #" ++ statusTag n)
    | _, _ => bad
  | ["rt.closest", target, k, excl] =>
    match bits? target, (if k == "default" then some Gen.closestDefaultK else k.toNat?) with
    | some target, some k =>
      let ex : Option (Option Bits) := if excl == "none" then some none else (bits? excl).map some
      match ex with
      | some ex => (st, Proto.showNatList ((st.rt.closest target k ex).map (·.tag)) ++ " #" ++ closestTag st.rt target k ex)
      | none => bad
    | _, _ => bad
  | ["rt.get", id] =>
    match bits? id with
    | some id => (st, match st.rt.get id with | some x => toString x.tag | none => "none")
    | none => bad
  | ["rt.bucket", id] =>
    match bits? id with
    | some id => (st, match st.rt.getBucket id with | some (p, b) => showBits p ++ " " ++ showBits b.pfx | none => "keyerror")
    | none => bad
  | ["rt.refresh", r, keys] =>
    match r.toNat?, (if keys == "none" then some [] else (Proto.splitChar keys ',').mapM bits?) with
    | some r, some ks =>
      let res := st.rt.refresh Gen.idWidth (fun k => ks.contains k) (fun k => r % Gen.genIdDrawBound (Gen.idWidth - k.length))
      let items := res.map (fun kt => showBits kt.1 ++ ">" ++ (match kt.2 with | some id => showBits id | none => "raised"))
      (st, "|".intercalate (sortBy (fun a b => a < b) items)
        ++ (if res.isEmpty then " #refresh:none-stale" else if res.length == 1 then " #refresh:one-stale" else " #refresh:several-stale"))
    | _, _ => bad
  | ["rt.dump"] =>
    -- keys of the trie with the bucket stored there, in key order
    let ks := st.rt.trie.keys
    let items := ks.filterMap (fun k => (st.rt.trie.get k).map (fun b => showBits k ++ ":" ++ showBucket b))
    (st, "|".intercalate (sortBy (fun a b => a < b) items))
  | ["rt.genid", pfx, width, r] =>
    match bits? pfx, width.toNat?, r.toNat? with
    | some pfx, some w, some r =>
      let n := w - pfx.length
      (st, (match Bucket.generateId w { pfx := pfx, nodes := [], cap := 0 } r with | some id => showBits id | none => "raised")
        ++ (if n == 0 then " #genid:no-suffix" else if r < 2 ^ n then " #genid:in-range"
            else if (Bucket.generateId w { pfx := pfx, nodes := [], cap := 0 } r).isNone then " #genid:overflow-raises" else " #genid:overflow-outside"))
    | _, _, _ => bad
  | ["rt.genid_old", pfx, width, r] =>
    match bits? pfx, width.toNat?, r.toNat? with
    | some pfx, some w, some r =>
      (st, match Bucket.generateIdOld w { pfx := pfx, nodes := [], cap := 0 } r with | some id => showBits id | none => "raised")
    | _, _, _ => bad
  | ["dist", a, b] =>
    match bits? a, bits? b with
    | some a, some b => (st, toString (dist a b))
    | _, _ => bad
  | ["b.new", pfx, cap] =>
    match bits? pfx, cap.toNat? with
    | some pfx, some cap => ({ st with bkt := { pfx := pfx, nodes := [], cap := cap } }, "ok")
    | _, _ => bad
  | ["b.add", id, f, rc, rtt, addr, tag] =>
    match bits? id, f.toNat?, bool? rc, rtt.toNat?, addr.toNat?, tag.toNat? with
    | some id, some f, some rc, some rtt, some addr, some tag =>
      let n : Node := { id := id, failed := f, recent := rc, rtt := rtt, addr := addr, tag := tag }
      let r := st.bkt.add n
      ({ st with bkt := r.1 }, (if r.2 then "true " else "false ") ++ showBucket r.1
        ++ (if !st.bkt.owns id then " #bucket-add:not-owned" else if r.2 then " #bucket-add:accepted" else " #bucket-add:refused-full"))
    | _, _, _, _, _, _ => bad
  | ["b.split"] =>
    (st, match st.bkt.split with
      | none => "none #bucket-split:refused-not-full"
      | some (b0, b1) => showBucket b0 ++ " " ++ showBucket b1 ++ " #bucket-split:done")
  | ["t.new"] => ({ st with trie := Trie.empty }, "ok")
  | ["t.set", k, v] =>
    match bits? k, v.toNat? with
    | some k, some v =>
      ({ st with trie := st.trie.set k v },
        "ok" ++ (if (st.trie.get k).isSome then " #trie-set:overwrite"
                 else if (st.trie.find k).isEmptyNode || (match st.trie.find k with | .nil => true | _ => false) then " #trie-set:new-node" else " #trie-set:value-on-inner-node"))
    | _, _ => bad
  | ["t.del", k] =>
    match bits? k with
    | some k =>
      let d := st.trie.del k
      let tag := if (st.trie.get k).isNone then " #trie-del:absent"
        else if d.1.isEmptyNode then " #trie-del:last-key(keyerror-quirk)"
        else if (d.1.find k matches .nil) then " #trie-del:pruned" else " #trie-del:kept-inner-node"
      ({ st with trie := d.1 }, (if d.2 then "keyerror" else "ok") ++ tag)
    | none => bad
  | ["t.get", k] =>
    match bits? k with
    | some k => (st, match st.trie.get k with | some v => toString v | none => "keyerror")
    | none => bad
  | ["t.lpi", k] =>
    match bits? k with
    | some k =>
      let tag := match st.trie.lpiRel k with
        | none => " #trie-lpi:nothing"
        | some (p, v) => if v == 0 then " #trie-lpi:falsy-value" else if p.length == 1 then " #trie-lpi:direct-child" else " #trie-lpi:deeper"
      (st, (match st.trie.lpi (fun v => v != 0) k with | some (p, v) => showBits p ++ " " ++ toString v | none => "none") ++ tag)
    | none => bad
  | ["t.lp", k] =>
    match bits? k with
    | some k => (st, match st.trie.lpi (fun v => v != 0) k with | some (p, _) => showBits p | none => "none")
    | none => bad
  | ["t.lpv", k] =>
    match bits? k with
    | some k => (st, match st.trie.lpi (fun v => v != 0) k with | some (_, v) => toString v | none => "none")
    | none => bad
  | ["t.suf", k] =>
    match bits? k with
    | some k => (st, Proto.showStrList (sortBy (fun a b => a < b) ((st.trie.suffixes k).map showBits)))
    | none => bad
  | ["t.vals"] => (st, Proto.showNatList (sortBy (fun a b => a < b) st.trie.values))
  | ["t.keys"] => (st, Proto.showStrList (sortBy (fun a b => a < b) (st.trie.keys.map showBits)))
  | _ => bad

def main : IO Unit := Proto.run ({ m := 8, rt := RT.init [] 8, trie := Trie.empty, bkt := { pfx := [], nodes := [], cap := 8 } } : St) step
